(* Set-up and teardown of SEVERAL data links on one RFCOMM multiplexer
   (bumble/rfcomm.py, same code as Model/RfcommSm.v: Multiplexer.connect / on_sabm_frame /
   on_ua_frame / on_dm_frame / on_disc_frame / on_mcc_pn / open_dlc / disconnect /
   on_dlc_open_complete / on_dlc_disconnection / on_l2cap_channel_close, DLC.accept /
   connect / on_sabm_frame / on_ua_frame / on_disc_frame / disconnect / abort), both ends,
   two FIFO channels.  Executable Gallina only.

   Three channels: channels 0 and 1 are accepted by the responder's acceptor (each end
   has a DLC table slot for each), channel 2 is refused (the acceptor returns None: DM).
   Channel numbers 3, 4, 5 stand for channels 0, 1, 2 opened with a maximum frame size the
   responder does not accept (Multiplexer.acceptable_frame_size, fix D17i: N1 > 32767 or
   min(N1, L2CAP MTU - 5) < 23): the PN command is answered with DM whatever the acceptor
   says and no DLC is created.  G_PNcmdRB / G_PNrspBad (not reachable under the environment
   assumptions, see sm2_stepx): the responder's OWN configured frame size is unacceptable to
   the initiator, which treats the PN response like a DM.
   What the initiator's multiplexer keeps for an open_dlc in flight is modelled as in the
   code: ONE state OPENING and ONE pending open_result (st field pend = the channel that
   open_dlc call asked for).  open_dlc while the multiplexer is not CONNECTED raises
   InvalidStateError ('open already in progress' in OPENING, 'not connected' otherwise)
   without touching anything: a stutter here.
   Ghost field bad: set when a pending open_dlc is resolved with the wrong outcome -
   with a DLC of another channel, or refused although the acceptor accepts the channel,
   or accepted although it refuses it, or resolved when no open was pending.
   MSC frames are left out (Multiplexer.on_mcc_msc / DLC.on_mcc_msc answer an MSC command
   with an MSC response and change no state); the correspondence run delivers them as
   soon as they reach the head of a channel.  Data frames are Model/Rfcomm.v's subject.
   Environment assumptions as in Model/RfcommSm.v. *)
From Coq Require Import ZArith List Bool.
From BV Require Import Model.RfcommSm.
Import ListNotations.

Inductive fr2 :=
| G_SABM0 | G_UA0 | G_DISC0
| G_PNcmd (d : nat) | G_PNrsp (d : nat) | G_DM (d : nat)
| G_PNcmdRB (d : nat) | G_PNrspBad (d : nat)
| G_SABM (d : nat) | G_UA (d : nat) | G_DISC (d : nat).

Record side2 := mkSide2 {
  e_mux : mst;
  e_s0 : option dst;           (* DLC table entry of channel 0 *)
  e_s1 : option dst;           (* DLC table entry of channel 1 *)
  e_pend : option nat          (* channel of the open_dlc call whose open_result is pending *)
}.

Record st2 := mkSt2 {
  t_a : side2; t_b : side2;
  t_closed : bool;
  t_bad : bool;
  t_ab : list fr2; t_ba : list fr2
}.

Inductive lbl2 :=
| L_Connect | L_Open (d : nat) | L_ADisc (d : nat) | L_BDisc (d : nat) | L_MuxDisc
| L_Close | L_DeliverAB | L_DeliverBA.

Definition all_labels2 : list lbl2 :=
  [L_Connect; L_Open 0; L_Open 1; L_Open 2; L_ADisc 0; L_ADisc 1; L_BDisc 0; L_BDisc 1;
   L_MuxDisc; L_Close; L_DeliverAB; L_DeliverBA; L_Open 3; L_Open 4; L_Open 5].

Definition sm2_init : st2 :=
  mkSt2 (mkSide2 MInit None None None) (mkSide2 MInit None None None) false false [] [].

Definition accepted (d : nat) : bool := Nat.ltb d 2.
(* the proposed frame size of open number k is acceptable to the responder *)
Definition size_ok (k : nat) : bool := Nat.ltb k 3.
(* the channel an open number refers to *)
Definition chan_of (k : nat) : nat := if Nat.ltb k 3 then k else k - 3.

Definition slot (s : side2) (d : nat) : option dst :=
  match d with O => e_s0 s | S O => e_s1 s | _ => None end.

Definition set_slot (s : side2) (d : nat) (x : option dst) : side2 :=
  match d with
  | O => mkSide2 (e_mux s) x (e_s1 s) (e_pend s)
  | S O => mkSide2 (e_mux s) (e_s0 s) x (e_pend s)
  | _ => s
  end.

Definition set_mux (s : side2) (m : mst) : side2 := mkSide2 m (e_s0 s) (e_s1 s) (e_pend s).
Definition set_pend (s : side2) (p : option nat) : side2 := mkSide2 (e_mux s) (e_s0 s) (e_s1 s) p.

Definition pend_is (s : side2) (d : nat) : bool :=
  match e_pend s with Some p => Nat.eqb p d | None => false end.

(* what happened to the pending open_result while a frame was processed *)
Inductive oev := NoEv | EvOk | EvFail.

Definition has_pend (s : side2) : bool := match e_pend s with Some _ => true | None => false end.

(* Multiplexer.on_pdu for one end: new state, frames sent, and the resolution (if any) of
   the pending open_result ("if self.open_result: ...": nothing happens when none is) *)
Definition on_frame2 (responder : bool) (s : side2) (f : fr2) : side2 * list fr2 * oev :=
  match f with
  | G_SABM0 =>
      if is_mst (e_mux s) MInit then (set_mux s MConnected, [G_UA0], NoEv) else (s, [], NoEv)
  | G_UA0 =>
      match e_mux s with
      | MConnecting => (set_mux s MConnected, [], NoEv)
      | MDisconnecting => (set_mux s MDisconnected, [], NoEv)
      | _ => (s, [], NoEv)
      end
  | G_DISC0 => (set_mux s MDisconnected, [G_UA0], NoEv)
  | G_DM d =>
      (* Multiplexer.on_dm_frame: fails the pending open whatever the DLCI *)
      if is_mst (e_mux s) MOpening
      then (set_pend (set_mux s MConnected) None, [], if has_pend s then EvFail else NoEv)
      else (s, [], NoEv)
  | G_PNcmd d =>
      (* on_mcc_pn, command: the frame size is checked before the acceptor is asked; the
         acceptor is only asked when there is one (responder) *)
      if negb (size_ok d) then (s, [G_DM d], NoEv)
      else if responder then
        if accepted d then (set_slot s d (Some DConnecting), [G_PNrsp d], NoEv)
        else (s, [G_DM d], NoEv)
      else (s, [], NoEv)
  | G_PNcmdRB d =>
      if responder then
        if accepted d then (set_slot s d (Some DConnecting), [G_PNrspBad d], NoEv)
        else (s, [G_DM d], NoEv)
      else (s, [], NoEv)
  | G_PNrsp d =>
      if is_mst (e_mux s) MOpening
      then (set_slot s d (Some DConnecting), [G_SABM d], NoEv)
      else (s, [], NoEv)
  | G_PNrspBad d =>
      (* on_mcc_pn, response with an unacceptable frame size: like on_dm_frame *)
      if is_mst (e_mux s) MOpening
      then (set_pend (set_mux s MConnected) None, [], if has_pend s then EvFail else NoEv)
      else (s, [], NoEv)
  | G_SABM d =>
      match slot s d with
      | Some DConnecting => (set_slot s d (Some DConnected), [G_UA d], NoEv)
      | _ => (s, [], NoEv)
      end
  | G_UA d =>
      match slot s d with
      | Some DConnecting =>
          (* on_dlc_open_complete: multiplexer CONNECTED, open_result.set_result(dlc) *)
          (set_pend (set_mux (set_slot s d (Some DConnected)) MConnected) None, [],
           if has_pend s then EvOk else NoEv)
      | Some DDisconnecting => (set_slot s d None, [], NoEv)     (* on_dlc_disconnection *)
      | _ => (s, [], NoEv)
      end
  | G_DISC d =>
      match slot s d with
      | Some _ => (set_slot s d None, [G_UA d], NoEv)
      | None => (s, [], NoEv)
      end
  end.

Definition fr2_chan (f : fr2) : nat :=
  match f with
  | G_PNcmd d | G_PNrsp d | G_DM d | G_SABM d | G_UA d | G_DISC d | G_PNcmdRB d | G_PNrspBad d => d
  | _ => 0
  end.

(* was the pending open_dlc(p) resolved wrongly by what happened while frame f (channel d)
   was processed: success with another link's DLC or of a refused channel, failure of an
   accepted channel or caused by another link *)
Definition wrong_outcome (s : side2) (f : fr2) (ev : oev) : bool :=
  match ev with
  | NoEv => false
  | EvOk => negb (pend_is s (fr2_chan f) && accepted (fr2_chan f))
  | EvFail => negb (pend_is s (fr2_chan f) && negb (accepted (fr2_chan f)))
  end.

Definition abort_slot (x : option dst) : option dst :=
  match x with Some _ => Some DReset | None => None end.
Definition abort2 (s : side2) : side2 :=
  mkSide2 (e_mux s) (abort_slot (e_s0 s)) (abort_slot (e_s1 s)) (e_pend s).

Definition sm2_step_gen (onf : bool -> side2 -> fr2 -> side2 * list fr2 * oev) (s : st2) (l : lbl2) : st2 :=
  if t_closed s then s else
  match l with
  | L_Connect =>
      if is_mst (e_mux (t_a s)) MInit
      then mkSt2 (set_mux (t_a s) MConnecting) (t_b s) false (t_bad s) (t_ab s ++ [G_SABM0]) (t_ba s)
      else s
  | L_Open d =>
      if is_mst (e_mux (t_a s)) MConnected &&
         match slot (t_a s) (chan_of d) with None => true | Some _ => false end && Nat.ltb d 6
      then mkSt2 (set_pend (set_mux (t_a s) MOpening) (Some d)) (t_b s) false (t_bad s)
                 (t_ab s ++ [G_PNcmd d]) (t_ba s)
      else s
  | L_ADisc d =>
      if dlc_is (slot (t_a s) d) DConnected
      then mkSt2 (set_slot (t_a s) d (Some DDisconnecting)) (t_b s) false (t_bad s)
                 (t_ab s ++ [G_DISC d]) (t_ba s)
      else s
  | L_BDisc d =>
      if dlc_is (slot (t_b s) d) DConnected
      then mkSt2 (t_a s) (set_slot (t_b s) d (Some DDisconnecting)) false (t_bad s)
                 (t_ab s) (t_ba s ++ [G_DISC d])
      else s
  | L_MuxDisc =>
      if is_mst (e_mux (t_a s)) MConnected
      then mkSt2 (set_mux (t_a s) MDisconnecting) (t_b s) false (t_bad s) (t_ab s ++ [G_DISC0]) (t_ba s)
      else s
  | L_Close =>
      match t_ab s, t_ba s, e_mux (t_a s) with
      | [], [], MDisconnected => mkSt2 (abort2 (t_a s)) (abort2 (t_b s)) true (t_bad s) [] []
      | _, _, _ => s
      end
  | L_DeliverAB =>
      match t_ab s with
      | [] => s
      | f :: rest =>
          let '(b', out, ev) := onf true (t_b s) f in
          mkSt2 (t_a s) b' false (t_bad s || wrong_outcome (t_b s) f ev) rest (t_ba s ++ out)
      end
  | L_DeliverBA =>
      match t_ba s with
      | [] => s
      | f :: rest =>
          let '(a', out, ev) := onf false (t_a s) f in
          mkSt2 a' (t_b s) false (t_bad s || wrong_outcome (t_a s) f ev) (t_ab s ++ out) rest
      end
  end.

Definition sm2_step : st2 -> lbl2 -> st2 := sm2_step_gen on_frame2.

Fixpoint sm2_run (s : st2) (ls : list lbl2) : st2 :=
  match ls with [] => s | l :: r => sm2_run (sm2_step s l) r end.

(* the seeded variant the coordinator found missed: on_dlc_disconnection also "un-sticks"
   an OPENING multiplexer, failing the pending open whichever link closed *)
Definition unstick (s : side2) : side2 * oev :=
  if is_mst (e_mux s) MOpening
  then (set_pend (set_mux s MConnected) None, if has_pend s then EvFail else NoEv)
  else (s, NoEv).

Definition on_frame2_seeded (responder : bool) (s : side2) (f : fr2) : side2 * list fr2 * oev :=
  match f with
  | G_UA d =>
      match slot s d with
      | Some DDisconnecting => let '(s', ev) := unstick (set_slot s d None) in (s', [], ev)
      | _ => on_frame2 responder s f
      end
  | G_DISC d =>
      match slot s d with
      | Some _ => let '(s', ev) := unstick (set_slot s d None) in (s', [G_UA d], ev)
      | None => (s, [], NoEv)
      end
  | _ => on_frame2 responder s f
  end.

Fixpoint sm2_run_seeded (s : st2) (ls : list lbl2) : st2 :=
  match ls with [] => s | l :: r => sm2_run_seeded (sm2_step_gen on_frame2_seeded s l) r end.

(* ---------- the property ---------- *)
Definition quiescent2 (s : st2) : bool :=
  match t_ab s, t_ba s with [], [] => true | _, _ => false end.

(* both ends' DLC tables and states match, no open_dlc is left pending, and every
   open_dlc that was resolved got the right outcome *)
Definition agree2 (s : st2) : bool :=
  mux_agree (e_mux (t_a s)) (e_mux (t_b s)) &&
  dlc_agree (e_s0 (t_a s)) (e_s0 (t_b s)) &&
  dlc_agree (e_s1 (t_a s)) (e_s1 (t_b s)) &&
  match e_pend (t_a s) with None => true | Some _ => false end &&
  negb (t_bad s).

Definition good2 (s : st2) : bool := negb (t_bad s) && (if quiescent2 s then agree2 s else true).

Fixpoint drain2 (n : nat) (s : st2) : st2 :=
  match n with
  | O => s
  | S k => if quiescent2 s then s else drain2 k (sm2_step (sm2_step s L_DeliverAB) L_DeliverBA)
  end.

(* ---------- observables for the correspondence check ---------- *)
Definition fr2_code (f : fr2) : Z :=
  match f with
  | G_SABM0 => 0 | G_UA0 => 1 | G_DISC0 => 2
  | G_PNcmd d => 100 + Z.of_nat d | G_PNrsp d => 110 + Z.of_nat d | G_DM d => 120 + Z.of_nat d
  | G_SABM d => 130 + Z.of_nat d | G_UA d => 140 + Z.of_nat d | G_DISC d => 150 + Z.of_nat d
  | G_PNcmdRB d => 160 + Z.of_nat d | G_PNrspBad d => 170 + Z.of_nat d
  end%Z.
Definition pend_code (p : option nat) : Z := match p with None => (-1)%Z | Some d => Z.of_nat d end.
Definition side2_obs (s : side2) := (mst_code (e_mux s), dst_code (e_s0 s), dst_code (e_s1 s), pend_code (e_pend s)).
Definition st2_obs (s : st2) :=
  (side2_obs (t_a s), side2_obs (t_b s), t_bad s, map fr2_code (t_ab s), map fr2_code (t_ba s)).
Fixpoint sm2_trace (s : st2) (ls : list lbl2) :=
  match ls with
  | [] => []
  | l :: r => let s' := sm2_step s l in st2_obs s' :: sm2_trace s' r
  end.

(* ---------- outside the environment assumptions: the RESPONDER disconnects the multiplexer
   (Multiplexer.disconnect is role-agnostic; rfcomm.Server offers no call for it).  Used only
   to state known finding D20j. *)
Inductive lbl2x := X (l : lbl2) | X_BMuxDisc | X_OpenRB (d : nat).

Definition sm2_stepx (s : st2) (l : lbl2x) : st2 :=
  match l with
  | X l' => sm2_step s l'
  | X_BMuxDisc =>
      if negb (t_closed s) && is_mst (e_mux (t_b s)) MConnected
      then mkSt2 (t_a s) (set_mux (t_b s) MDisconnecting) false (t_bad s) (t_ab s) (t_ba s ++ [G_DISC0])
      else s
  | X_OpenRB d =>
      (* open_dlc of a channel for which the responder is CONFIGURED with a frame size
         outside 23..32767 (Server.listen does not validate it) *)
      if negb (t_closed s) && is_mst (e_mux (t_a s)) MConnected &&
         match slot (t_a s) d with None => true | Some _ => false end && Nat.ltb d 2
      then mkSt2 (set_pend (set_mux (t_a s) MOpening) (Some d)) (t_b s) false (t_bad s)
                 (t_ab s ++ [G_PNcmdRB d]) (t_ba s)
      else s
  end.

Fixpoint sm2_runx (s : st2) (ls : list lbl2x) : st2 :=
  match ls with [] => s | l :: r => sm2_runx (sm2_stepx s l) r end.
