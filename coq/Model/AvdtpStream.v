(* Model of the AVDTP stream state machine of bumble/avdtp.py on both ends of one stream:
   the initiating side (a LocalSource driven through Stream.configure / open / start /
   stop / close / abort) and the accepting side (Protocol.on_*_command dispatching to
   Stream.on_*_command of a LocalSink).  Executable Gallina, no proofs.

   Reading of the code (after the repair fixes/D19f.patch, which adds Stream.abort(): before
   it the only way to abort was stream.remote_endpoint.abort(), which moved the acceptor to
   ABORTING / IDLE and left the initiator's Stream.state where it was):

   initiator (methods of Stream), each procedure first checks its own state and raises
   InvalidStateError without sending anything ([Refused]); a reject from the peer surfaces
   as ProtocolError ([Rejected]) and leaves the local state unchanged:
     configure : IDLE only; Set_Configuration; -> CONFIGURED
     open      : CONFIGURED only; Open; -> OPEN; then the RTP L2CAP channel is created
                 (the acceptor attaches it through Protocol.channel_acceptor)
     start     : CONFIGURED -> open() first; then OPEN only; Start; -> STREAMING
     stop      : STREAMING only; Suspend; -> OPEN
     close     : OPEN or STREAMING; Close; -> CLOSING; RTP channel disconnected; -> IDLE
     abort     : any state but IDLE; Abort; -> ABORTING; RTP channel disconnected; -> IDLE
   acceptor (Protocol.on_X_command + Stream.on_X_command):
     set_configuration : rejected (SEP_IN_USE) when the endpoint has a stream that is not
                 IDLE; otherwise a NEW Stream object (no RTP channel) -> CONFIGURED
     open      : no stream or not CONFIGURED -> reject; -> OPEN, channel_acceptor = stream
     start     : no stream, not OPEN, or no RTP channel -> reject; -> STREAMING
     suspend   : no stream or not STREAMING -> reject; -> OPEN
     close     : no stream or not OPEN/STREAMING -> reject; -> CLOSING, and IDLE at once
                 when there is no RTP channel
     abort     : always accepted; no stream: nothing; no RTP channel -> IDLE, else ABORTING
     RTP channel connected : attached to channel_acceptor (if any), which is then cleared
     RTP channel closed    : rtp_channel = None; CLOSING / ABORTING -> IDLE
   The local endpoint hooks (LocalSource.start/stop/close, LocalSink.on_*_command) return
   None for the endpoints used (no packet pump): they do not touch Stream.state.
   Asynchrony: every initiator procedure awaits the peer's response before it changes its
   own state and procedures are issued one after the other, so one operation is one atomic
   step of the pair. *)
From Coq Require Import ZArith List Bool.
Import ListNotations.

Inductive sst := Idle | Configured | Open | Streaming | Closing | Aborting.
Inductive sop := OpConfigure | OpOpen | OpStart | OpSuspend | OpClose | OpAbort
                 | OpGetConfiguration | OpReconfigure | OpDelayReport.
Inductive sres := Ok | Refused | Rejected.

Definition sst_eqb (a b : sst) : bool :=
  match a, b with
  | Idle, Idle | Configured, Configured | Open, Open | Streaming, Streaming
  | Closing, Closing | Aborting, Aborting => true
  | _, _ => false
  end.

Record pair := mkP {
  src_st : sst;        (* initiator Stream.state *)
  src_rtp : bool;      (* initiator Stream.rtp_channel is not None *)
  snk_has : bool;      (* acceptor endpoint.stream is not None *)
  snk_st : sst;        (* acceptor Stream.state (Idle when there is no stream) *)
  snk_rtp : bool;      (* acceptor Stream.rtp_channel is not None *)
  snk_acc : bool       (* acceptor Protocol.channel_acceptor is not None *)
}.

Definition p_init : pair := mkP Idle false false Idle false false.

(* ---- acceptor side: returns (accepted, new acceptor fields) ---- *)
Definition set_snk (p : pair) (has : bool) (st : sst) (rtp acc : bool) : pair :=
  mkP (src_st p) (src_rtp p) has st rtp acc.
Definition set_src (p : pair) (st : sst) (rtp : bool) : pair :=
  mkP st rtp (snk_has p) (snk_st p) (snk_rtp p) (snk_acc p).

Definition snk_set_configuration (p : pair) : bool * pair :=
  if snk_has p && negb (sst_eqb (snk_st p) Idle) then (false, p)
  else (true, set_snk p true Configured false (snk_acc p)).

Definition snk_open (p : pair) : bool * pair :=
  if negb (snk_has p) then (false, p)
  else if negb (sst_eqb (snk_st p) Configured) then (false, p)
  else (true, set_snk p true Open (snk_rtp p) true).

Definition snk_start (p : pair) : bool * pair :=
  if negb (snk_has p) then (false, p)
  else if negb (sst_eqb (snk_st p) Open) then (false, p)
  else if negb (snk_rtp p) then (false, p)
  else (true, set_snk p true Streaming (snk_rtp p) (snk_acc p)).

Definition snk_suspend (p : pair) : bool * pair :=
  if negb (snk_has p) then (false, p)
  else if negb (sst_eqb (snk_st p) Streaming) then (false, p)
  else (true, set_snk p true Open (snk_rtp p) (snk_acc p)).

Definition snk_close (p : pair) : bool * pair :=
  if negb (snk_has p) then (false, p)
  else if negb (sst_eqb (snk_st p) Open || sst_eqb (snk_st p) Streaming) then (false, p)
  else (true, set_snk p true (if snk_rtp p then Closing else Idle) (snk_rtp p) (snk_acc p)).

Definition snk_abort (p : pair) : pair :=
  if negb (snk_has p) then p
  else set_snk p true (if snk_rtp p then Aborting else Idle) (snk_rtp p) (snk_acc p).

(* Protocol.on_l2cap_connection -> Stream.on_l2cap_connection *)
Definition snk_channel_connected (p : pair) : pair :=
  if snk_acc p then set_snk p (snk_has p) (snk_st p) true false else p.

(* Stream.on_l2cap_channel_close (only when a channel is attached) *)
Definition snk_channel_closed (p : pair) : pair :=
  if snk_rtp p then
    set_snk p (snk_has p)
      (if sst_eqb (snk_st p) Closing || sst_eqb (snk_st p) Aborting then Idle else snk_st p)
      false (snk_acc p)
  else p.

(* ---- initiator side ---- *)
Definition src_open (p : pair) : pair * sres :=
  if negb (sst_eqb (src_st p) Configured) then (p, Refused)
  else
    let '(ok, p1) := snk_open p in
    if negb ok then (p, Rejected)
    else
      (* change_state(OPEN); create the RTP channel *)
      (snk_channel_connected (set_src p1 Open true), Ok).

Definition src_release_rtp (p : pair) : pair :=
  if src_rtp p then snk_channel_closed (set_src p (src_st p) false) else p.

Definition step (p : pair) (o : sop) : pair * sres :=
  match o with
  | OpConfigure =>
      if negb (sst_eqb (src_st p) Idle) then (p, Refused)
      else
        let '(ok, p1) := snk_set_configuration p in
        if negb ok then (p, Rejected) else (set_src p1 Configured (src_rtp p1), Ok)
  | OpOpen => src_open p
  | OpStart =>
      (* auto-open *)
      let '(p0, r0) := if sst_eqb (src_st p) Configured then src_open p else (p, Ok) in
      match r0 with
      | Ok =>
          if negb (sst_eqb (src_st p0) Open) then (p0, Refused)
          else
            let '(ok, p1) := snk_start p0 in
            if negb ok then (p0, Rejected) else (set_src p1 Streaming (src_rtp p1), Ok)
      | r => (p0, r)
      end
  | OpSuspend =>
      if negb (sst_eqb (src_st p) Streaming) then (p, Refused)
      else
        let '(ok, p1) := snk_suspend p in
        if negb ok then (p, Rejected) else (set_src p1 Open (src_rtp p1), Ok)
  | OpClose =>
      if negb (sst_eqb (src_st p) Open || sst_eqb (src_st p) Streaming) then (p, Refused)
      else
        let '(ok, p1) := snk_close p in
        if negb ok then (p, Rejected)
        else
          let p2 := src_release_rtp (set_src p1 Closing (src_rtp p1)) in
          (set_src p2 Idle (src_rtp p2), Ok)
  | OpAbort =>
      if sst_eqb (src_st p) Idle then (p, Refused)
      else
        let p1 := snk_abort p in
        let p2 := src_release_rtp (set_src p1 Aborting (src_rtp p1)) in
        (set_src p2 Idle (src_rtp p2), Ok)
  (* bare signalling commands (Protocol.get_configuration / send_command): no local guard, the
     acceptor answers or rejects, nobody changes state *)
  | OpGetConfiguration =>
      (* on_get_configuration_command: no stream -> BAD_STATE; not CONFIGURED/OPEN/STREAMING -> reject *)
      if snk_has p && (sst_eqb (snk_st p) Configured || sst_eqb (snk_st p) Open || sst_eqb (snk_st p) Streaming)
      then (p, Ok) else (p, Rejected)
  | OpReconfigure =>
      (* on_reconfigure_command: no stream or not OPEN -> reject *)
      if snk_has p && sst_eqb (snk_st p) Open then (p, Ok) else (p, Rejected)
  | OpDelayReport =>
      (* on_delayreport_command: handed to the endpoint whatever the stream state *)
      (p, Ok)
  end.

Fixpoint run (p : pair) (ops : list sop) : pair * list sres :=
  match ops with
  | [] => (p, [])
  | o :: ops' =>
      let '(p1, r) := step p o in
      let '(p2, rs) := run p1 ops' in
      (p2, r :: rs)
  end.

(* what the AVDTP specification allows from each state, from the initiator *)
Definition legal (o : sop) (st : sst) : bool :=
  match o, st with
  | OpConfigure, Idle => true
  | OpOpen, Configured => true
  | OpStart, Configured | OpStart, Open => true     (* bumble opens on the way *)
  | OpSuspend, Streaming => true
  | OpClose, Open | OpClose, Streaming => true
  | OpAbort, Idle => false
  | OpAbort, _ => true
  | OpGetConfiguration, Configured | OpGetConfiguration, Open | OpGetConfiguration, Streaming => true
  | OpReconfigure, Open => true
  | OpDelayReport, _ => true
  | _, _ => false
  end.

(* how an illegal procedure is turned down: Stream procedures refuse locally (InvalidStateError),
   bare commands are rejected by the acceptor (ProtocolError) *)
Definition refusal (o : sop) : sres :=
  match o with
  | OpGetConfiguration | OpReconfigure | OpDelayReport => Rejected
  | _ => Refused
  end.

Definition spec_next (o : sop) (st : sst) : sst :=
  if legal o st then
    match o with
    | OpConfigure => Configured
    | OpOpen => Open
    | OpStart => Streaming
    | OpSuspend => Open
    | OpClose => Idle
    | OpAbort => Idle
    | OpGetConfiguration | OpReconfigure | OpDelayReport => st
    end
  else st.

(* the two ends agree: same state, same view of the RTP channel, nothing half-attached *)
Definition agree (p : pair) : bool :=
  sst_eqb (src_st p) (snk_st p) && Bool.eqb (src_rtp p) (snk_rtp p) && negb (snk_acc p)
  && (snk_has p || sst_eqb (snk_st p) Idle)
  && Bool.eqb (src_rtp p) (sst_eqb (src_st p) Open || sst_eqb (src_st p) Streaming).

Definition all_sst : list sst := [Idle; Configured; Open; Streaming; Closing; Aborting].
Definition all_ops : list sop := [OpConfigure; OpOpen; OpStart; OpSuspend; OpClose; OpAbort;
                                  OpGetConfiguration; OpReconfigure; OpDelayReport].
Definition all_bool : list bool := [false; true].

Definition all_pairs : list pair :=
  flat_map (fun a => flat_map (fun b => flat_map (fun c => flat_map (fun d =>
  flat_map (fun e => map (fun f => mkP a b c d e f) all_bool) all_bool) all_sst)
  all_bool) all_bool) all_sst.

(* codes for the correspondence check *)
Definition sst_code (s : sst) : nat :=
  match s with Idle => 0 | Configured => 1 | Open => 2 | Streaming => 3 | Closing => 4 | Aborting => 5 end.
Definition sres_code (r : sres) : nat := match r with Ok => 0 | Refused => 1 | Rejected => 2 end.
Definition pair_obs (p : pair) :=
  (sst_code (src_st p), src_rtp p, snk_has p, sst_code (snk_st p), snk_rtp p, snk_acc p).

(* per-step trace: result and observable state after every operation *)
Fixpoint run_trace (p : pair) (ops : list sop) :=
  match ops with
  | [] => []
  | o :: ops' => let '(p1, r) := step p o in (sres_code r, pair_obs p1) :: run_trace p1 ops'
  end.
