(* Model of CIS set-up and tear-down in bumble/controller.py, central side (the controller under
   test, CUT), with one LE ACL connection (handle 1) to one peer whose controller is bumble's as
   well and whose host accepts CIS requests when it pleases.  Executable Gallina, no proofs.

   Commands to the CUT: LE Set CIG Parameters, LE Remove CIG, LE Create CIS (one CIS/ACL pair),
   Disconnect of a CIS handle, Disconnect of the ACL.  Peer actions: its host accepts the oldest
   CIS request; its host disconnects the ACL.  The link delivers LL control PDUs in FIFO order
   and loses a PDU whose receiver no longer has the ACL (LocalLink.find_le_controller).

   Events at the CUT's host are the outputs:
     CigSet cig hs   Command Complete of Set CIG Parameters with the allocated handles
     CigRemoved st   Command Complete of Remove CIG
     Status op st    Command Status
     CisEst h        LE CIS Established       Disc h   Disconnection Complete *)
From Coq Require Import ZArith List Bool.
Import ListNotations.
Open Scope Z_scope.

Inductive ccmd :=
| SetCig (cig : Z) (ids : list Z)
| RemoveCig (cig : Z)
| CreateCis (ch ah : Z)
| DisconnectH (h : Z).         (* a CIS handle or the ACL handle *)

Inductive creq := CisReq (cig cis : Z) | CisInd (cig cis : Z) | CisTerm (cig cis : Z) | AclTerm.
Inductive crsp := CisRsp (cig cis : Z) | PeerAclTerm.

Inductive cout :=
| CigSet (cig : Z) (hs : list Z) | CigRemoved (st : Z) | CStatus (op st : Z) | CisEst (h : Z) | CDisc (h : Z).

Record cislink := mkL { l_handle : Z; l_cig : Z; l_cis : Z; l_assoc : bool }.

Record cstate := mkC {
  c_acl : bool;                    (* the CUT has the ACL (handle 1) *)
  c_peer_acl : bool;               (* the peer has its end of it *)
  c_links : list cislink;          (* central_cis_links, in insertion order *)
  c_open : list Z;                 (* CIS handles whose creation was accepted and is not concluded *)
  c_to : list creq;
  c_from : list crsp;
  c_peer_req : list (Z * Z * bool) (* the peer's peripheral CIS links, oldest first: (cig, cis, request
                                      not yet answered by its host) *)
}.

Inductive cop := CCmd (c : ccmd) | CToPeer | CToCut | PeerAcceptCis | PeerAclDisconnect.

Definition c_init : cstate := mkC true true [] [] [] [] [].

Definition acl_handle : Z := 1.
Definition op_set_cig : Z := 8290.
Definition op_create_cis : Z := 8292.
Definition op_disconnect : Z := 1030.

Definition used (s : cstate) (h : Z) : bool :=
  (c_acl s && Z.eqb h acl_handle) || existsb (fun l => Z.eqb (l_handle l) h) (c_links s).

(* allocate_connection_handle: first handle from 1 that is in none of the tables *)
Fixpoint first_free (fuel : nat) (h : Z) (taken : Z -> bool) : Z :=
  match fuel with
  | O => h
  | S f => if taken h then first_free f (h + 1) taken else h
  end.

Fixpoint add_links (s : cstate) (cig : Z) (ids : list Z) : cstate * list Z :=
  match ids with
  | [] => (s, [])
  | i :: ids' =>
      let h := first_free (S (S (length (c_links s)))) 1 (used s) in
      let s1 := mkC (c_acl s) (c_peer_acl s) (c_links s ++ [mkL h cig i false]) (c_open s) (c_to s) (c_from s)
                    (c_peer_req s) in
      let '(s2, hs) := add_links s1 cig ids' in
      (s2, h :: hs)
  end.

Definition find_link (h : Z) (s : cstate) : option cislink := find (fun l => Z.eqb (l_handle l) h) (c_links s).
Definition find_ids (cig cis : Z) (s : cstate) : option cislink :=
  find (fun l => Z.eqb (l_cig l) cig && Z.eqb (l_cis l) cis) (c_links s).
Definition set_assoc (h : Z) (b : bool) (ls : list cislink) : list cislink :=
  map (fun l => if Z.eqb (l_handle l) h then mkL (l_handle l) (l_cig l) (l_cis l) b else l) ls.
Definition remz (h : Z) (l : list Z) : list Z := filter (fun x => negb (Z.eqb h x)) l.
Fixpoint remove_first (h : Z) (l : list Z) : list Z :=
  match l with [] => [] | x :: l' => if Z.eqb h x then l' else x :: remove_first h l' end.

Definition with_links (s : cstate) ls := mkC (c_acl s) (c_peer_acl s) ls (c_open s) (c_to s) (c_from s) (c_peer_req s).

Definition cstep_cmd (s : cstate) (c : ccmd) : cstate * list cout :=
  match c with
  | SetCig cig ids =>
      let s0 := with_links s (filter (fun l => negb (Z.eqb (l_cig l) cig)) (c_links s)) in
      let '(s1, hs) := add_links s0 cig ids in
      (s1, [CigSet cig hs])
  | RemoveCig cig =>
      if existsb (fun l => Z.eqb (l_cig l) cig) (c_links s) then
        (with_links s (filter (fun l => negb (Z.eqb (l_cig l) cig)) (c_links s)), [CigRemoved 0])
      else (s, [CigRemoved 18])
  | CreateCis ch ah =>
      if c_acl s && Z.eqb ah acl_handle then
        match find_link ch s with
        | None => (s, [CStatus op_create_cis 18])
        | Some l =>
            (mkC (c_acl s) (c_peer_acl s) (set_assoc ch true (c_links s)) (c_open s ++ [ch])
                 (c_to s ++ [CisReq (l_cig l) (l_cis l)]) (c_from s) (c_peer_req s), [CStatus op_create_cis 0])
        end
      else (s, [CStatus op_create_cis 18])
  | DisconnectH h =>
      if c_acl s && Z.eqb h acl_handle then
        (* the ACL: the CIS creations on it end with it *)
        (mkC false (c_peer_acl s) (c_links s) [] (c_to s ++ [AclTerm]) (c_from s) (c_peer_req s),
         [CStatus op_disconnect 0; CDisc h])
      else
        match find_link h s with
        | Some l =>
            if l_assoc l then
              (mkC (c_acl s) (c_peer_acl s) (set_assoc h false (c_links s)) (remz h (c_open s))
                   (c_to s ++ [CisTerm (l_cig l) (l_cis l)]) (c_from s) (c_peer_req s),
               [CStatus op_disconnect 0; CDisc h])
            else (s, [CStatus op_disconnect 2])
        | None => (s, [CStatus op_disconnect 2])
        end
  end.

Definition ids_eqb (cig cis : Z) (x : Z * Z * bool) : bool := Z.eqb (fst (fst x)) cig && Z.eqb (snd (fst x)) cis.

Fixpoint remove_first_ids (cig cis : Z) (l : list (Z * Z * bool)) : list (Z * Z * bool) :=
  match l with [] => [] | x :: l' => if ids_eqb cig cis x then l' else x :: remove_first_ids cig cis l' end.
(* the oldest unanswered request, marked answered *)
Fixpoint answer_first (l : list (Z * Z * bool)) : option (Z * Z) * list (Z * Z * bool) :=
  match l with
  | [] => (None, [])
  | (cig, cis, true) :: l' => (Some (cig, cis), (cig, cis, false) :: l')
  | x :: l' => let '(r, l'') := answer_first l' in (r, x :: l'')
  end.

Definition cstep (s : cstate) (o : cop) : cstate * list cout :=
  match o with
  | CCmd c => cstep_cmd s c
  | CToPeer =>
      match c_to s with
      | [] => (s, [])
      | r :: rest =>
          let s1 := mkC (c_acl s) (c_peer_acl s) (c_links s) (c_open s) rest (c_from s) (c_peer_req s) in
          (* LocalLink finds the receiver by its end of the ACL *)
          if c_peer_acl s then
            match r with
            | CisReq cig cis =>
                (mkC (c_acl s1) (c_peer_acl s1) (c_links s1) (c_open s1) rest (c_from s1) (c_peer_req s1 ++ [(cig, cis, true)]), [])
            | CisInd _ _ => (s1, [])
            | CisTerm cig cis =>
                (* on_le_cis_disconnected pops the first peripheral link with these ids *)
                (mkC (c_acl s1) (c_peer_acl s1) (c_links s1) (c_open s1) rest (c_from s1)
                     (remove_first_ids cig cis (c_peer_req s1)), [])
            | AclTerm => (mkC (c_acl s1) false (c_links s1) (c_open s1) rest (c_from s1) (c_peer_req s1), [])
            end
          else (s1, [])
      end
  | CToCut =>
      match c_from s with
      | [] => (s, [])
      | r :: rest =>
          let s1 := mkC (c_acl s) (c_peer_acl s) (c_links s) (c_open s) (c_to s) rest (c_peer_req s) in
          if c_acl s then
            match r with
            | CisRsp cig cis =>
                match find_ids cig cis s with
                | Some l =>
                    (mkC (c_acl s1) (c_peer_acl s1) (c_links s1) (remove_first (l_handle l) (c_open s1))
                         (c_to s1 ++ [CisInd cig cis]) rest (c_peer_req s1), [CisEst (l_handle l)])
                | None => (s1, [])      (* StopIteration in the link callback: no event *)
                end
            | PeerAclTerm =>
                (mkC false (c_peer_acl s1) (c_links s1) [] (c_to s1) rest (c_peer_req s1), [CDisc acl_handle])
            end
          else (s1, [])
      end
  | PeerAcceptCis =>
      match answer_first (c_peer_req s) with
      | (None, _) => (s, [])
      | (Some (cig, cis), rest) =>
          (* the response is lost if the CUT no longer has the ACL *)
          (mkC (c_acl s) (c_peer_acl s) (c_links s) (c_open s) (c_to s)
               (if c_acl s then c_from s ++ [CisRsp cig cis] else c_from s) rest, [])
      end
  | PeerAclDisconnect =>
      if c_peer_acl s then
        (mkC (c_acl s) false (c_links s) (c_open s) (c_to s)
             (if c_acl s then c_from s ++ [PeerAclTerm] else c_from s) (c_peer_req s), [])
      else (s, [])
  end.

Fixpoint crun (s : cstate) (os : list cop) : cstate * list cout :=
  match os with
  | [] => (s, [])
  | o :: os' =>
      let '(s1, o1) := cstep s o in
      let '(s2, o2) := crun s1 os' in
      (s2, o1 ++ o2)
  end.

Fixpoint cdrain (fuel : nat) (s : cstate) : cstate * list cout :=
  match fuel with
  | O => (s, [])
  | S f =>
      match c_to s, c_from s with
      | [], [] => (s, [])
      | _ :: _, _ => let '(s1, o1) := cstep s CToPeer in let '(s2, o2) := cdrain f s1 in (s2, o1 ++ o2)
      | [], _ :: _ => let '(s1, o1) := cstep s CToCut in let '(s2, o2) := cdrain f s1 in (s2, o1 ++ o2)
      end
  end.
Definition cdrain_fuel (s : cstate) : nat := (2 * (length (c_to s) + length (c_from s)) + 2)%nat.

(* open-ended by specification: the peer's host has not answered the request yet *)
Definition cis_open_ended (s : cstate) (h : Z) : bool :=
  match find_link h s with
  | Some l => existsb (fun x => ids_eqb (l_cig l) (l_cis l) x && snd x) (c_peer_req s)
  | None => false
  end.

Definition cconcludes (s : cstate) : bool :=
  let s' := fst (cdrain (cdrain_fuel s) s) in
  match c_to s', c_from s' with
  | [], [] => forallb (cis_open_ended s') (c_open s')
  | _, _ => false
  end.

(* hypothesis (witness class of an open question, see docs): the host does not re-configure or
   remove a CIG while one of its CIS is being created (the specification has the controller
   refuse that; bumble's controller forgets the link and the peer's answer finds nothing) *)
Definition cis_step_ok (s : cstate) (o : cop) : bool :=
  match o with
  | CCmd (SetCig cig _) | CCmd (RemoveCig cig) =>
      negb (existsb (fun l => Z.eqb (l_cig l) cig && existsb (Z.eqb (l_handle l)) (c_open s)) (c_links s))
  | _ => true
  end.

Definition cis_alphabet : list cop :=
  [CCmd (SetCig 1 [1; 2]); CCmd (RemoveCig 1); CCmd (CreateCis 2 1); CCmd (CreateCis 3 1); CCmd (CreateCis 2 7);
   CCmd (DisconnectH 2); CCmd (DisconnectH 1); PeerAcceptCis; PeerAclDisconnect; CToPeer; CToCut].

(* second starting point: a CIG with two CIS configured (handles 2 and 3) *)
Definition cis_configured : cstate := fst (crun c_init [CCmd (SetCig 1 [1; 2])]).

Fixpoint cis_all_ok (depth : nat) (s : cstate) : bool :=
  cconcludes s &&
  match depth with
  | O => true
  | S d => forallb (fun o => negb (cis_step_ok s o) || cis_all_ok d (fst (cstep s o))) cis_alphabet
  end.

(* a run all of whose steps satisfy the hypothesis *)
Fixpoint cis_run_ok (s : cstate) (os : list cop) : bool :=
  match os with
  | [] => true
  | o :: os' => cis_step_ok s o && cis_run_ok (fst (cstep s o)) os'
  end.

(* for the harness: groups of steps issued back to back, the link drained after each group *)
Definition cout_code (o : cout) : list Z :=
  match o with
  | CigSet cig hs => 8 :: cig :: hs | CigRemoved st => [9; st] | CStatus op st => [0; op; st]
  | CisEst h => [10; h] | CDisc h => [3; h]
  end.
Fixpoint crun_groups (s : cstate) (gs : list (list cop)) : cstate * list cout :=
  match gs with
  | [] => (s, [])
  | g :: gs' =>
      let '(s1, o1) := crun s g in
      let '(s2, o2) := cdrain (cdrain_fuel s1) s1 in
      let '(s3, o3) := crun_groups s2 gs' in
      (s3, o1 ++ o2 ++ o3)
  end.
Definition cis_groups_obs (gs : list (list cop)) :=
  let '(s, o) := crun_groups c_init gs in
  (map cout_code o, c_open s, forallb (cis_open_ended s) (c_open s)).
