(* Model/CodecsFieldSrc.v — the source texts (normalised by ast.unparse) of the custom field parsers /
   serializers of the PDU registries that the field-codec models of Model/CodecsXfields.v were written
   from.  Recorded by hand from the output of tools/translate/c18_fieldsrc.py when the models were
   written / last reviewed; Gen/C18FieldSrc.v holds the same extraction from the current source on every
   run and Props/C18.v (C18_field_codecs_match_source) checks that they are equal.  When the check
   fails: read the new text, bring Model/CodecsXfields.v (and its proofs) in line, then update this file. *)
From Coq Require Import List String.
Import ListNotations.
Local Open Scope string_scope.

Definition field_codec_sources : list (string * string) := [
  ("bumble.att:ATT_Find_By_Type_Value_Request.attribute_type.parser",
   "def parse_uuid_2(cls, uuid_as_bytes: bytes, offset: int) -> tuple[int, UUID]:
    return (offset + 2, cls.from_bytes(uuid_as_bytes[offset:offset + 2]))");
  ("bumble.att:ATT_Read_By_Group_Type_Request.attribute_group_type.parser",
   "def parse_uuid(cls, uuid_as_bytes: bytes, offset: int) -> tuple[int, UUID]:
    return (len(uuid_as_bytes), cls.from_bytes(uuid_as_bytes[offset:]))");
  ("bumble.att:ATT_Read_By_Type_Request.attribute_type.parser",
   "def parse_uuid(cls, uuid_as_bytes: bytes, offset: int) -> tuple[int, UUID]:
    return (len(uuid_as_bytes), cls.from_bytes(uuid_as_bytes[offset:]))");
  ("bumble.att:ATT_Read_Multiple_Request.set_of_handles.parser",
   "lambda data, offset: (len(data), [struct.unpack_from('<H', data, i)[0] for i in range(offset, len(data), 2)])");
  ("bumble.att:ATT_Read_Multiple_Request.set_of_handles.serializer",
   "lambda handles: b''.join([struct.pack('<H', handle) for handle in handles])");
  ("bumble.att:ATT_Read_Multiple_Variable_Request.set_of_handles.parser",
   "lambda data, offset: (len(data), [struct.unpack_from('<H', data, i)[0] for i in range(offset, len(data), 2)])");
  ("bumble.att:ATT_Read_Multiple_Variable_Request.set_of_handles.serializer",
   "lambda handles: b''.join([struct.pack('<H', handle) for handle in handles])");
  ("bumble.att:ATT_Read_Multiple_Variable_Response._parse_length_value_tuples",
   "def _parse_length_value_tuples(cls, data: bytes, offset: int) -> tuple[int, list[tuple[int, bytes]]]:
    length_value_tuple_list: list[tuple[int, bytes]] = []
    while offset < len(data):
        length = struct.unpack_from('<H', data, offset)[0]
        length_value_tuple_list.append((length, data[offset + 2:offset + 2 + length]))
        offset += 2 + length
    return (len(data), length_value_tuple_list)");
  ("bumble.att:ATT_Read_Multiple_Variable_Response.length_value_tuple_list.parser",
   "lambda data, offset: ATT_Read_Multiple_Variable_Response._parse_length_value_tuples(data, offset)");
  ("bumble.att:ATT_Read_Multiple_Variable_Response.length_value_tuple_list.serializer",
   "lambda length_value_tuple_list: b''.join([struct.pack('<H', length) + value for length, value in length_value_tuple_list])");
  ("bumble.avdtp:Abort_Command.acp_seid.parser",
   "lambda data, offset: (offset + 1, data[offset] >> 2)");
  ("bumble.avdtp:Abort_Command.acp_seid.serializer",
   "lambda seid: bytes([seid << 2])");
  ("bumble.avdtp:Close_Command.acp_seid.parser",
   "lambda data, offset: (offset + 1, data[offset] >> 2)");
  ("bumble.avdtp:Close_Command.acp_seid.serializer",
   "lambda seid: bytes([seid << 2])");
  ("bumble.avdtp:DelayReport_Command.acp_seid.parser",
   "lambda data, offset: (offset + 1, data[offset] >> 2)");
  ("bumble.avdtp:DelayReport_Command.acp_seid.serializer",
   "lambda seid: bytes([seid << 2])");
  ("bumble.avdtp:DelayReport_Command.delay.parser",
   "lambda data, offset: (offset + 2, data[offset] << 8 | data[offset + 1])");
  ("bumble.avdtp:DelayReport_Command.delay.serializer",
   "lambda delay: bytes([delay >> 8, delay & 255])");
  ("bumble.avdtp:Discover_Response.endpoints.parser",
   "lambda data, offset: Discover_Response.parse_endpoints(data, offset)");
  ("bumble.avdtp:Discover_Response.endpoints.serializer",
   "lambda endpoints: Discover_Response.serialize_endpoints(endpoints)");
  ("bumble.avdtp:Discover_Response.parse_endpoints",
   "def parse_endpoints(cls, data: bytes, offset: int) -> tuple[int, list[EndPointInfo]]:
    return (len(data), [EndPointInfo.from_bytes(data[i * 2:(i + 1) * 2]) for i in range(offset, len(data) // 2)])");
  ("bumble.avdtp:Discover_Response.serialize_endpoints",
   "def serialize_endpoints(cls, endpoints: Iterable[EndPointInfo]) -> bytes:
    return b''.join([bytes(endpoint) for endpoint in endpoints])");
  ("bumble.avdtp:EndPointInfo.from_bytes",
   "def from_bytes(cls, payload: bytes) -> EndPointInfo:
    return cls(seid=payload[0] >> 2, in_use=payload[0] >> 1 & 1, media_type=MediaType(payload[1] >> 4), tsep=StreamEndPointType(payload[1] >> 3 & 1))");
  ("bumble.avdtp:Get_All_Capabilities_Command.acp_seid.parser",
   "lambda data, offset: (offset + 1, data[offset] >> 2)");
  ("bumble.avdtp:Get_All_Capabilities_Command.acp_seid.serializer",
   "lambda seid: bytes([seid << 2])");
  ("bumble.avdtp:Get_All_Capabilities_Response.capabilities.parser",
   "lambda data, offset: (len(data), ServiceCapabilities.parse_capabilities(data[offset:]))");
  ("bumble.avdtp:Get_All_Capabilities_Response.capabilities.serializer",
   "lambda capabilities: ServiceCapabilities.serialize_capabilities(capabilities)");
  ("bumble.avdtp:Get_Capabilities_Command.acp_seid.parser",
   "lambda data, offset: (offset + 1, data[offset] >> 2)");
  ("bumble.avdtp:Get_Capabilities_Command.acp_seid.serializer",
   "lambda seid: bytes([seid << 2])");
  ("bumble.avdtp:Get_Capabilities_Response.capabilities.parser",
   "lambda data, offset: (len(data), ServiceCapabilities.parse_capabilities(data[offset:]))");
  ("bumble.avdtp:Get_Capabilities_Response.capabilities.serializer",
   "lambda capabilities: ServiceCapabilities.serialize_capabilities(capabilities)");
  ("bumble.avdtp:Get_Configuration_Command.acp_seid.parser",
   "lambda data, offset: (offset + 1, data[offset] >> 2)");
  ("bumble.avdtp:Get_Configuration_Command.acp_seid.serializer",
   "lambda seid: bytes([seid << 2])");
  ("bumble.avdtp:Get_Configuration_Response.capabilities.parser",
   "lambda data, offset: (len(data), ServiceCapabilities.parse_capabilities(data[offset:]))");
  ("bumble.avdtp:Get_Configuration_Response.capabilities.serializer",
   "lambda capabilities: ServiceCapabilities.serialize_capabilities(capabilities)");
  ("bumble.avdtp:Open_Command.acp_seid.parser",
   "lambda data, offset: (offset + 1, data[offset] >> 2)");
  ("bumble.avdtp:Open_Command.acp_seid.serializer",
   "lambda seid: bytes([seid << 2])");
  ("bumble.avdtp:Reconfigure_Command.acp_seid.parser",
   "lambda data, offset: (offset + 1, data[offset] >> 2)");
  ("bumble.avdtp:Reconfigure_Command.acp_seid.serializer",
   "lambda seid: bytes([seid << 2])");
  ("bumble.avdtp:Reconfigure_Command.capabilities.parser",
   "lambda data, offset: (len(data), ServiceCapabilities.parse_capabilities(data[offset:]))");
  ("bumble.avdtp:Reconfigure_Command.capabilities.serializer",
   "lambda capabilities: ServiceCapabilities.serialize_capabilities(capabilities)");
  ("bumble.avdtp:Security_Control_Command.acp_seid.parser",
   "lambda data, offset: (offset + 1, data[offset] >> 2)");
  ("bumble.avdtp:Security_Control_Command.acp_seid.serializer",
   "lambda seid: bytes([seid << 2])");
  ("bumble.avdtp:ServiceCapabilities.create",
   "def create(cls, service_category: int, service_capabilities_bytes: bytes) -> ServiceCapabilities:
    if service_category == AVDTP_MEDIA_CODEC_SERVICE_CATEGORY:
        return MediaCodecCapabilities.from_bytes(service_capabilities_bytes)
    return ServiceCapabilities(service_category=service_category, service_capabilities_bytes=service_capabilities_bytes)");
  ("bumble.avdtp:ServiceCapabilities.parse_capabilities",
   "def parse_capabilities(cls, payload: bytes) -> list[ServiceCapabilities]:
    capabilities = []
    offset = 0
    while offset < len(payload):
        service_category = payload[offset]
        length_of_service_capabilities = payload[offset + 1]
        service_capabilities_bytes = payload[offset + 2:offset + 2 + length_of_service_capabilities]
        capabilities.append(ServiceCapabilities.create(service_category, service_capabilities_bytes))
        offset += 2 + length_of_service_capabilities
    return capabilities");
  ("bumble.avdtp:ServiceCapabilities.serialize_capabilities",
   "def serialize_capabilities(cls, capabilities: Iterable[ServiceCapabilities]) -> bytes:
    return b''.join((bytes([item.service_category, len(item.service_capabilities_bytes)]) + item.service_capabilities_bytes for item in capabilities))");
  ("bumble.avdtp:Set_Configuration_Command.acp_seid.parser",
   "lambda data, offset: (offset + 1, data[offset] >> 2)");
  ("bumble.avdtp:Set_Configuration_Command.acp_seid.serializer",
   "lambda seid: bytes([seid << 2])");
  ("bumble.avdtp:Set_Configuration_Command.capabilities.parser",
   "lambda data, offset: (len(data), ServiceCapabilities.parse_capabilities(data[offset:]))");
  ("bumble.avdtp:Set_Configuration_Command.capabilities.serializer",
   "lambda capabilities: ServiceCapabilities.serialize_capabilities(capabilities)");
  ("bumble.avdtp:Set_Configuration_Command.int_seid.parser",
   "lambda data, offset: (offset + 1, data[offset] >> 2)");
  ("bumble.avdtp:Set_Configuration_Command.int_seid.serializer",
   "lambda seid: bytes([seid << 2])");
  ("bumble.avdtp:Start_Command.acp_seids.parser",
   "lambda data, offset: (len(data), [x >> 2 for x in data[offset:]])");
  ("bumble.avdtp:Start_Command.acp_seids.serializer",
   "lambda seids: bytes([seid << 2 for seid in seids])");
  ("bumble.avdtp:Start_Reject.acp_seid.parser",
   "lambda data, offset: (offset + 1, data[offset] >> 2)");
  ("bumble.avdtp:Start_Reject.acp_seid.serializer",
   "lambda seid: bytes([seid << 2])");
  ("bumble.avdtp:Suspend_Command.acp_seids.parser",
   "lambda data, offset: (len(data), [x >> 2 for x in data[offset:]])");
  ("bumble.avdtp:Suspend_Command.acp_seids.serializer",
   "lambda seids: bytes([seid << 2 for seid in seids])");
  ("bumble.avdtp:Suspend_Reject.acp_seid.parser",
   "lambda data, offset: (offset + 1, data[offset] >> 2)");
  ("bumble.avdtp:Suspend_Reject.acp_seid.serializer",
   "lambda seid: bytes([seid << 2])");
  ("bumble.avrcp:AddToNowPlayingCommand.uid.parser",
   "lambda data, offset: (offset + 8, int.from_bytes(data[offset:offset + 8], byteorder='big'))");
  ("bumble.avrcp:AddToNowPlayingCommand.uid.serializer",
   "lambda x: x.to_bytes(8, byteorder='big')");
  ("bumble.avrcp:AddressedPlayerChangedEvent.player.parser",
   "def parse_from_bytes(cls, data: bytes, offset: int) -> tuple[int, Self]:
    fields = HCI_Object.fields_from_dataclass(cls)
    offset, kwargs = HCI_Object.dict_and_offset_from_bytes(data, offset, fields)
    return (offset, cls(**kwargs))");
  ("bumble.avrcp:ChangePathCommand.folder_uid.parser",
   "lambda data, offset: (offset + 8, int.from_bytes(data[offset:offset + 8], byteorder='big'))");
  ("bumble.avrcp:ChangePathCommand.folder_uid.serializer",
   "lambda x: x.to_bytes(8, byteorder='big')");
  ("bumble.avrcp:Event.from_bytes",
   "def from_bytes(cls, pdu: bytes) -> Event:
    if not (subclass := cls.subclasses.get(pdu[0])):
        raise core.InvalidPacketError(f'Unimplemented Event {pdu[0]}')
    instance = subclass(**hci.HCI_Object.dict_from_bytes(pdu, 1, subclass.fields))
    instance._pdu = pdu
    return instance");
  ("bumble.avrcp:GetElementAttributesCommand.identifier.parser",
   "lambda data, offset: (offset + 8, int.from_bytes(data[offset:offset + 8], byteorder='big'))");
  ("bumble.avrcp:GetElementAttributesCommand.identifier.serializer",
   "lambda x: x.to_bytes(8, byteorder='big')");
  ("bumble.avrcp:GetElementAttributesResponse.attributes.parser",
   "def parse_from_bytes(cls, data: bytes, offset: int) -> tuple[int, Self]:
    fields = HCI_Object.fields_from_dataclass(cls)
    offset, kwargs = HCI_Object.dict_and_offset_from_bytes(data, offset, fields)
    return (offset, cls(**kwargs))");
  ("bumble.avrcp:GetItemAttributesCommand.uid.parser",
   "lambda data, offset: (offset + 8, int.from_bytes(data[offset:offset + 8], byteorder='big'))");
  ("bumble.avrcp:GetItemAttributesCommand.uid.serializer",
   "lambda x: x.to_bytes(8, byteorder='big')");
  ("bumble.avrcp:GetItemAttributesResponse.attribute_value_entry_list.parser",
   "def parse_from_bytes(cls, data: bytes, offset: int) -> tuple[int, Self]:
    fields = HCI_Object.fields_from_dataclass(cls)
    offset, kwargs = HCI_Object.dict_and_offset_from_bytes(data, offset, fields)
    return (offset, cls(**kwargs))");
  ("bumble.avrcp:GetPlayerApplicationSettingAttributeTextResponse.attribute_string.parser",
   "partial(def _parse_string(data: bytes, offset: int, length_size: int) -> tuple[int, str]:
    length = int.from_bytes(data[offset:offset + length_size], byteorder='big', signed=False)
    offset += length_size
    encoded = data[offset:offset + length]
    try:
        decoded = encoded.decode('utf-8')
    except UnicodeDecodeError:
        decoded = encoded.decode('latin1')
    return (offset + length, decoded); length_size=1)");
  ("bumble.avrcp:GetPlayerApplicationSettingAttributeTextResponse.attribute_string.serializer",
   "partial(def _serialize_string(value: str, length_size: int) -> bytes:
    encoded = value.encode('utf-8')
    return len(encoded).to_bytes(length_size, byteorder='big', signed=False) + encoded; length_size=1)");
  ("bumble.avrcp:GetPlayerApplicationSettingValueTextResponse.attribute_string.parser",
   "partial(def _parse_string(data: bytes, offset: int, length_size: int) -> tuple[int, str]:
    length = int.from_bytes(data[offset:offset + length_size], byteorder='big', signed=False)
    offset += length_size
    encoded = data[offset:offset + length]
    try:
        decoded = encoded.decode('utf-8')
    except UnicodeDecodeError:
        decoded = encoded.decode('latin1')
    return (offset + length, decoded); length_size=1)");
  ("bumble.avrcp:GetPlayerApplicationSettingValueTextResponse.attribute_string.serializer",
   "partial(def _serialize_string(value: str, length_size: int) -> bytes:
    encoded = value.encode('utf-8')
    return len(encoded).to_bytes(length_size, byteorder='big', signed=False) + encoded; length_size=1)");
  ("bumble.avrcp:PlayItemCommand.uid.parser",
   "lambda data, offset: (offset + 8, int.from_bytes(data[offset:offset + 8], byteorder='big'))");
  ("bumble.avrcp:PlayItemCommand.uid.serializer",
   "lambda x: x.to_bytes(8, byteorder='big')");
  ("bumble.avrcp:PlayerApplicationSettingChangedEvent.player_application_settings.parser",
   "def parse_from_bytes(cls, data: bytes, offset: int) -> tuple[int, Self]:
    fields = HCI_Object.fields_from_dataclass(cls)
    offset, kwargs = HCI_Object.dict_and_offset_from_bytes(data, offset, fields)
    return (offset, cls(**kwargs))");
  ("bumble.avrcp:RegisterNotificationResponse.event.parser",
   "lambda data, offset: (len(data), Event.from_bytes(data[offset:]))");
  ("bumble.avrcp:SearchCommand.search_string.parser",
   "partial(def _parse_string(data: bytes, offset: int, length_size: int) -> tuple[int, str]:
    length = int.from_bytes(data[offset:offset + length_size], byteorder='big', signed=False)
    offset += length_size
    encoded = data[offset:offset + length]
    try:
        decoded = encoded.decode('utf-8')
    except UnicodeDecodeError:
        decoded = encoded.decode('latin1')
    return (offset + length, decoded); length_size=2)");
  ("bumble.avrcp:SearchCommand.search_string.serializer",
   "partial(def _serialize_string(value: str, length_size: int) -> bytes:
    encoded = value.encode('utf-8')
    return len(encoded).to_bytes(length_size, byteorder='big', signed=False) + encoded; length_size=2)");
  ("bumble.avrcp:SetBrowsedPlayerResponse.folder_names.parser",
   "partial(def _parse_string(data: bytes, offset: int, length_size: int) -> tuple[int, str]:
    length = int.from_bytes(data[offset:offset + length_size], byteorder='big', signed=False)
    offset += length_size
    encoded = data[offset:offset + length]
    try:
        decoded = encoded.decode('utf-8')
    except UnicodeDecodeError:
        decoded = encoded.decode('latin1')
    return (offset + length, decoded); length_size=2)");
  ("bumble.avrcp:SetBrowsedPlayerResponse.folder_names.serializer",
   "partial(def _serialize_string(value: str, length_size: int) -> bytes:
    encoded = value.encode('utf-8')
    return len(encoded).to_bytes(length_size, byteorder='big', signed=False) + encoded; length_size=2)");
  ("bumble.avrcp:TrackChangedEvent.uid.parser",
   "lambda data, offset: (offset + 8, int.from_bytes(data[offset:offset + 8], byteorder='big'))");
  ("bumble.avrcp:TrackChangedEvent.uid.serializer",
   "lambda x: x.to_bytes(8, byteorder='big')");
  ("bumble.hci:HCI_Object.dict_and_offset_from_bytes",
   "def dict_and_offset_from_bytes(cls, data: bytes, offset: int, object_fields: Fields) -> tuple[int, collections.OrderedDict[str, Any]]:
    result = collections.OrderedDict[str, Any]()
    for object_field in object_fields:
        if isinstance(object_field, list):
            item_count = data[offset]
            offset += 1
            for sub_field_name, _ in object_field:
                result[sub_field_name] = []
            for _ in range(item_count):
                for sub_field_name, sub_field_type in object_field:
                    value, size = HCI_Object.parse_field(data, offset, sub_field_type)
                    result[sub_field_name].append(value)
                    offset += size
            continue
        field_name, field_type = object_field
        assert isinstance(field_name, str)
        field_value, field_size = HCI_Object.parse_field(data, offset, cast(FieldSpec, field_type))
        result[field_name] = field_value
        offset += field_size
    return (offset, result)");
  ("bumble.hci:HCI_Object.fields_from_dataclass",
   "def fields_from_dataclass(cls, obj: Any) -> list[Any]:
    stack: list[list[Any]] = [[]]
    for object_field in dataclasses.fields(obj):
        if not isinstance((metadata := object_field.metadata.get('bumble.hci')), FieldMetadata):
            continue
        if metadata.list_begin:
            stack.append([])
        if metadata.spec:
            stack[-1].append((object_field.name, metadata.spec))
        if metadata.list_end:
            top = stack.pop()
            stack[-1].append(top)
    return stack[0]");
  ("bumble.hci:HCI_Object.parse_field",
   "def parse_field(data: bytes, offset: int, field_type: FieldSpec):
    if isinstance(field_type, dict):
        if 'size' in field_type:
            field_type = field_type['size']
        elif 'parser' in field_type:
            field_type = field_type['parser']
    match field_type:
        case '*':
            field_value = data[offset:]
            return (field_value, len(field_value))
        case 'v':
            field_length = data[offset]
            offset += 1
            field_value = data[offset:offset + field_length]
            return (field_value, field_length + 1)
        case 1:
            return (data[offset], 1)
        case -1:
            return (struct.unpack_from('b', data, offset)[0], 1)
        case 2:
            return (struct.unpack_from('<H', data, offset)[0], 2)
        case '>2':
            return (struct.unpack_from('>H', data, offset)[0], 2)
        case -2:
            return (struct.unpack_from('<h', data, offset)[0], 2)
        case 3:
            padded = data[offset:offset + 3] + bytes([0])
            return (struct.unpack('<I', padded)[0], 3)
        case 4:
            return (struct.unpack_from('<I', data, offset)[0], 4)
        case '>4':
            return (struct.unpack_from('>I', data, offset)[0], 4)
        case int() if 4 < field_type <= 256:
            return (data[offset:offset + field_type], field_type)
    if callable(field_type):
        new_offset, field_value = field_type(data, offset)
        return (field_value, new_offset - offset)
    raise InvalidArgumentError(f'unknown field type {field_type}')");
  ("bumble.l2cap:L2CAP_Connection_Request.parse_psm",
   "def parse_psm(data: bytes, offset: int=0) -> tuple[int, int]:
    psm_length = 2
    psm = data[offset] | data[offset + 1] << 8
    while data[offset + psm_length - 1] % 2 == 1:
        psm |= data[offset + psm_length] << 8 * psm_length
        psm_length += 1
    return (offset + psm_length, psm)");
  ("bumble.l2cap:L2CAP_Connection_Request.psm.parser",
   "lambda data, offset: L2CAP_Connection_Request.parse_psm(data, offset)");
  ("bumble.l2cap:L2CAP_Connection_Request.psm.serializer",
   "lambda value: L2CAP_Connection_Request.serialize_psm(value)");
  ("bumble.l2cap:L2CAP_Connection_Request.serialize_psm",
   "def serialize_psm(psm: int) -> bytes:
    serialized = struct.pack('<H', psm & 65535)
    psm >>= 16
    while psm:
        serialized += bytes([psm & 255])
        psm >>= 8
    return serialized");
  ("bumble.l2cap:L2CAP_Credit_Based_Connection_Request.parse_cid_list",
   "def parse_cid_list(cls, data: bytes, offset: int) -> tuple[int, list[int]]:
    count = (len(data) - offset) // 2
    return (len(data), list(struct.unpack_from('<' + 'H' * count, data, offset)))");
  ("bumble.l2cap:L2CAP_Credit_Based_Connection_Request.serialize_cid_list",
   "def serialize_cid_list(cls, cids: Sequence[int]) -> bytes:
    return b''.join([struct.pack('<H', cid) for cid in cids])");
  ("bumble.l2cap:L2CAP_Credit_Based_Connection_Request.source_cid.parser",
   "lambda data, offset: L2CAP_Credit_Based_Connection_Request.parse_cid_list(data, offset)");
  ("bumble.l2cap:L2CAP_Credit_Based_Connection_Request.source_cid.serializer",
   "lambda value: L2CAP_Credit_Based_Connection_Request.serialize_cid_list(value)");
  ("bumble.l2cap:L2CAP_Credit_Based_Connection_Response.destination_cid.parser",
   "lambda data, offset: L2CAP_Credit_Based_Connection_Request.parse_cid_list(data, offset)");
  ("bumble.l2cap:L2CAP_Credit_Based_Connection_Response.destination_cid.serializer",
   "lambda value: L2CAP_Credit_Based_Connection_Request.serialize_cid_list(value)");
  ("bumble.l2cap:L2CAP_Credit_Based_Reconfigure_Request.destination_cid.parser",
   "lambda data, offset: L2CAP_Credit_Based_Connection_Request.parse_cid_list(data, offset)");
  ("bumble.l2cap:L2CAP_Credit_Based_Reconfigure_Request.destination_cid.serializer",
   "lambda value: L2CAP_Credit_Based_Connection_Request.serialize_cid_list(value)");
  ("bumble.sdp:DataElement.__bytes__",
   "def __bytes__(self) -> bytes:
    if self._bytes:
        return self._bytes
    match self.type:
        case DataElement.NIL:
            data = b''
        case DataElement.UNSIGNED_INTEGER:
            if self.value < 0:
                raise InvalidArgumentError('UNSIGNED_INTEGER cannot be negative')
            match self.value_size:
                case 1:
                    data = struct.pack('B', self.value)
                case 2:
                    data = struct.pack('>H', self.value)
                case 4:
                    data = struct.pack('>I', self.value)
                case 8:
                    data = struct.pack('>Q', self.value)
                case invalid_length:
                    raise InvalidArgumentError(f'invalid value_size of {invalid_length}')
        case DataElement.SIGNED_INTEGER:
            match self.value_size:
                case 1:
                    data = struct.pack('b', self.value)
                case 2:
                    data = struct.pack('>h', self.value)
                case 4:
                    data = struct.pack('>i', self.value)
                case 8:
                    data = struct.pack('>q', self.value)
                case invalid_length:
                    raise InvalidArgumentError(f'invalid value_size of {invalid_length}')
        case DataElement.UUID:
            data = bytes(self.value)[::-1]
        case DataElement.URL:
            data = self.value.encode('utf8')
        case DataElement.BOOLEAN:
            data = bytes([1 if self.value else 0])
        case DataElement.SEQUENCE | DataElement.ALTERNATIVE:
            data = b''.join([bytes(element) for element in self.value])
        case _:
            data = self.value
    size = len(data)
    size_bytes = b''
    match self.type:
        case DataElement.NIL:
            if size != 0:
                raise InvalidArgumentError('NIL must be empty')
            size_index = 0
        case DataElement.UNSIGNED_INTEGER | DataElement.SIGNED_INTEGER | DataElement.UUID:
            if size <= 1:
                size_index = 0
            elif size == 2:
                size_index = 1
            elif size == 4:
                size_index = 2
            elif size == 8:
                size_index = 3
            elif size == 16:
                size_index = 4
            else:
                raise InvalidArgumentError('invalid data size')
        case DataElement.TEXT_STRING | DataElement.SEQUENCE | DataElement.ALTERNATIVE | DataElement.URL:
            if size <= 255:
                size_index = 5
                size_bytes = bytes([size])
            elif size <= 65535:
                size_index = 6
                size_bytes = struct.pack('>H', size)
            elif size <= 4294967295:
                size_index = 7
                size_bytes = struct.pack('>I', size)
            else:
                raise InvalidArgumentError('invalid data size')
        case DataElement.BOOLEAN:
            if size != 1:
                raise InvalidArgumentError('boolean must be 1 byte')
            size_index = 0
        case unsupported_type:
            raise core.InvalidPacketError(f'internal error - {unsupported_type} not supported')
    self._bytes = bytes([self.type << 3 | size_index]) + size_bytes + data
    return self._bytes");
  ("bumble.sdp:DataElementParser.__init__",
   "def __init__(self, data: bytes, offset: int=0, max_depth: int=_MAX_DATA_ELEMENT_NESTING) -> None:
    self.data = data
    self.offset = offset
    self.depth = 0
    self.max_depth = max_depth");
  ("bumble.sdp:DataElementParser._list_from_bytes",
   "def _list_from_bytes(self, end_offset: int) -> list[DataElement]:
    if self.depth >= self.max_depth:
        raise InvalidPacketError(f'SDP data element nesting exceeds max depth ({self.max_depth})')
    self.depth += 1
    elements = []
    while self.offset < end_offset:
        elements.append(self.parse_next())
        if self.offset > end_offset:
            raise InvalidPacketError(f'SDP data element ends at offset {self.offset}, beyond the end of its container ({end_offset})')
    self.depth -= 1
    return elements");
  ("bumble.sdp:DataElementParser.parse_next",
   "def parse_next(self) -> DataElement:
    if self.offset >= len(self.data):
        raise core.InvalidStateError(f'offset {self.offset} exceeds len(data) {len(self.data)}')
    start_offset = self.offset
    element_type = DataElement.Type(self.data[self.offset] >> 3)
    size_index = self.data[self.offset] & 7
    self.offset += 1
    value_size: int
    match size_index:
        case 0:
            if element_type == DataElement.NIL:
                value_size = 0
            else:
                value_size = 1
        case 1:
            value_size = 2
        case 2:
            value_size = 4
        case 3:
            value_size = 8
        case 4:
            value_size = 16
        case 5:
            value_size = self.data[self.offset]
            self.offset += 1
        case 6:
            value_size = struct.unpack_from('>H', self.data, self.offset)[0]
            self.offset += 2
        case 7:
            value_size = struct.unpack_from('>I', self.data, self.offset)[0]
            self.offset += 4
        case _:
            raise core.UnreachableError()
    value_start = self.offset
    value_end = self.offset + value_size
    match element_type:
        case DataElement.NIL:
            result = DataElement(DataElement.NIL, None)
        case DataElement.UNSIGNED_INTEGER:
            result = DataElement(DataElement.UNSIGNED_INTEGER, DataElement.unsigned_integer_from_bytes(self.data, value_start, value_size), value_size=value_size)
        case DataElement.SIGNED_INTEGER:
            result = DataElement(DataElement.SIGNED_INTEGER, DataElement.signed_integer_from_bytes(self.data, value_start, value_size), value_size=value_size)
        case DataElement.UUID:
            result = DataElement(DataElement.UUID, core.UUID.from_bytes(self.data[value_start:value_end][::-1]))
        case DataElement.TEXT_STRING:
            result = DataElement(DataElement.TEXT_STRING, self.data[value_start:value_end])
        case DataElement.BOOLEAN:
            result = DataElement(DataElement.BOOLEAN, self.data[value_start] == 1)
        case DataElement.SEQUENCE | DataElement.ALTERNATIVE:
            self.offset = value_start
            result = DataElement(element_type, self._list_from_bytes(value_end))
            if self.offset != value_end:
                logger.warning('Expect parsing until offset %d, but ends at %d', value_end, self.offset)
        case DataElement.URL:
            result = DataElement(DataElement.URL, self.data[value_start:value_end].decode('utf8'))
        case other_type:
            result = DataElement(other_type, self.data[value_start:value_end])
    self.offset = value_end
    result._bytes = self.data[start_offset:value_end]
    return result");
  ("bumble.sdp:SDP_ServiceAttributeRequest.attribute_id_list.parser",
   "def parse_from_bytes(cls, data: bytes, offset: int) -> tuple[int, DataElement]:
    parser = DataElementParser(data, offset)
    element = parser.parse_next()
    return (parser.offset, element)");
  ("bumble.sdp:SDP_ServiceAttributeResponse.attribute_list.parser",
   "def _parse_bytes_preceded_by_length(data: bytes, offset: int) -> tuple[int, bytes]:
    length = struct.unpack_from('>H', data, offset)[0]
    offset += 2
    return (offset + length, data[offset:offset + length])");
  ("bumble.sdp:SDP_ServiceAttributeResponse.attribute_list.serializer",
   "def _serialize_bytes_preceded_by_length(data: bytes) -> bytes:
    return struct.pack('>H', len(data)) + data");
  ("bumble.sdp:SDP_ServiceSearchAttributeRequest.attribute_id_list.parser",
   "def parse_from_bytes(cls, data: bytes, offset: int) -> tuple[int, DataElement]:
    parser = DataElementParser(data, offset)
    element = parser.parse_next()
    return (parser.offset, element)");
  ("bumble.sdp:SDP_ServiceSearchAttributeRequest.service_search_pattern.parser",
   "def parse_from_bytes(cls, data: bytes, offset: int) -> tuple[int, DataElement]:
    parser = DataElementParser(data, offset)
    element = parser.parse_next()
    return (parser.offset, element)");
  ("bumble.sdp:SDP_ServiceSearchAttributeResponse.attribute_lists.parser",
   "def _parse_bytes_preceded_by_length(data: bytes, offset: int) -> tuple[int, bytes]:
    length = struct.unpack_from('>H', data, offset)[0]
    offset += 2
    return (offset + length, data[offset:offset + length])");
  ("bumble.sdp:SDP_ServiceSearchAttributeResponse.attribute_lists.serializer",
   "def _serialize_bytes_preceded_by_length(data: bytes) -> bytes:
    return struct.pack('>H', len(data)) + data");
  ("bumble.sdp:SDP_ServiceSearchRequest.service_search_pattern.parser",
   "def parse_from_bytes(cls, data: bytes, offset: int) -> tuple[int, DataElement]:
    parser = DataElementParser(data, offset)
    element = parser.parse_next()
    return (parser.offset, element)");
  ("bumble.sdp:SDP_ServiceSearchResponse.service_record_handle_list.parser",
   "def _parse_service_record_handle_list(data: bytes, offset: int) -> tuple[int, list[int]]:
    count = struct.unpack_from('>H', data, offset)[0]
    offset += 2
    handle_list = [struct.unpack_from('>I', data, offset + x * 4)[0] for x in range(count)]
    return (offset + count * 4, handle_list)");
  ("bumble.sdp:SDP_ServiceSearchResponse.service_record_handle_list.serializer",
   "def _serialize_service_record_handle_list(handles: list[int]) -> bytes:
    return struct.pack('>H', len(handles)) + b''.join((struct.pack('>I', handle) for handle in handles))");
  ("bumble.smp:SMP_Identity_Address_Information_Command.bd_addr.parser",
   "def parse_address_preceded_by_type(cls: type[Self], data: bytes, offset: int) -> tuple[int, Self]:
    address_type = AddressType(data[offset - 1])
    return cls.parse_address_with_type(data, offset, address_type)")
].

(* Parser entry points of the C18 scope (from_bytes / parse_* / create class and static methods, the
   two reassemblers, AdvertisingData.append and UUID.register): the decorators written above each
   definition and the mutable class- or module-level containers its body reads, as extracted by
   tools/translate/c18_fieldsrc.py entry_facts().  Only classmethod / staticmethod appear: a parse
   result is a function of the bytes (and of the class dispatch tables and the UUID registry, which
   are the only state read and are modelled: Gen/C18Registry.v, Model/CodecsUuid.v).  A cache
   (functools.lru_cache / cache / cached_property) or any other decorator is rendered with a
   CACHING: / UNRECOGNISED: prefix by the translator and so can never equal this table. *)
Definition parser_entry_facts : list (string * string) := [
  ("bumble.a2dp:AacMediaCodecInformation.from_bytes", "decorators=[classmethod]; state=[]");
  ("bumble.a2dp:MediaCodecInformation.create", "decorators=[classmethod]; state=[A2DP_VENDOR_MEDIA_CODEC_INFORMATION_CLASSES]");
  ("bumble.a2dp:SbcMediaCodecInformation.from_bytes", "decorators=[classmethod]; state=[]");
  ("bumble.a2dp:VendorSpecificMediaCodecInformation.from_bytes", "decorators=[staticmethod]; state=[]");
  ("bumble.att:ATT_PDU.from_bytes", "decorators=[classmethod]; state=[ATT_PDU.pdu_classes]");
  ("bumble.att:ATT_Read_Multiple_Variable_Response._parse_length_value_tuples", "decorators=[classmethod]; state=[]");
  ("bumble.avc:Frame.from_bytes", "decorators=[staticmethod]; state=[CommandFrame.subclasses, ResponseFrame.subclasses]");
  ("bumble.avc:PassThroughFrame.parse_operands", "decorators=[staticmethod]; state=[]");
  ("bumble.avctp:MessageAssembler.on_pdu", "decorators=[]; state=[]");
  ("bumble.avdtp:Discover_Response.parse_endpoints", "decorators=[classmethod]; state=[]");
  ("bumble.avdtp:EndPointInfo.from_bytes", "decorators=[classmethod]; state=[]");
  ("bumble.avdtp:MediaCodecCapabilities.from_bytes", "decorators=[classmethod]; state=[]");
  ("bumble.avdtp:Message.create", "decorators=[classmethod]; state=[Message.subclasses]");
  ("bumble.avdtp:MessageAssembler.on_pdu", "decorators=[]; state=[]");
  ("bumble.avdtp:ServiceCapabilities.create", "decorators=[classmethod]; state=[]");
  ("bumble.avdtp:ServiceCapabilities.parse_capabilities", "decorators=[classmethod]; state=[]");
  ("bumble.avrcp:BrowseableItem.parse_from_bytes", "decorators=[classmethod]; state=[BrowseableItem.subclasses]");
  ("bumble.avrcp:Command.from_bytes", "decorators=[classmethod]; state=[Command.subclasses]");
  ("bumble.avrcp:Event.from_bytes", "decorators=[classmethod]; state=[Event.subclasses]");
  ("bumble.avrcp:Response.from_bytes", "decorators=[classmethod]; state=[Response.subclasses]");
  ("bumble.avrcp:Response.from_parameters", "decorators=[classmethod]; state=[]");
  ("bumble.avrcp:_parse_string", "decorators=[]; state=[]");
  ("bumble.core:AdvertisingData.append", "decorators=[]; state=[]");
  ("bumble.core:AdvertisingData.from_bytes", "decorators=[classmethod]; state=[]");
  ("bumble.core:UUID.from_bytes", "decorators=[classmethod]; state=[]");
  ("bumble.core:UUID.parse_uuid", "decorators=[classmethod]; state=[]");
  ("bumble.core:UUID.parse_uuid_2", "decorators=[classmethod]; state=[]");
  ("bumble.core:UUID.register", "decorators=[]; state=[UUID.UUIDS]");
  ("bumble.hci:Address.parse_address", "decorators=[classmethod]; state=[]");
  ("bumble.hci:Address.parse_address_preceded_by_type", "decorators=[classmethod]; state=[]");
  ("bumble.hci:Address.parse_address_with_type", "decorators=[classmethod]; state=[]");
  ("bumble.hci:Address.parse_random_address", "decorators=[classmethod]; state=[]");
  ("bumble.hci:HCI_Object.dict_and_offset_from_bytes", "decorators=[classmethod]; state=[]");
  ("bumble.hci:HCI_Object.dict_from_bytes", "decorators=[staticmethod]; state=[]");
  ("bumble.hci:HCI_Object.parse_field", "decorators=[staticmethod]; state=[]");
  ("bumble.l2cap:EnhancedControlField.from_bytes", "decorators=[classmethod]; state=[]");
  ("bumble.l2cap:InformationEnhancedControlField.from_bytes", "decorators=[classmethod]; state=[]");
  ("bumble.l2cap:L2CAP_Connection_Request.parse_psm", "decorators=[staticmethod]; state=[]");
  ("bumble.l2cap:L2CAP_Control_Frame.decode_configuration_options", "decorators=[staticmethod]; state=[]");
  ("bumble.l2cap:L2CAP_Control_Frame.from_bytes", "decorators=[classmethod]; state=[L2CAP_Control_Frame.classes]");
  ("bumble.l2cap:L2CAP_Credit_Based_Connection_Request.parse_cid_list", "decorators=[classmethod]; state=[]");
  ("bumble.l2cap:L2CAP_PDU.from_bytes", "decorators=[classmethod]; state=[]");
  ("bumble.l2cap:SupervisoryEnhancedControlField.from_bytes", "decorators=[classmethod]; state=[]");
  ("bumble.rfcomm:RFCOMM_Frame.from_bytes", "decorators=[staticmethod]; state=[]");
  ("bumble.rfcomm:RFCOMM_Frame.parse_mcc", "decorators=[staticmethod]; state=[]");
  ("bumble.rfcomm:RFCOMM_MCC_MSC.from_bytes", "decorators=[staticmethod]; state=[]");
  ("bumble.rfcomm:RFCOMM_MCC_PN.from_bytes", "decorators=[staticmethod]; state=[]");
  ("bumble.rfcomm:compute_fcs", "decorators=[]; state=[]");
  ("bumble.rtp:MediaPacket.from_bytes", "decorators=[staticmethod]; state=[]");
  ("bumble.sdp:DataElement.from_bytes", "decorators=[classmethod]; state=[]");
  ("bumble.sdp:DataElement.parse_from_bytes", "decorators=[classmethod]; state=[]");
  ("bumble.sdp:DataElement.signed_integer_from_bytes", "decorators=[classmethod]; state=[]");
  ("bumble.sdp:DataElement.unsigned_integer_from_bytes", "decorators=[classmethod]; state=[]");
  ("bumble.sdp:DataElementParser._list_from_bytes", "decorators=[]; state=[]");
  ("bumble.sdp:DataElementParser.parse_next", "decorators=[]; state=[]");
  ("bumble.sdp:SDP_PDU.from_bytes", "decorators=[classmethod]; state=[SDP_PDU.subclasses]");
  ("bumble.sdp:_parse_bytes_preceded_by_length", "decorators=[]; state=[]");
  ("bumble.sdp:_parse_service_record_handle_list", "decorators=[]; state=[]");
  ("bumble.smp:SMP_Command.from_bytes", "decorators=[classmethod]; state=[SMP_Command.smp_classes]")
].


(* the decorator part of a fact is one of the three accepted forms *)
Definition plain_decorators (v : string) : bool :=
  orb (prefix "decorators=[]; " v) (orb (prefix "decorators=[classmethod]; " v) (prefix "decorators=[staticmethod]; " v)).
Definition parsers_plain (l : list (string * string)) : bool := forallb (fun kv => plain_decorators (snd kv)) l.
