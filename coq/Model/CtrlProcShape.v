(* The shape (statement digests in control-flow order) of the functions of bumble/controller.py and
   bumble/link.py that Model/CtrlProc.v and Model/CisProc.v are readings of, as they were when the model was written
   and validated against them by differential execution (campaign C2).  Regenerated from the
   current source into Gen/C03ProcShape.v on every run and proved equal in Props/C03.v: an edit to
   a condition, a constant, the order of the calls or the branch they are on changes a digest.
   To re-pin after a reviewed change: copy the rows from Gen/C03ProcShape.v.
   PS d: a simple statement; PIf d a b: condition digest and both arms; PLoop d body: loop header /
   match subject / nested def; PTry body handlers finally. *)
From Coq Require Import ZArith List String.
Import ListNotations.
Open Scope Z_scope.

Inductive ptree :=
| PS (d : Z)
| PIf (d : Z) (a b : list ptree)
| PLoop (d : Z) (body : list ptree)
| PTry (body : list ptree) (handlers : list (list ptree)) (fin : list ptree).

Definition expected : list (string * list ptree) := [
  ("Controller.on_hci_le_create_connection_command"%string, (PS 1053771409) :: [(PIf 176557349 [(PS 576774822); (PS 3319162886)] []); (PIf 3128484182 [(PS 576774822); (PS 3319162886)] []); (PS 4220445363); (PS 231281228); (PS 3319162886)]);
  ("Controller.on_hci_le_extended_create_connection_command"%string, (PS 1354998825) :: [(PIf 176557349 [(PS 576774822); (PS 2812165903)] []); (PIf 3128484182 [(PS 576774822); (PS 2812165903)] []); (PS 4220445363); (PS 231281228)]);
  ("Controller.on_hci_le_create_connection_cancel_command"%string, (PS 2077313621) :: [(PIf 3357777573 [(PS 207501767)] []); (PS 4083334178); (PS 3710373615); (PS 3293850848)]);
  ("Controller.on_hci_disconnect_command"%string, (PS 741018465) :: [(PS 3471247979); (PIf 2511986536 [(PS 4096566221); (PS 3319162886)] []); (PS 231281228); (PIf 1416896003 [(PIf 1284397119 [(PS 950859643); (PS 1518369335)] [(PS 659706273)])] [(PIf 2879019456 [(PIf 1284397119 [(PS 962424991); (PS 3791501396)] [(PS 952538344)])] [(PIf 1359497576 [(PIf 1284397119 [(PIf 3907004374 [(PS 578071669)] [(PS 2040123922)]); (PS 2808039970)] [(PS 3070824513)])] [(PIf 2741849718 [(PIf 3469300556 [(PS 2345666481); (PS 1989923803)] [])] [])])])]); (PS 3319162886)]);
  ("Controller.on_hci_le_read_remote_features_command"%string, (PS 1332305289) :: [(PS 3471247979); (PIf 3920538722 [(PS 1019427279); (PS 3319162886)] []); (PS 231281228); (PIf 217433169 [(PS 3961584051)] [(PS 1561934753)]); (PS 3319162886)]);
  ("Controller.on_hci_le_enable_encryption_command"%string, (PS 46892227) :: [(PIf 176557349 [(PS 576774822); (PS 2812165903)] []); (PIf 276486361 [(PS 875025165)] []); (PS 436871128); (PS 231281228); (PS 3820190142)]);
  ("Controller.on_hci_create_connection_command"%string, (PS 2414497078) :: [(PIf 3313873518 [(PS 576774822); (PS 3319162886)] []); (PIf 3128484182 [(PS 3143211775); (PS 3319162886)] []); (PS 1897841192); (PS 1541973705); (PIf 3115468998 [(PS 1113716460); (PS 3319162886)] []); (PS 1419744403); (PS 231281228); (PIf 1875665927 [(PS 3222208268); (PS 3407622229); (PS 3319162886)] []); (PS 3166413634); (PLoop 2436349412 [(PS 3641935610)]); (PS 3001595164); (PS 3319162886)]);
  ("Controller.on_hci_remote_name_request_command"%string, (PS 956544769) :: [(PS 919358751); (PIf 857918792 [(PS 3124361201); (PS 3319162886)] []); (PS 3103089296); (PS 3319162886)]);
  ("Controller.on_hci_accept_connection_request_command"%string, (PS 156743706) :: [(PIf 3313873518 [(PS 576774822); (PS 3319162886)] []); (PIf 3428034635 [(PS 4096566221); (PS 3319162886)] []); (PS 919358751); (PIf 2194671162 [(PS 770310874); (PLoop 2436349412 [(PIf 2966967913 [(PS 3520823702); (PS 1611171409)] [(PS 4154152777)]); (PS 2162191315)]); (PS 3001595164)] [(PS 1611171409); (PS 3994281447)]); (PS 3319162886)]);
  ("Controller.on_advertising_pdu"%string, (PS 3088388177) :: [(PIf 950345475 [(PS 121413861)] [(PS 3755858104)]); (PIf 1421300868 [(PIf 3142405084 [(PS 2768042274); (PS 2983061351); (PIf 702257249 [(PS 3595403908); (PS 2983061351)] [])] [(PS 2274029422); (PS 2328287728); (PIf 702257249 [(PS 795676115); (PS 2328287728)] [])])] []); (PIf 2473492870 [(PS 2387950167)] [])]);
  ("Controller.create_le_connection"%string, (PS 371353055) :: [(PS 2526646262); (PS 104231599); (PIf 1388796062 [(PS 2812165903)] []); (PS 847742542); (PS 713277223); (PS 3831551894); (PS 242610157); (PS 3471769355); (PIf 1618744811 [(PS 2764395992); (PS 2769893974); (PS 1556278070)] [(PS 3080748507); (PS 1091095944); (PS 2430055469)]); (PS 3778913746); (PS 3718149325); (PS 4083334178)]);
  ("Controller.on_le_connect_ind"%string, (PS 581664493) :: [(PS 3833382060); (PIf 316517781 [(PS 725479738)] [(PS 841939922)]); (PIf 1846924893 [(PS 1571751616); (PIf 3333633947 [(PS 3011839402)] []); (PS 2812165903)] []); (PS 183112124); (PS 3831551894); (PS 1882462663); (PS 3471769355); (PS 1766930119); (PIf 4165951657 [(PS 84565360)] []); (PS 4189796076)]);
  ("Controller.on_ll_advertising_pdu"%string, (PS 3058158049) :: [(PLoop 1010934900 [(PIf 2352711656 [(PS 1565221633)] []); (PIf 1380325790 [(PS 2373532870)] [])])]);
  ("Controller.on_ll_control_pdu"%string, (PS 1718067480) :: [(PIf 1405876325 [(PS 2812165903)] []); (PLoop 1010934900 [(PIf 2443841427 [(PS 1752938071)] []); (PIf 2161906864 [(PS 4052547473)] []); (PIf 4100748996 [(PS 3863601686); (PS 75786614)] []); (PIf 1509971129 [(PS 3863601686)] []); (PIf 2221130416 [(PS 2018656142)] []); (PIf 2160206114 [(PS 3820190142)] []); (PIf 1413684444 [(PS 1077744907)] []); (PIf 658281098 [(PS 1936489371)] [])])]);
  ("Controller.on_le_disconnected"%string, (PS 1802091290) :: [(PS 2706688105); (PS 952538344)]);
  ("Controller.on_le_encrypted"%string, (PS 2463575498) :: [(PS 3033457536)]);
  ("Controller.send_lmp_packet"%string, (PS 2912691110) :: [(PS 2714357092); (PS 2318493982); (PS 3893599069); (PS 2888744352); (PS 2518027157)]);
  ("Controller.on_lmp_packet"%string, (PS 1480547521) :: [(PLoop 1010934900 [(PIf 1651710551 [(PIf 835604796 [(PS 1105907447)] [])] []); (PIf 220930937 [(PIf 835604796 [(PS 3334775557)] [])] []); (PIf 4002662036 [(PS 1860217222)] []); (PIf 4035534308 [(PS 3218957649)] []); (PIf 2219790629 [(PS 157797150)] []); (PIf 2552490241 [(PS 1745289170)] []); (PIf 912702420 [(PS 1407788288)] []); (PIf 2227741537 [(PS 3364076661)] []); (PIf 2344687204 [(PS 1756974116)] []); (PIf 2286273034 [(PS 23997973)] []); (PIf 3758623311 [(PS 4196503126)] []); (PIf 3093607310 [(PIf 2332923272 [(PS 2420953063)] [])] []); (PIf 1813127285 [(PS 3857910193); (PS 2193603510); (PS 417686221); (PIf 4276919005 [(PS 872981890)] [(PS 2435075955)]); (PS 693243091)] []); (PIf 3225664689 [(PIf 2332923272 [(PS 3560115626)] [])] []); (PIf 701932520 [] [])])]);
  ("Controller.on_classic_connection_request"%string, (PS 1477002953) :: [(PIf 94286942 [(PS 56929627)] [(PS 2667780728)]); (PS 3359379004)]);
  ("Controller.on_classic_connection_complete"%string, (PS 2627068738) :: [(PIf 3372264541 [(PS 3657412317); (PS 3831551894); (PIf 2254094735 [(PS 384447790)] [(PS 3084295289); (PS 2417291167)]); (PS 1770737616)] [(PS 2548877105); (PS 1443748574)])]);
  ("Controller.on_classic_disconnected"%string, (PS 3813936520) :: [(PIf 1425886207 [(PS 2706688105)] [])]);
  ("Controller.on_classic_remote_name_request"%string, (PS 3399357155) :: [(PS 2060666963)]);
  ("Controller.on_classic_remote_name_response"%string, (PS 3556284722) :: [(PS 336257634)]);
  ("Controller.allocate_connection_handle"%string, (PS 2068527459) :: [(PS 2060312312); (PS 1965635287)]);
  ("Controller.find_connection_by_handle"%string, (PS 1599499571) :: [(PLoop 3356015129 [(PIf 1638619623 [(PS 2411298657)] [])]); (PS 3319162886)]);
  ("Controller.find_le_connection_by_handle"%string, (PS 1599499571) :: [(PLoop 2880178692 [(PIf 1638619623 [(PS 2411298657)] [])]); (PS 3319162886)]);
  ("Controller.find_classic_connection_by_handle"%string, (PS 1599499571) :: [(PLoop 3682020544 [(PIf 1638619623 [(PS 2411298657)] [])]); (PS 3319162886)]);
  ("Controller.send_advertising_pdu"%string, (PS 3058158049) :: [(PIf 1284397119 [(PS 3453449536)] [])]);
  ("Controller.send_hci_packet"%string, (PS 1639615858) :: [(PIf 3037057587 [(PS 1184607430)] [])]);
  ("Controller._send_hci_command_status"%string, (PS 3103188712) :: [(PS 1587421334)]);
  ("Controller.on_hci_le_set_cig_parameters_command"%string, (PS 2402299113) :: [(PS 2515417795); (PLoop 2075866318 [(PIf 2340006474 [(PS 3946392072)] [])]); (PS 1851013277); (PLoop 3193358567 [(PS 2042269045); (PS 1286519869); (PS 1681878824)]); (PS 2850006035)]);
  ("Controller.on_hci_le_create_cis_command"%string, (PS 1826601118) :: [(PIf 176557349 [(PS 576774822); (PS 3319162886)] []); (PLoop 1104326435 [(PIf 3377583173 [(PS 1019427279); (PS 2812165903)] []); (PIf 1264124967 [(PS 1019427279); (PS 2812165903)] []); (PS 326853591); (PS 238877210)]); (PS 231281228)]);
  ("Controller.on_hci_le_remove_cig_command"%string, (PS 349169595) :: [(PS 826811812); (PS 2515417795); (PLoop 2075866318 [(PIf 2340006474 [(PS 1997805808); (PS 2885627521)] [])]); (PS 2734699125)]);
  ("Controller.on_hci_le_accept_cis_request_command"%string, (PS 3059977613) :: [(PIf 176557349 [(PS 576774822); (PS 3319162886)] []); (PIf 475108041 [(PS 1019427279); (PS 2812165903)] []); (PS 2274699245); (PS 929382460); (PS 231281228); (PS 3319162886)]);
  ("Controller.on_le_cis_request"%string, (PS 4001399034) :: [(PS 1749187562); (PS 422973231); (PS 1693434547)]);
  ("Controller.on_le_cis_established"%string, (PS 1017559166) :: [(PS 3361722469); (PS 2310210888)]);
  ("Controller.on_le_cis_disconnected"%string, (PS 1017559166) :: [(PIf 76135082 [(PS 3474290008)] [(PIf 1211747893 [(PS 2347449019)] [(PS 2812165903)])]); (PS 4079018677)]);
  ("Controller.find_iso_link_by_handle"%string, (PS 1599499571) :: [(PS 3259636244)]);
  ("Controller.find_classic_sco_link_by_handle"%string, (PS 1599499571) :: [(PLoop 2925049617 [(PIf 1638619623 [(PS 2411298657)] [])]); (PS 3319162886)]);
  ("Connection.send_ll_control_pdu"%string, (PS 740511160) :: [(PIf 1284397119 [(PS 773483521)] [])]);
  ("LocalLink.find_le_controller"%string, (PS 2057973421) :: [(PLoop 4069347948 [(PLoop 365032208 [(PIf 3936050657 [(PS 3938216605)] [])])]); (PS 3319162886)]);
  ("LocalLink.find_classic_controller"%string, (PS 2057973421) :: [(PLoop 4069347948 [(PIf 192598265 [(PS 3938216605)] [])]); (PS 3319162886)]);
  ("LocalLink.send_advertising_pdu"%string, (PS 4096750722) :: [(PS 2714357092); (PLoop 4069347948 [(PIf 3051442122 [(PS 3336076309)] [])])]);
  ("LocalLink.send_ll_control_pdu"%string, (PS 2519760812) :: [(PIf 4202449078 [(PS 2812165903)] []); (PS 1563254918)]);
  ("LocalLink.send_lmp_packet"%string, (PS 1437263132) :: [(PIf 957995015 [(PS 2812165903)] []); (PS 484837715)]);
  ("LocalLink.remove_controller"%string, (PS 3671806769) :: [(PS 1205864537)]);
  ("LocalLink.add_controller"%string, (PS 3671806769) :: [(PS 2018735048)])
].
