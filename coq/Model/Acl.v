(* Model of the ACL / ISO data path of google/bumble as executable Gallina.  No proofs here.

   Code modelled (file: function):
     host.py:  Host.send_acl_sdu, Host.send_l2cap_pdu, Host.send_iso_sdu,
               Connection.on_hci_acl_data_packet / on_acl_pdu, Host.on_l2cap_pdu
     hci.py:   HCI_AclDataPacket.__bytes__ / from_bytes (header bit fields),
               HCI_AclDataPacketAssembler.feed_packet (every branch),
               HCI_IsoDataPacket.__bytes__ / from_bytes
     l2cap.py: L2CAP_PDU.to_bytes (with and without FCS) / from_bytes
     utils.py: crc_16
     controller.py: Connection.on_hci_acl_data_packet / on_acl_pdu (reassembly in the
               sending controller), LocalLink.send_acl_data (FIFO hand-over),
               Controller.on_link_acl_data AFTER fix D05 (fragments towards the host by the
               ACL data packet length it announced; before the fix: one packet per PDU,
               see [ctrl_to_host_unfragmented]).

   Conventions: bytes are [list Z]; an exception is [None] (or an error event) together with
   the state the code leaves behind; struct.pack range errors are explicit.
   Abstractions, exactly:
     - logging is dropped;
     - the DataPacketQueue between send_acl_sdu and send_hci_packet is Model/DataQueue.v (C04);
       here the fragmenter returns the packets in enqueue order;
     - asyncio call_soon hand-overs (host->controller, link, controller->host) are FIFO lists;
     - [m <= 0]: range(0, len, 0) raises ValueError; a negative step cannot come from the
       unsigned 16-bit Read Buffer Size field, both are [None]. *)
From Coq Require Import ZArith List Bool.
Import ListNotations.
Open Scope Z_scope.

Definition bytes := list Z.
Definition blen (b : bytes) : Z := Z.of_nat (length b).

(* ------------------------------------------------------------------ struct.pack('<H') *)
Definition u16_ok (v : Z) : bool := (0 <=? v) && (v <? 65536).
Definition le16 (v : Z) : bytes := [v mod 256; v / 256].
Definition rd16 (b0 b1 : Z) : Z := b0 + 256 * b1.
Definition byte_ok (b : Z) : bool := (0 <=? b) && (b <? 256).
Definition bytes_ok (bs : bytes) : bool := forallb byte_ok bs.

(* ------------------------------------------------------------------ utils.crc_16 *)
Definition crc_bit (crc : Z) : Z :=
  if Z.odd crc then Z.lxor (Z.shiftr crc 1) 40961 (* 0xA001 *) else Z.shiftr crc 1.
Definition crc_byte (crc b : Z) : Z :=
  crc_bit (crc_bit (crc_bit (crc_bit (crc_bit (crc_bit (crc_bit (crc_bit (Z.lxor crc b)))))))).
Definition crc16 (data : bytes) : Z := fold_left crc_byte data 0.

(* ------------------------------------------------------------------ L2CAP_PDU *)
(* to_bytes(with_fcs=False): struct.pack('<HH', len(payload), cid) + payload *)
Definition l2cap_to_bytes (cid : Z) (payload : bytes) : option bytes :=
  if u16_ok (blen payload) && u16_ok cid
  then Some (le16 (blen payload) ++ le16 cid ++ payload) else None.

(* to_bytes(with_fcs=True): length += 2; body + struct.pack('<H', crc_16(body)) *)
Definition l2cap_to_bytes_fcs (cid : Z) (payload : bytes) : option bytes :=
  let len := blen payload + 2 in
  if u16_ok len && u16_ok cid then
    let body := le16 len ++ le16 cid ++ payload in
    if u16_ok (crc16 body) then Some (body ++ le16 (crc16 body)) else None
  else None.

(* from_bytes: < 4 bytes raises InvalidPacketError; payload = data[4 : 4 + length] *)
Definition l2cap_from_bytes (data : bytes) : option (Z * bytes) :=
  match data with
  | l0 :: l1 :: c0 :: c1 :: rest => Some (rd16 c0 c1, firstn (Z.to_nat (rd16 l0 l1)) rest)
  | _ => None
  end.

(* ------------------------------------------------------------------ HCI_AclDataPacket *)
Record acl := mkAcl { a_handle : Z; a_pb : Z; a_bc : Z; a_len : Z; a_data : bytes }.
Definition acl_obs (p : acl) := (a_handle p, a_pb p, a_bc p, a_len p, a_data p).

(* h = (pb_flag << 12) | (bc_flag << 14) | connection_handle *)
Definition acl_hdr (handle pb bc : Z) : Z := Z.lor (Z.lor (Z.shiftl pb 12) (Z.shiftl bc 14)) handle.

(* struct.pack('<BHH', HCI_ACL_DATA_PACKET, h, data_total_length) + data *)
Definition acl_to_bytes (p : acl) : option bytes :=
  let h := acl_hdr (a_handle p) (a_pb p) (a_bc p) in
  if u16_ok h && u16_ok (a_len p) then Some (2 :: le16 h ++ le16 (a_len p) ++ a_data p) else None.

(* HCI_Packet.from_bytes dispatches on the type byte; HCI_AclDataPacket.from_bytes:
   unpack_from('<HH', packet, 1) (struct.error when short), length mismatch raises. *)
Definition acl_from_bytes (bs : bytes) : option acl :=
  match bs with
  | 2 :: h0 :: h1 :: l0 :: l1 :: data =>
      let h := rd16 h0 h1 in
      let len := rd16 l0 l1 in
      if blen data =? len
      then Some (mkAcl (Z.land h 4095) (Z.land (Z.shiftr h 12) 3) (Z.land (Z.shiftr h 14) 3) len data)
      else None
  | _ => None
  end.

(* ------------------------------------------------------------------ fragmentation *)
(* for offset in range(0, len(sdu), m): sdu[offset : offset + m].
   Recursion on fuel (one unit per fragment); running out of fuel is None. *)
Fixpoint chunks (fuel : nat) (m : nat) (l : bytes) : option (list bytes) :=
  match l with
  | [] => Some []
  | _ :: _ =>
      match fuel with
      | O => None
      | S f =>
          match chunks f m (skipn m l) with
          | Some r => Some (firstn m l :: r)
          | None => None
          end
      end
  end.

(* pb_flag = first_pb when offset == 0, 1 (continuation) otherwise; bc_flag = 0;
   data_total_length = len(fragment) *)
Definition mark_frags (h first_pb : Z) (cs : list bytes) : list acl :=
  match cs with
  | [] => []
  | c :: r => mkAcl h first_pb 0 (blen c) c :: map (fun c => mkAcl h 1 0 (blen c) c) r
  end.

Definition fragment (h first_pb m : Z) (sdu : bytes) : option (list acl) :=
  if m <=? 0 then None
  else option_map (mark_frags h first_pb) (chunks (length sdu) (Z.to_nat m) sdu).

(* Host.send_acl_sdu: unknown connection -> warning, nothing sent *)
Definition send_acl_sdu (known : bool) (h m : Z) (sdu : bytes) : option (list acl) :=
  if known then fragment h 0 m sdu else Some [].

(* Host.send_l2cap_pdu: bytes(L2CAP_PDU(cid, pdu)) raises before anything is sent *)
Definition send_l2cap_pdu (known : bool) (h m cid : Z) (payload : bytes) : option (list acl) :=
  match l2cap_to_bytes cid payload with
  | None => None
  | Some b => send_acl_sdu known h m b
  end.

(* ------------------------------------------------------------------ HCI_AclDataPacketAssembler *)
(* feed_packet after fix D05b: a start fragment is stored as it is; the L2CAP length is decoded
   from the accumulated data as soon as two bytes are present (before the fix a start fragment
   shorter than 2 bytes raised struct.error, see [feed_before_d05b]).
   state: (current_data, l2cap_pdu_length) *)
Definition asm := (option bytes * Z)%type.
Definition asm_init : asm := (None, 0).

Inductive asm_ev :=
| Deliver (pdu : bytes)   (* callback(current_data) *)
| ContNoStart             (* '!!! ACL continuation without start': packet ignored *)
| Overflow                (* '!!! ACL data exceeds L2CAP PDU': state reset *)
| ShortStart              (* only in feed_before_d05b: struct.error on a start fragment < 2 bytes *)
| NoData.                 (* AssertionError: pb_flag 3 while nothing is being assembled *)

(* compare len(current_data) with l2cap_pdu_length + 4 *)
Definition asm_check (cur : bytes) (l : Z) : asm * list asm_ev :=
  if blen cur =? l + 4 then (asm_init, [Deliver cur])
  else if blen cur >? l + 4 then (asm_init, [Overflow])
  else ((Some cur, l), []).

(* the tail of feed_packet: if len(current_data) < 2: return; unpack '<H'; compare *)
Definition asm_tail (cur : bytes) (l0 : Z) : asm * list asm_ev :=
  match cur with
  | b0 :: b1 :: _ => asm_check cur (rd16 b0 b1)
  | _ => ((Some cur, l0), [])
  end.

Definition feed (s : asm) (p : acl) : asm * list asm_ev :=
  if (a_pb p =? 0) || (a_pb p =? 2) then
    asm_tail (a_data p) 0                                     (* start overwrites; l2cap_pdu_length = 0 *)
  else if a_pb p =? 1 then
    match fst s with
    | None => (s, [ContNoStart])
    | Some cur => asm_tail (cur ++ a_data p) (snd s)
    end
  else
    match fst s with
    | None => (s, [NoData])
    | Some cur => asm_tail cur (snd s)
    end.

(* feed_packet as it was before D05b *)
Definition feed_before_d05b (s : asm) (p : acl) : asm * list asm_ev :=
  if (a_pb p =? 0) || (a_pb p =? 2) then
    match a_data p with
    | b0 :: b1 :: _ => asm_check (a_data p) (rd16 b0 b1)
    | _ => (s, [ShortStart])
    end
  else if a_pb p =? 1 then
    match fst s with
    | None => (s, [ContNoStart])
    | Some cur => asm_check (cur ++ a_data p) (snd s)
    end
  else
    match fst s with
    | None => (s, [NoData])
    | Some cur => asm_check cur (snd s)
    end.

Fixpoint asm_run (s : asm) (ps : list acl) : asm * list asm_ev :=
  match ps with
  | [] => (s, [])
  | p :: ps' =>
      let '(s1, o1) := feed s p in
      let '(s2, o2) := asm_run s1 ps' in
      (s2, o1 ++ o2)
  end.

Fixpoint deliveries (evs : list asm_ev) : list bytes :=
  match evs with
  | [] => []
  | Deliver p :: r => p :: deliveries r
  | _ :: r => deliveries r
  end.

Definition ev_code (e : asm_ev) : Z :=
  match e with Deliver _ => 0 | ContNoStart => 1 | Overflow => 2 | ShortStart => 3 | NoData => 4 end.

(* ------------------------------------------------------------------ wire (bytes between host and controller) *)
(* a packet whose serialisation raises is lost (the others are unaffected) *)
Definition wire1 (p : acl) : list acl :=
  match acl_to_bytes p with
  | Some b => match acl_from_bytes b with Some q => [q] | None => [] end
  | None => []
  end.
Definition wire (ps : list acl) : list acl := flat_map wire1 ps.

(* ------------------------------------------------------------------ controller relay *)
(* Controller.on_link_acl_data after fix D05: fragments of at most m bytes, pb 2 then 1 *)
Definition ctrl_to_host (h m : Z) (pdu : bytes) : option (list acl) := fragment h 2 m pdu.

(* before the fix: HCI_AclDataPacket(handle, 2, 0, len(data), data) *)
Definition ctrl_to_host_unfragmented (h : Z) (pdu : bytes) : list acl :=
  [mkAcl h 2 0 (blen pdu) pdu].

(* Connection.on_acl_pdu on the receiving host: from_bytes, then emit 'l2cap_pdu' *)
Definition host_on_acl_pdu (pdu : bytes) : list (Z * bytes) :=
  match l2cap_from_bytes pdu with Some cp => [cp] | None => [] end.

Fixpoint concat_opt {A} (xs : list (option (list A))) : option (list A) :=
  match xs with
  | [] => Some []
  | None :: _ => None
  | Some x :: r => match concat_opt r with Some y => Some (x ++ y) | None => None end
  end.

(* what host A hands to its controller for a list of (cid, payload) sends *)
Definition host_tx (h m : Z) (pdus : list (Z * bytes)) : option (list acl) :=
  concat_opt (map (fun cp => send_l2cap_pdu true h m (fst cp) (snd cp)) pdus).

(* sending controller: wire, reassembly, link; receiving controller: fragmentation *)
Definition ctrl_rx_pdus (pkts : list acl) : list bytes :=
  deliveries (snd (asm_run asm_init (wire pkts))).
Definition ctrl_tx (h m : Z) (pdus : list bytes) : option (list acl) :=
  concat_opt (map (ctrl_to_host h m) pdus).
Definition host_rx (pkts : list acl) : list (Z * bytes) :=
  flat_map host_on_acl_pdu (deliveries (snd (asm_run asm_init (wire pkts)))).

(* end to end: handle hA / fragment size mA on the sending side, hB / mB on the receiving *)
Definition relay (hA mA hB mB : Z) (pdus : list (Z * bytes)) : option (list (Z * bytes)) :=
  match host_tx hA mA pdus with
  | None => None
  | Some pk =>
      match ctrl_tx hB mB (ctrl_rx_pdus pk) with
      | None => None
      | Some pk' => Some (host_rx pk')
      end
  end.

(* the relay as it was before D05 *)
Definition relay_unfragmented (hA mA hB : Z) (pdus : list (Z * bytes)) : option (list (Z * bytes)) :=
  match host_tx hA mA pdus with
  | None => None
  | Some pk => Some (host_rx (flat_map (ctrl_to_host_unfragmented hB) (ctrl_rx_pdus pk)))
  end.

(* ------------------------------------------------------------------ HCI_IsoDataPacket, send_iso_sdu *)
Record iso := mkIso {
  i_handle : Z; i_pb : Z; i_len : Z;            (* data_total_length *)
  i_ts : option Z;                              (* time_stamp *)
  i_seq : option Z; i_sdu_len : option Z; i_psf : option Z;
  i_frag : bytes }.
Definition iso_obs (p : iso) :=
  (i_handle p, i_pb p, i_len p, (i_seq p, i_sdu_len p, i_psf p), i_frag p).

(* while bytes_remaining: ... ; fuel = one unit per fragment *)
Fixpoint iso_loop (fuel : nat) (h maxp seq total : Z) (first : bool) (rest : bytes)
  : option (list iso) :=
  match rest with
  | [] => Some []
  | _ :: _ =>
      let hl := if first then 4 else 0 in
      if maxp <=? hl then None                               (* assert max_packet_size > header_length *)
      else
        match fuel with
        | O => None
        | S f =>
            let n := Z.min (blen rest) (maxp - hl) in
            let last := blen rest =? n in
            let fr := firstn (Z.to_nat n) rest in
            let pkt :=
              if first
              then mkIso h (if last then 2 else 0) (hl + n) None (Some seq) (Some total) (Some 0) fr
              else mkIso h (if last then 3 else 1) n None None None None fr in
            match iso_loop f h maxp seq total false (skipn (Z.to_nat n) rest) with
            | Some r => Some (pkt :: r)
            | None => None
            end
        end
  end.

(* returns the packets enqueued and the link's next packet_sequence_number; when the
   assertion fails (only possible on the first iteration) nothing was enqueued and the
   sequence number is unchanged *)
Definition send_iso_sdu (h maxp seq : Z) (sdu : bytes) : option (list iso) * Z :=
  match iso_loop (length sdu) h maxp seq (blen sdu) true sdu with
  | Some ps => (Some ps, Z.land (seq + 1) 65535)
  | None => (None, seq)
  end.

Fixpoint send_iso_sdus (h maxp seq : Z) (sdus : list bytes) : list (option (list iso)) * Z :=
  match sdus with
  | [] => ([], seq)
  | s :: r =>
      let '(o, seq1) := send_iso_sdu h maxp seq s in
      let '(os, seq2) := send_iso_sdus h maxp seq1 r in
      (o :: os, seq2)
  end.

(* __bytes__: ts_flag << 14 | pb_flag << 12 | handle; optional 'I' time stamp; optional 'HH'
   sequence number and iso_sdu_length | packet_status_flag << 14 (two-bit flag; from_bytes reads
   (sdu_info >> 14) & 0b11 and keeps 12 bits of the length) *)
Definition u32_ok (v : Z) : bool := (0 <=? v) && (v <? 4294967296).
Definition le32 (v : Z) : bytes := [v mod 256; (v / 256) mod 256; (v / 65536) mod 256; v / 16777216].
Definition iso_hdr (ts pb handle : Z) : Z := Z.lor (Z.lor (Z.shiftl ts 14) (Z.shiftl pb 12)) handle.

Definition iso_to_bytes (p : iso) : option bytes :=
  let ts := match i_ts p with Some _ => 1 | None => 0 end in
  let h := iso_hdr ts (i_pb p) (i_handle p) in
  let tsb := match i_ts p with Some t => if u32_ok t then Some (le32 t) else None | None => Some [] end in
  let info :=
    match i_seq p, i_sdu_len p, i_psf p with
    | Some s, Some l, Some f =>
        let w := Z.lor l (Z.shiftl f 14) in
        if u16_ok s && u16_ok w then Some (le16 s ++ le16 w) else None
    | _, _, _ => Some []
    end in
  match tsb, info with
  | Some tb, Some ib =>
      if u16_ok h && u16_ok (i_len p) then Some (5 :: le16 h ++ le16 (i_len p) ++ tb ++ ib ++ i_frag p)
      else None
  | _, _ => None
  end.

Definition iso_from_bytes (bs : bytes) : option iso :=
  match bs with
  | 5 :: h0 :: h1 :: l0 :: l1 :: rest =>
      let info := rd16 h0 h1 in
      let handle := Z.land info 4095 in
      let pb := Z.land (Z.shiftr info 12) 3 in
      let tsf := Z.land (Z.shiftr info 14) 1 in
      let len := rd16 l0 l1 in
      let with_info := Z.land pb 1 =? 0 in
      let after_ts :=
        if tsf =? 0 then Some (None, rest)
        else match rest with
             | t0 :: t1 :: t2 :: t3 :: r => Some (Some (t0 + 256 * t1 + 65536 * t2 + 16777216 * t3), r)
             | _ => None
             end in
      match after_ts with
      | None => None
      | Some (ts, r1) =>
          if with_info then
            match r1 with
            | s0 :: s1 :: w0 :: w1 :: r2 =>
                let w := rd16 w0 w1 in
                Some (mkIso handle pb len ts (Some (rd16 s0 s1)) (Some (Z.land w 4095))
                            (Some (Z.land (Z.shiftr w 14) 3)) r2)
            | _ => None
            end
          else Some (mkIso handle pb len ts None None None r1)
      end
  | _ => None
  end.

(* ------------------------------------------------------------------ helpers for the correspondence check *)
(* deterministic test pattern so that 64 KiB payloads need no 64 KiB literal *)
Fixpoint pattern (n : nat) (a b : Z) : bytes :=      (* byte i is (a * i + b) mod 256 *)
  match n with O => [] | S k => b mod 256 :: pattern k a (b + a) end.
Definition digest (bs : bytes) : Z := fold_left (fun acc b => Z.land (acc * 31 + b + 1) 1073741823) bs 0.
Definition acl_sum (p : acl) := (a_handle p, a_pb p, a_bc p, a_len p, (blen (a_data p), digest (a_data p))).
Definition ev_sum (e : asm_ev) : Z * Z * Z :=
  match e with Deliver p => (0, blen p, digest p) | _ => (ev_code e, 0, 0) end.
Definition bytes_sum (b : bytes) := (firstn 13 b, blen b, digest b).
Definition iso_sum (p : iso) :=
  (i_handle p, i_pb p, i_len p, (i_seq p, i_sdu_len p, i_psf p), (blen (i_frag p), digest (i_frag p))).
Definition iso_full (p : iso) :=
  (i_handle p, i_pb p, i_len p, i_ts p, (i_seq p, i_sdu_len p, i_psf p), i_frag p).
