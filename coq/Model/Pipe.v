(* Model of bumble/utils.py FlowControlAsyncPipe as executable Gallina. No proofs.

   The pump coroutine is cut at its awaits (asyncio runs a coroutine atomically up
   to the next await):
     PumpA : woken with ready_to_pump set; if can_pump(): pop the oldest packet,
             write_to_sink(packet), queued_bytes -= len(packet); then await drain_sink()
     PumpB : after drain_sink() returns: resume the source if below threshold;
             check_pump()
   Other ops (Write / Pause / Resume) may be scheduled between PumpA and PumpB.
   A packet is (id, length).  Outputs are the calls made to the three callbacks. *)
From Coq Require Import ZArith List Bool.
Import ListNotations.
Open Scope Z_scope.

Inductive pout := Sink (p : Z) | PauseSrc | ResumeSrc.

Record pstate := mkP {
  p_threshold : Z;
  p_queue : list (Z * Z);      (* oldest first *)
  p_bytes : Z;                 (* queued_bytes *)
  p_paused : bool;
  p_src_paused : bool;
  p_ready : bool;              (* ready_to_pump event *)
  p_mid : bool                 (* pump task is suspended in drain_sink() *)
}.

Inductive pop := Write (p len : Z) | Pause | Resume | PumpA | PumpB.

Definition p_init (threshold : Z) : pstate := mkP threshold [] 0 false false false false.

Definition can_pump (s : pstate) : bool :=
  match p_queue s with [] => false | _ => negb (p_paused s) end.

Definition check_pump (s : pstate) : pstate :=
  mkP (p_threshold s) (p_queue s) (p_bytes s) (p_paused s) (p_src_paused s) (can_pump s) (p_mid s).

Definition p_step (s : pstate) (o : pop) : pstate * list pout :=
  match o with
  | Write p len =>
      let bytes := p_bytes s + len in
      let q := p_queue s ++ [(p, len)] in
      if andb (Z.ltb (p_threshold s) bytes) (negb (p_src_paused s)) then
        (check_pump (mkP (p_threshold s) q bytes (p_paused s) true (p_ready s) (p_mid s)), [PauseSrc])
      else
        (check_pump (mkP (p_threshold s) q bytes (p_paused s) (p_src_paused s) (p_ready s) (p_mid s)), [])
  | Pause =>
      if p_paused s then (s, [])
      else if p_src_paused s then
        (check_pump (mkP (p_threshold s) (p_queue s) (p_bytes s) true true (p_ready s) (p_mid s)), [])
      else
        (check_pump (mkP (p_threshold s) (p_queue s) (p_bytes s) true true (p_ready s) (p_mid s)), [PauseSrc])
  | Resume =>
      if p_paused s then
        if p_src_paused s then
          (check_pump (mkP (p_threshold s) (p_queue s) (p_bytes s) false false (p_ready s) (p_mid s)), [ResumeSrc])
        else
          (check_pump (mkP (p_threshold s) (p_queue s) (p_bytes s) false false (p_ready s) (p_mid s)), [])
      else (s, [])
  | PumpA =>
      (* enabled only when the task is waiting on ready_to_pump and it is set *)
      if andb (p_ready s) (negb (p_mid s)) then
        match p_queue s with
        | (p, len) :: q' =>
            if p_paused s then (check_pump s, [])
            else (mkP (p_threshold s) q' (p_bytes s - len) (p_paused s) (p_src_paused s) (p_ready s) true,
                  [Sink p])
        | [] => (check_pump s, [])
        end
      else (s, [])
  | PumpB =>
      if p_mid s then
        if andb (Z.leb (p_bytes s) (p_threshold s)) (p_src_paused s) then
          (check_pump (mkP (p_threshold s) (p_queue s) (p_bytes s) (p_paused s) false (p_ready s) false), [ResumeSrc])
        else
          (check_pump (mkP (p_threshold s) (p_queue s) (p_bytes s) (p_paused s) (p_src_paused s) (p_ready s) false), [])
      else (s, [])
  end.

Fixpoint p_run (s : pstate) (ops : list pop) : pstate * list pout :=
  match ops with
  | [] => (s, [])
  | o :: ops' =>
      let '(s1, o1) := p_step s o in
      let '(s2, o2) := p_run s1 ops' in
      (s2, o1 ++ o2)
  end.

Fixpoint sinks (l : list pout) : list Z :=
  match l with
  | [] => []
  | Sink p :: l' => p :: sinks l'
  | _ :: l' => sinks l'
  end.

Fixpoint writes (ops : list pop) : list Z :=
  match ops with
  | [] => []
  | Write p _ :: ops' => p :: writes ops'
  | _ :: ops' => writes ops'
  end.

(* Encoding of outputs as Z for the correspondence check: Sink p -> p (p >= 0),
   PauseSrc -> -1, ResumeSrc -> -2 *)
Definition pout_code (o : pout) : Z :=
  match o with Sink p => p | PauseSrc => -1 | ResumeSrc => -2 end.
