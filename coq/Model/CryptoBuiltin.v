(* C14 - the built-in back end assembled: bumble.crypto.builtin.e / aes_cmac as total
   functions (an exception of the Python code is the empty byte string here; the harness
   compares the option-valued versions), and the toolbox of bumble/crypto/__init__.py
   instantiated with them.  Executable Gallina only; used by the correspondence harness and
   by the sample-data Examples. *)
From Coq Require Import ZArith List Bool.
From BV Require Import Model.CryptoBytes Model.Aes Model.Cmac Model.SmToolbox.
Import ListNotations.
Open Scope Z_scope.

(* builtin.aes_cmac(m, k) = _CMAC(key=k, msg=m).digest(); None = an exception
   (InvalidArgumentError for a key that is not 16/24/32 bytes) *)
Definition aes_cmac_builtin (m k : list Z) : option (list Z) :=
  match aes_init k with
  | None => None
  | Some ke => aes_cmac_code (aes_block ke) m
  end.

(* RFC 4493 over the same block cipher *)
Definition aes_cmac_rfc (m k : list Z) : option (list Z) :=
  match aes_init k with
  | None => None
  | Some ke => Some (cmac_spec (aes_block ke) m)
  end.

(* a sequence of update() calls on _CMAC(key=k, msg=b'') followed by digest() *)
Definition aes_cmac_chunked_builtin (chunks : list (list Z)) (k : list Z) : option (list Z) :=
  match aes_init k with
  | None => None
  | Some ke => cmac_chunked (aes_block ke) chunks
  end.

Definition unopt (o : option (list Z)) : list Z := match o with Some x => x | None => [] end.
Definition unopt_ke (o : option (list (Z * Z * Z * Z))) : list (Z * Z * Z * Z) :=
  match o with Some k => k | None => [] end.
Definition e_total (k d : list Z) : list Z := unopt (e_builtin k d).
Definition cmac_total (m k : list Z) : list Z := unopt (aes_cmac_builtin m k).

Definition b_ah := ah e_total.
Definition b_c1 := c1 e_total.
Definition b_s1 := s1 e_total.
Definition b_f4 := f4 cmac_total.
Definition b_f5 := f5 cmac_total.
Definition b_f6 := f6 cmac_total.
Definition b_g2 := g2 cmac_total.
Definition b_h6 := h6 cmac_total.
Definition b_h7 := h7 cmac_total.
Definition b_rpa_generate := rpa_generate e_total.
Definition b_rpa_matches := rpa_matches e_total.
Definition b_resolve := resolve e_total.
