(* C17 - containment at the transport boundary: host.py Host.on_packet, on_hci_packet,
   on_hci_acl_data_packet and the decoders of the HCI data packets (hci.py
   HCI_Packet.from_bytes, HCI_AclDataPacket / HCI_SynchronousDataPacket /
   HCI_IsoDataPacket.from_bytes).  Executable Gallina only.

   Abstraction: command and event packets are decoded and handled by code outside this
   model ([HOpaque]); the model gives no verdict for them.  For ACL data addressed to a CIS
   or BIS handle only the fact that the ISO work-around path is taken is modelled. *)
From Coq Require Import ZArith List Bool.
Import ListNotations.
Open Scope Z_scope.

Definition le16 (a b : Z) : Z := a + 256 * b.

Inductive hpkt :=
| HErr                                          (* from_bytes raised *)
| HAcl (handle pb bc : Z) (data : list Z)
| HSco (handle status : Z) (data : list Z)
| HIso (handle pb ts : Z) (sdu : list Z)
| HCustom                                       (* unknown packet type: HCI_CustomPacket *)
| HOpaque.                                      (* command / event: outside the model *)

Definition zlen (l : list Z) : Z := Z.of_nat (length l).

(* HCI_IsoDataPacket.from_bytes, [rest] = packet[1:] *)
Definition iso_from_bytes (rest : list Z) : hpkt :=
  match rest with
  | a :: b :: _ :: _ :: body =>
      let info := le16 a b in
      let handle := info mod 4096 in
      let pb := (info / 4096) mod 4 in
      let ts := (info / 16384) mod 2 in
      let with_sdu_info := (pb mod 2 =? 0) in
      let need := (if ts =? 1 then 4 else 0) + (if with_sdu_info then 4 else 0) in
      (* each optional header is checked separately, in order; both checks fail exactly
         when fewer than the bytes they need are left *)
      if (ts =? 1) && (zlen body <? 4) then HErr
      else if with_sdu_info && (zlen body <? need) then HErr
      else HIso handle pb ts (skipn (Z.to_nat need) body)
  | _ => HErr
  end.

(* HCI_Packet.from_bytes *)
Definition hci_from_bytes (packet : list Z) : hpkt :=
  match packet with
  | [] => HErr                                  (* packet[0]: IndexError *)
  | 1 :: _ => HOpaque
  | 4 :: _ => HOpaque
  | 2 :: rest =>
      match rest with
      | a :: b :: c :: d :: data =>
          let h := le16 a b in
          if zlen data =? le16 c d
          then HAcl (h mod 4096) ((h / 4096) mod 4) ((h / 16384) mod 4) data
          else HErr                             (* InvalidPacketError: invalid packet length *)
      | _ => HErr                               (* struct.error *)
      end
  | 3 :: rest =>
      match rest with
      | a :: b :: c :: data =>
          let h := le16 a b in
          if zlen data =? c then HSco (h mod 4096) ((h / 4096) mod 4) data else HErr
      | _ => HErr
      end
  | 5 :: rest => iso_from_bytes rest
  | _ => HCustom
  end.

Record host_state := mkHost {
  h_ready : bool;
  h_conns : list Z;            (* keys of Host.connections *)
  h_cis : list Z;              (* keys of Host.cis_links *)
  h_bis : list Z               (* keys of Host.bis_links *)
}.

Inductive host_out :=
| OParseError                  (* logged, packet dropped *)
| ONotReady                    (* reset not done: ignored *)
| OToAssembler (handle pb : Z) (data : list Z)   (* Connection.on_hci_acl_data_packet *)
| OIsoWorkaround (handle : Z)  (* ACL on a CIS/BIS handle *)
| ODropped                     (* ACL for an unknown handle: nothing happens *)
| OSco (handle : Z)            (* emit('sco_packet') *)
| OIso (handle : Z)            (* emit('iso_packet') *)
| OUnknownType                 (* warning *)
| OOpaque.                     (* command / event handling: outside the model *)

Definition mem (x : Z) (l : list Z) : bool := existsb (Z.eqb x) l.

(* Host.on_packet.  For a command/event packet the readiness test also looks at the event
   (Command Complete of HCI_Reset), which is part of the opaque side. *)
Definition host_on_packet (st : host_state) (packet : list Z) : host_state * list host_out :=
  match hci_from_bytes packet with
  | HErr => (st, [OParseError])
  | HOpaque => (st, [OOpaque])
  | p =>
      if negb (h_ready st) then (st, [ONotReady])
      else
        match p with
        | HAcl handle pb bc data =>
            if mem handle (h_conns st) then (st, [OToAssembler handle pb data])
            else if mem handle (h_cis st) || mem handle (h_bis st) then (st, [OIsoWorkaround handle])
            else (st, [ODropped])
        | HSco handle _ _ => (st, [OSco handle])
        | HIso handle _ _ _ => (st, [OIso handle])
        | _ => (st, [OUnknownType])
        end
  end.

Fixpoint host_run (st : host_state) (packets : list (list Z)) : host_state * list host_out :=
  match packets with
  | [] => (st, [])
  | p :: rest =>
      let '(st1, o1) := host_on_packet st p in
      let '(st2, o2) := host_run st1 rest in
      (st2, o1 ++ o2)
  end.
