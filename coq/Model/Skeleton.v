(* Reply-count semantics of handler control-flow skeletons and of the command dispatch of
   bumble/controller.py (Controller.on_hci_command_packet).  Executable Gallina, no proofs.

   A skeleton keeps only the reply-relevant effects of a Python function:
     Status    self._send_hci_command_status(_, command.op_code)
     Complete  self.send_hci_packet(hci.HCI_Command_Complete_Event(.., command_opcode=command.op_code, ..))
     ReturnV   return <return parameters object>      ReturnN   return / return None
     Raise     raise                                   Assert    assert (assumed to hold: no effect)
     Unknown   something the translator could not classify (treated as an escaping exception)
     CallH     result = handler(command)               (dispatch only)
     IfSync    if isinstance(command, hci.HCI_SyncCommand)
     IfResNone if result is None                       (dispatch only)
     If        any other test: both arms are possible
     Loop      for / while: any number of iterations

   A path is a stream of choices (list nat): [If] consumes one (0 = else arm), [Loop]
   consumes one (the number of iterations).  [run] gives the exact numbers of Command
   Status and Command Complete events sent along the path and how the function ended.
   [aouts] is the abstract counterpart: the set of (counts capped at 2, ending) reachable
   along SOME path, computed without enumerating paths. *)
From Coq Require Import ZArith List Bool.
Import ListNotations.

Inductive kind := KSync | KAsync | KNone.
Inductive term := Fall | RetV | RetN | Exc.

Inductive sk :=
| Nop | Assert | Status | Complete | ReturnV | ReturnN | Raise | Unknown | CallH
| Seq (a b : sk) | If (a b : sk) | IfSync (a b : sk) | IfResNone (a b : sk) | Loop (b : sk).

Record entry := mkEntry { e_opcode : Z; e_kind : kind; e_handler : option sk }.
Record ctrl_desc := mkCtrl { c_dispatch : sk; c_default : sk; c_table : list entry }.

(* events sent so far; whether the handler's result is None (true before the call) *)
Record st := mkSt { n_status : nat; n_complete : nat; res_none : bool }.
Definition st0 : st := mkSt 0 0 true.

Definition is_sync (k : kind) : bool := match k with KSync => true | _ => false end.
Definition hd_nat (p : list nat) : nat := match p with [] => 0%nat | x :: _ => x end.

Definition add_status (x : st) : st := mkSt (S (n_status x)) (n_complete x) (res_none x).
Definition add_complete (x : st) : st := mkSt (n_status x) (S (n_complete x)) (res_none x).
Definition set_res (x : st) (none : bool) : st := mkSt (n_status x) (n_complete x) none.

(* ---------------------------------------------------------------- concrete semantics *)
(* n iterations of a loop body f, stopping at the first iteration that does not fall through *)
Section LoopIter.
  Variable f : st -> list nat -> (st * term) * list nat.
  Fixpoint loop_iter (n : nat) (x : st) (p : list nat) {struct n} : (st * term) * list nat :=
    match n with
    | O => ((x, Fall), p)
    | S n' =>
        let '((x1, t), p1) := f x p in
        match t with Fall => loop_iter n' x1 p1 | _ => ((x1, t), p1) end
    end.
End LoopIter.

Section Run.
  Variable call : st -> list nat -> (st * term) * list nat.
  Variable k : kind.

  Fixpoint run (s : sk) (x : st) (p : list nat) {struct s} : (st * term) * list nat :=
    match s with
    | Nop | Assert => ((x, Fall), p)
    | Status => ((add_status x, Fall), p)
    | Complete => ((add_complete x, Fall), p)
    | ReturnV => ((x, RetV), p)
    | ReturnN => ((x, RetN), p)
    | Raise | Unknown => ((x, Exc), p)
    | CallH => call x p
    | Seq a b =>
        let '((x1, t), p1) := run a x p in
        match t with Fall => run b x1 p1 | _ => ((x1, t), p1) end
    | If a b =>
        match p with
        | [] => run b x []
        | c :: p' => match c with O => run b x p' | S _ => run a x p' end
        end
    | IfSync a b => if is_sync k then run a x p else run b x p
    | IfResNone a b => if res_none x then run a x p else run b x p
    | Loop b => loop_iter (run b) (hd_nat p) x (tl p)
    end.
End Run.

(* a handler cannot call the handler *)
Definition no_call (x : st) (p : list nat) : (st * term) * list nat := ((x, Exc), p).

Definition run_handler (k : kind) (h : sk) (x : st) (p : list nat) := run no_call k h x p.

(* result = handler(command): an exception propagates; otherwise the dispatch continues
   knowing whether the result is None (falling off the end returns None) *)
Definition call_handler (k : kind) (h : sk) (x : st) (p : list nat) : (st * term) * list nat :=
  let '((x1, t), p1) := run_handler k h x p in
  match t with
  | Exc => ((x1, Exc), p1)
  | RetV => ((set_res x1 false, Fall), p1)
  | RetN | Fall => ((set_res x1 true, Fall), p1)
  end.

Fixpoint lookup (t : list entry) (op : Z) : option entry :=
  match t with
  | [] => None
  | e :: t' => if Z.eqb (e_opcode e) op then Some e else lookup t' op
  end.

(* an opcode without a row has no class (generic HCI_Command) and no handler *)
Definition entry_of (c : ctrl_desc) (op : Z) : entry :=
  match lookup (c_table c) op with Some e => e | None => mkEntry op KNone None end.

Definition handler_of (c : ctrl_desc) (e : entry) : sk :=
  match e_handler e with Some h => h | None => c_default c end.

Definition run_entry (c : ctrl_desc) (e : entry) (p : list nat) : st * term :=
  fst (run (call_handler (e_kind e) (handler_of c e)) (e_kind e) (c_dispatch c) st0 p).

Definition run_dispatch (c : ctrl_desc) (op : Z) (p : list nat) : st * term :=
  run_entry c (entry_of c op) p.

Definition replies (x : st) : nat := (n_status x + n_complete x)%nat.

(* ---------------------------------------------------------------- abstract semantics *)
Definition cap (n : nat) : nat := match n with O => 0 | S O => 1 | _ => 2 end%nat.
Definition abs (x : st) : st := mkSt (cap (n_status x)) (cap (n_complete x)) (res_none x).
Definition aout := (st * term)%type.

Definition term_eqb (a b : term) : bool :=
  match a, b with Fall, Fall | RetV, RetV | RetN, RetN | Exc, Exc => true | _, _ => false end.
Definition st_eqb (a b : st) : bool :=
  Nat.eqb (n_status a) (n_status b) && Nat.eqb (n_complete a) (n_complete b) && Bool.eqb (res_none a) (res_none b).
Definition aout_eqb (a b : aout) : bool := st_eqb (fst a) (fst b) && term_eqb (snd a) (snd b).

Fixpoint mem {A} (eqb : A -> A -> bool) (a : A) (l : list A) : bool :=
  match l with [] => false | b :: l' => eqb a b || mem eqb a l' end.
Fixpoint dedup {A} (eqb : A -> A -> bool) (l : list A) : list A :=
  match l with
  | [] => []
  | a :: l' => if mem eqb a l' then dedup eqb l' else a :: dedup eqb l'
  end.

Definition is_fall (o : aout) : bool := term_eqb (snd o) Fall.

(* every abstract outcome *)
Definition all_sts : list st :=
  flat_map (fun a => flat_map (fun b => [mkSt a b true; mkSt a b false]) [0; 1; 2]%nat) [0; 1; 2]%nat.
Definition top : list aout :=
  flat_map (fun x => [(x, Fall); (x, RetV); (x, RetN); (x, Exc)]) all_sts.

(* loop heads reachable from the given ones by falling through the body once more *)
Definition step_heads (f : st -> list aout) (hs : list st) : list st :=
  dedup st_eqb (hs ++ flat_map (fun h => map fst (filter is_fall (f h))) hs).
Fixpoint iter_heads (n : nat) (f : st -> list aout) (hs : list st) : list st :=
  match n with O => hs | S n' => iter_heads n' f (step_heads f hs) end.
Definition closed (f : st -> list aout) (hs : list st) : bool :=
  forallb (fun h => forallb (fun o => negb (is_fall o) || mem st_eqb (fst o) hs) (f h)) hs.
Definition loop_outs (f : st -> list aout) (x : st) : list aout :=
  let hs := iter_heads 18 f [x] in
  if closed f hs then
    dedup aout_eqb (map (fun h => (h, Fall)) hs ++
                    flat_map (fun h => filter (fun o => negb (is_fall o)) (f h)) hs)
  else top.

Section ARun.
  Variable acall : st -> list aout.
  Variable k : kind.

  Fixpoint aouts (s : sk) (x : st) {struct s} : list aout :=
    match s with
    | Nop | Assert => [(x, Fall)]
    | Status => [(abs (add_status x), Fall)]
    | Complete => [(abs (add_complete x), Fall)]
    | ReturnV => [(x, RetV)]
    | ReturnN => [(x, RetN)]
    | Raise | Unknown => [(x, Exc)]
    | CallH => acall x
    | Seq a b =>
        dedup aout_eqb
          (flat_map (fun o => match snd o with Fall => aouts b (fst o) | _ => [o] end) (aouts a x))
    | If a b => dedup aout_eqb (aouts a x ++ aouts b x)
    | IfSync a b => if is_sync k then aouts a x else aouts b x
    | IfResNone a b => if res_none x then aouts a x else aouts b x
    | Loop b => loop_outs (aouts b) x
    end.
End ARun.

Definition a_no_call (x : st) : list aout := [(x, Exc)].

Definition a_call_handler (k : kind) (h : sk) (x : st) : list aout :=
  dedup aout_eqb
    (map (fun o => match snd o with
                   | Exc => (fst o, Exc)
                   | RetV => (set_res (fst o) false, Fall)
                   | RetN | Fall => (set_res (fst o) true, Fall)
                   end) (aouts a_no_call k h x)).

Definition aouts_entry (c : ctrl_desc) (e : entry) : list aout :=
  aouts (a_call_handler (e_kind e) (handler_of c e)) (e_kind e) (c_dispatch c) st0.

(* exactly one reply and no escaping exception *)
Definition ok_out (o : aout) : bool :=
  Nat.eqb (n_status (fst o) + n_complete (fst o)) 1 && negb (term_eqb (snd o) Exc).

Definition wf_entry (c : ctrl_desc) (e : entry) : bool := forallb ok_out (aouts_entry c e).

Definition wf_ctrl (c : ctrl_desc) : bool :=
  forallb (wf_entry c) (c_table c) && wf_entry c (mkEntry 0 KNone None).

(* for the harness: opcodes whose entry is not well formed, and the possible
   (status count, complete count, escaped) triples of every entry (counts capped at 2) *)
Definition bad_opcodes (c : ctrl_desc) : list Z :=
  map e_opcode (filter (fun e => negb (wf_entry c e)) (c_table c)).
Definition obs_of (o : aout) : (Z * Z) * bool :=
  ((Z.of_nat (n_status (fst o)), Z.of_nat (n_complete (fst o))), term_eqb (snd o) Exc).
Definition kind_code (k : kind) : Z := match k with KSync => 0 | KAsync => 1 | KNone => 2 end%Z.
Definition entry_obs (c : ctrl_desc) (e : entry) :=
  (e_opcode e, kind_code (e_kind e), match e_handler e with Some _ => true | None => false end,
   map obs_of (aouts_entry c e)).
Definition table_obs (c : ctrl_desc) := map (entry_obs c) (c_table c).
Definition unlisted_obs (c : ctrl_desc) := entry_obs c (mkEntry 0 KNone None).
