#!/usr/bin/env python3
"""Records the content hashes of each property's anchored source files at /repo HEAD into /verif/anchors.json
(the baseline against which a check decides to escalate its quick tier). Run after every fix: commit."""
import json, subprocess, sys
sys.path.insert(0, '/verif/tools')
from lib import verif
dirty = subprocess.run(['git', '-C', '/repo', 'status', '--porcelain', '--', 'bumble'], capture_output=True, text=True).stdout.strip()
if dirty:
    sys.exit('/repo has uncommitted changes under bumble/: refusing to record a baseline')
props = [json.loads(l)['id'] for l in open('/verif/properties.jsonl')]
out = {p: verif.anchor_hashes(p, '/repo') for p in props}
out['_repo_head'] = subprocess.run(['git', '-C', '/repo', 'rev-parse', 'HEAD'], capture_output=True, text=True).stdout.strip()
json.dump(out, open('/verif/anchors.json', 'w'), indent=1, sort_keys=True)
print('anchors.json written for', len(props), 'properties at', out['_repo_head'][:10])
