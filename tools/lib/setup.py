"""setup_cmd: run every translator, then build the whole Coq development (full .vo)."""
import glob, importlib, os, subprocess, sys
from lib import verif

def main():
    for path in sorted(glob.glob(os.path.join(verif.VERIF, 'tools', 'harness', 'c[0-9][0-9].py'))):
        name = os.path.basename(path)[:-3]
        mod = importlib.import_module('harness.' + name)
        if hasattr(mod, 'regen'):
            ctx = verif.Ctx(name.upper(), 'quick', 0)
            try:
                mod.regen(ctx)
                print('regen', name, 'ok')
            except Exception as e:
                print('regen', name, 'FAILED', repr(e))
    with verif._coq_lock():
        verif._coq_makefile()
        r = subprocess.run(['make', '-C', verif.COQ, '-j', os.environ.get('VERIF_JOBS', '16'), '-k'])
    # building is best effort here: every check rebuilds its own cone and reports
    return 0

if __name__ == '__main__':
    sys.exit(main())
