"""Shared machinery of the /verif checks (see DESIGN.md section 2).

A check is `./check Cxx [--tier quick|thorough] [--replay FILE]`.  It
  1. runs the property's translators (harness.regen) against the current /repo,
  2. builds the Coq cone of Props/Cxx.v (full .vo build) and collects Print Assumptions,
  3. scans the development for forbidden constructs,
  4. runs the harness: correspondence (model vs implementation on the same inputs)
     and the property oracle on the implementation,
  5. decides (see decide()) and writes evidence/Cxx.json.
"""
from __future__ import annotations

import fcntl
import hashlib
import importlib
import json
import os
import re
import subprocess
import sys
import time
import traceback
from concurrent.futures import ThreadPoolExecutor

VERIF = os.path.dirname(os.path.dirname(os.path.dirname(os.path.abspath(__file__))))
COQ = os.path.join(VERIF, 'coq')
BUILD = os.path.join(VERIF, 'build')
REPO = os.environ.get('BUMBLE_REPO', '/repo')
# evidence of runs against a scratch tree (seeded changes) must not overwrite the real evidence
EVIDENCE_DIR = os.path.join(VERIF, 'evidence') if os.path.realpath(REPO) == '/repo' else os.path.join(BUILD, 'alt-evidence')
COQFLAGS = ['-Q', COQ, 'BV', '-w',
            '-notation-overridden,-deprecated-hint-without-locality,-deprecated-instance-without-locality']

FORBIDDEN = re.compile(
    r'\b(Admitted|admit|Axiom|Axioms|Parameter|Parameters|Conjecture|Conjectures|'
    r'Admit Obligations|Unset Guard Checking|Unset Positivity Checking|'
    r'Unset Universe Checking|bypass_check|Guard Checking|type-in-type|impredicative-set)\b')

# axioms of the standard library a theorem may depend on (none is needed so far)
ALLOWED_AXIOMS: set[str] = set()


# --------------------------------------------------------------------------- PRNG
class Rng:
    """SplitMix64; every random choice of a check derives from one of these."""

    def __init__(self, seed: int):
        self.s = seed & 0xFFFFFFFFFFFFFFFF

    def next(self) -> int:
        self.s = (self.s + 0x9E3779B97F4A7C15) & 0xFFFFFFFFFFFFFFFF
        z = self.s
        z = ((z ^ (z >> 30)) * 0xBF58476D1CE4E5B9) & 0xFFFFFFFFFFFFFFFF
        z = ((z ^ (z >> 27)) * 0x94D049BB133111EB) & 0xFFFFFFFFFFFFFFFF
        return z ^ (z >> 31)

    def below(self, n: int) -> int:
        return self.next() % n if n > 0 else 0

    def range(self, lo: int, hi: int) -> int:
        """inclusive"""
        return lo + self.below(hi - lo + 1)

    def choice(self, xs):
        return xs[self.below(len(xs))]

    def chance(self, num: int, den: int) -> bool:
        return self.below(den) < num

    def bytes(self, n: int) -> bytes:
        return bytes(self.below(256) for _ in range(n))

    def shuffle(self, xs):
        xs = list(xs)
        for i in range(len(xs) - 1, 0, -1):
            j = self.below(i + 1)
            xs[i], xs[j] = xs[j], xs[i]
        return xs

    def fork(self, label: str) -> 'Rng':
        h = hashlib.sha256(f'{self.s}:{label}'.encode()).digest()
        return Rng(int.from_bytes(h[:8], 'big'))


# --------------------------------------------------------------------------- Coq term rendering / parsing
def coq_z(n: int) -> str:
    return str(n) if n >= 0 else f'({n})'


def coq_list(xs, f=None) -> str:
    f = f or coq_val
    return '[' + '; '.join(f(x) for x in xs) + ']'


def coq_bytes(b: bytes) -> str:
    return '[' + '; '.join(str(x) for x in b) + ']'


def coq_val(v) -> str:
    """Python value -> Coq term in Z_scope: int, bool, bytes, list, tuple, None/('Some', x), raw str."""
    if isinstance(v, bool):
        return 'true' if v else 'false'
    if isinstance(v, int):
        return coq_z(v)
    if isinstance(v, (bytes, bytearray)):
        return coq_bytes(bytes(v))
    if isinstance(v, list):
        return coq_list(v)
    if isinstance(v, tuple):
        return '(' + ', '.join(coq_val(x) for x in v) + ')'
    if v is None:
        return 'None'
    if isinstance(v, str):
        return v  # raw Coq text
    raise TypeError(f'coq_val: {type(v)}')


class _P:
    def __init__(self, s):
        self.s = s
        self.i = 0

    def ws(self):
        while self.i < len(self.s) and self.s[self.i].isspace():
            self.i += 1

    def peek(self):
        self.ws()
        return self.s[self.i] if self.i < len(self.s) else ''

    def atom(self):
        c = self.peek()
        if c == '[':
            self.i += 1
            out = []
            if self.peek() == ']':
                self.i += 1
                return out
            while True:
                out.append(self.term())
                c = self.peek()
                self.i += 1
                if c == ']':
                    return out
                if c != ';':
                    raise ValueError(f'list: unexpected {c!r} at {self.i} in {self.s[:200]!r}')
        if c == '(':
            self.i += 1
            items = [self.term()]
            while self.peek() == ',':
                self.i += 1
                items.append(self.term())
            if self.peek() != ')':
                raise ValueError(f'paren: unexpected {self.peek()!r} at {self.i}')
            self.i += 1
            self._scope()
            return items[0] if len(items) == 1 else tuple(items)
        if c == '"':
            j = self.i + 1
            buf = []
            while True:
                if self.s[j] == '"':
                    if j + 1 < len(self.s) and self.s[j + 1] == '"':
                        buf.append('"')
                        j += 2
                        continue
                    break
                buf.append(self.s[j])
                j += 1
            self.i = j + 1
            self._scope()
            return ('str', ''.join(buf))
        m = re.compile(r'-?\d+').match(self.s, self.i)
        if m:
            self.i = m.end()
            self._scope()
            return int(m.group())
        m = re.compile(r"[A-Za-z_][A-Za-z0-9_'.]*").match(self.s, self.i)
        if m:
            self.i = m.end()
            w = m.group()
            if w == 'true':
                return True
            if w == 'false':
                return False
            return w
        raise ValueError(f'atom: unexpected {c!r} at {self.i} in {self.s[max(0,self.i-40):self.i+40]!r}')

    def _scope(self):
        m = re.compile(r'%[A-Za-z_]+').match(self.s, self.i)
        if m:
            self.i = m.end()

    def term(self):
        head = self.atom()
        if isinstance(head, str):
            args = []
            while True:
                c = self.peek()
                if c == '' or c in ';,)]':
                    break
                args.append(self.atom())
            if head == 'None' and not args:
                return None
            if args:
                return (head, *args)
        return head


def parse_coq(s: str):
    p = _P(s)
    v = p.term()
    p.ws()
    if p.i != len(p.s):
        raise ValueError(f'trailing text at {p.i}: {p.s[p.i:p.i+60]!r}')
    return v


# --------------------------------------------------------------------------- anchored sources
def anchor_files(prop: str) -> list[str]:
    for l in open(os.path.join(VERIF, 'properties.jsonl')):
        p = json.loads(l)
        if p['id'] == prop:
            return sorted(p.get('anchors', {}).get('files', []))
    return []


def anchor_hashes(prop: str, repo: str) -> dict:
    out = {}
    for f in anchor_files(prop):
        path = os.path.join(repo, f)
        try:
            out[f] = hashlib.sha256(open(path, 'rb').read()).hexdigest()[:16]
        except OSError:
            out[f] = 'missing'
    return out


def anchors_changed(prop: str):
    """(escalate?, list of anchored files whose content differs from anchors.json)"""
    path = os.path.join(VERIF, 'anchors.json')
    if os.environ.get('VERIF_NO_ESCALATE') == '1' or not os.path.exists(path):
        return False, []
    base = json.load(open(path)).get(prop, {})
    now = anchor_hashes(prop, REPO)
    changed = sorted(f for f in now if base.get(f) != now[f])
    return bool(changed), changed


# --------------------------------------------------------------------------- context
class Ctx:
    def __init__(self, prop: str, tier: str, seed: int):
        self.prop = prop
        self.tier = tier
        self.seed = seed
        self.rng = Rng(seed).fork(prop)
        self.t0 = time.time()
        self.repo = REPO
        self.obligations: list[dict] = []      # proof obligations (theorems, generated wf checks)
        self.proof_failures: list[str] = []
        self.disagreements: list[dict] = []     # model vs implementation
        self.violations: list[dict] = []        # oracle failures on the implementation
        self.evaluations = 0
        self.distinct: set = set()
        self.samples: list = []
        self.dist: dict[str, int] = {}
        self.notes: list[str] = []
        self.assumptions: list[str] = []
        self.trusted: list[str] = []
        self.extra: dict = {}
        self.axioms: dict[str, list[str]] = {}
        self.rule = ''
        self.escalated, self.changed_anchors = anchors_changed(prop)
        if self.changed_anchors:
            self.extra['anchored_files_changed_since_baseline'] = self.changed_anchors

    # ---- bookkeeping helpers for harnesses
    def quick(self) -> bool:
        return self.tier == 'quick'

    def n(self, quick: int, thorough: int) -> int:
        """Case count for this tier.  In the quick tier, when the anchored source files of the property differ
        from the recorded baseline (anchors.json: someone edited the code this property is about), the count is
        escalated (x4, capped by the thorough count): more effort exactly when the modelled code has changed."""
        if self.tier != 'quick':
            return thorough
        if self.escalated:
            return max(quick, min(thorough, quick * 4))
        return quick

    def count(self, key: str, k: int = 1):
        self.dist[key] = self.dist.get(key, 0) + k

    def case(self, key, nontrivial: bool = True, sample=None):
        """Record one evaluated case; key identifies distinct cases."""
        self.evaluations += 1
        if nontrivial:
            self.distinct.add(hashlib.sha1(repr(key).encode()).hexdigest()[:16])
        if sample is not None and len(self.samples) < 5:
            self.samples.append(sample)

    def disagree(self, what: str, case, model, impl):
        self.disagreements.append({'what': what, 'case': case, 'model': _js(model), 'impl': _js(impl)})

    def violation(self, signature: str, what: str, replay):
        """The property oracle failed on the implementation for this input."""
        self.violations.append({'signature': signature, 'what': what, 'replay': replay})

    def log(self, *a):
        print(f'[{self.prop} {time.time()-self.t0:6.1f}s]', *a, file=sys.stderr, flush=True)

    # ---- Coq
    def write_gen(self, name: str, text: str):
        """Write coq/Gen/<name>.v only when its text changes (keeps make incremental)."""
        path = os.path.join(COQ, 'Gen', name + '.v')
        os.makedirs(os.path.dirname(path), exist_ok=True)
        old = None
        if os.path.exists(path):
            with open(path) as f:
                old = f.read()
        if old != text:
            tmp = path + f'.tmp{os.getpid()}'
            with open(tmp, 'w') as f:
                f.write(text)
            os.replace(tmp, path)
            self.extra.setdefault('gen_changed', []).append(name)
        self.extra.setdefault('gen_files', {})[name] = hashlib.sha1(text.encode()).hexdigest()[:12]

    def coq_build(self, prop_files: list[str], timeout: int = 1500) -> bool:
        """Build the cone of the given Props files; collect their theorems and axioms."""
        ok = True
        with _coq_lock():
            _coq_makefile()
            targets = [f[:-2] + '.vo' for f in prop_files]
            deps = _prop_deps(prop_files)
            r = _run(['make', '-C', COQ, '-j', str(_jobs())] + deps, timeout=timeout)
            if r.returncode != 0:
                ok = False
                msg = _tail(r.stdout + r.stderr, 40)
                self.proof_failures.append('coq build of dependencies failed:\n' + msg)
                self.log('BUILD FAILED\n' + msg)
            for pf in prop_files:
                thms = _theorem_names(os.path.join(COQ, pf))
                if not ok:
                    for t in thms:
                        self.obligations.append({'name': f'{pf}:{t}', 'ok': False})
                    continue
                r = _run(['coqc'] + COQFLAGS + [pf], cwd=COQ, timeout=timeout)
                out = r.stdout + r.stderr
                if r.returncode != 0:
                    ok = False
                    failing = _failing_theorem(os.path.join(COQ, pf), out)
                    self.proof_failures.append(f'{pf}: {failing or "?"} does not check:\n' + _tail(out, 30))
                    self.log(f'PROOF FAILED {pf} {failing}\n' + _tail(out, 30))
                    for t in thms:
                        self.obligations.append({'name': f'{pf}:{t}', 'ok': False if (failing is None or t == failing) else None})
                    continue
                ax = _parse_assumptions(out)
                if len(ax) != len(thms):
                    # every theorem must be followed by Print Assumptions
                    ok = False
                    self.proof_failures.append(
                        f'{pf}: {len(thms)} theorems but {len(ax)} Print Assumptions outputs')
                for t, a in zip(thms, ax):
                    bad = [x for x in a if x.split(' ')[0] not in ALLOWED_AXIOMS]
                    self.axioms[f'{pf}:{t}'] = a
                    self.obligations.append({'name': f'{pf}:{t}', 'ok': not bad})
                    if bad:
                        ok = False
                        self.proof_failures.append(f'{pf}:{t} depends on axioms {bad}')
        bad = scan_forbidden()
        if bad:
            ok = False
            self.proof_failures.append('forbidden constructs: ' + '; '.join(bad[:10]))
        if ok and self.tier == 'thorough' and os.environ.get('VERIF_NO_COQCHK') != '1':
            # independent re-check of the compiled files and everything they depend on
            for pf in prop_files:
                mod = 'BV.' + pf[:-2].replace('/', '.')
                r = _run(['coqchk', '-Q', COQ, 'BV', '-o', '-silent', mod], cwd=COQ, timeout=3000)
                out = r.stdout + r.stderr
                summary = out[out.find('CONTEXT SUMMARY'):] if 'CONTEXT SUMMARY' in out else _tail(out, 20)
                self.extra.setdefault('coqchk', {})[pf] = ' '.join(summary.split())[:2000]
                self.obligations.append({'name': f'coqchk {mod}', 'ok': r.returncode == 0})
                if r.returncode != 0:
                    ok = False
                    self.proof_failures.append(f'coqchk {mod} failed: ' + _tail(out, 10))
        return ok

    def coq_eval(self, requires: list[str], exprs: list[str], preamble: str = '',
                 shard: int = 400, timeout: int = 600) -> list:
        """Evaluate closed Coq expressions with vm_compute; returns parsed values
        (see parse_coq).  `requires` are module names under BV, e.g. 'Model.DataQueue'."""
        if not exprs:
            return []
        d = os.path.join(BUILD, 'cases', f'{self.prop}-{os.getpid()}')
        os.makedirs(d, exist_ok=True)
        # dependencies must be compiled
        deps = [m.replace('.', '/') + '.vo' for m in requires]
        if not _up_to_date(deps):
            with _coq_lock():
                _coq_makefile()
                r = _run(['make', '-C', COQ, '-j', str(_jobs())] + deps, timeout=1500)
                if r.returncode != 0:
                    raise RuntimeError('model does not compile:\n' + _tail(r.stdout + r.stderr, 30))
        head = ('From Coq Require Import ZArith List Bool String Ascii.\n'
                + ''.join(f'From BV Require Import {m}.\n' for m in requires)
                + 'Import ListNotations.\nOpen Scope Z_scope.\n'
                  'Set Printing Width 1000000.\nSet Printing Depth 1000000.\n' + preamble + '\n')
        shards = [exprs[i:i + shard] for i in range(0, len(exprs), shard)]
        self._eval_id = getattr(self, '_eval_id', 0) + 1

        def one(k):
            name = f'cases_{self._eval_id}_{k}'
            path = os.path.join(d, name + '.v')
            with open(path, 'w') as f:
                f.write(head)
                for e in shards[k]:
                    f.write(f'Eval vm_compute in ({e}).\n')
            r = _run(['coqc'] + COQFLAGS + ['-o', os.path.join(d, name + '.vo'), path], cwd=d, timeout=timeout,
                     big_stack=True)
            if r.returncode != 0:
                raise RuntimeError(f'coqc failed on {path}:\n' + _tail(r.stdout + r.stderr, 30))
            vals = _split_evals(r.stdout)
            if len(vals) != len(shards[k]):
                raise RuntimeError(f'{path}: expected {len(shards[k])} results, got {len(vals)}')
            for ext in ('.vo', '.glob', '.vok', '.vos', '.v'):
                try:
                    os.remove(os.path.join(d, name + ext))
                except OSError:
                    pass
            return [parse_coq(v) for v in vals]

        with ThreadPoolExecutor(max_workers=min(_jobs(), len(shards))) as ex:
            parts = list(ex.map(one, range(len(shards))))
        return [v for part in parts for v in part]


def _js(v):
    try:
        json.dumps(v)
        return v
    except TypeError:
        return repr(v)


def _jobs() -> int:
    return int(os.environ.get('VERIF_JOBS', '8'))


def _run(cmd, cwd=None, timeout=600, big_stack=False):
    if big_stack:
        cmd = ['bash', '-c', 'ulimit -s unlimited 2>/dev/null || ulimit -s 1000000 2>/dev/null; exec "$@"', '--'] + cmd
    try:
        return subprocess.run(cmd, cwd=cwd, capture_output=True, text=True, timeout=timeout)
    except subprocess.TimeoutExpired as e:
        return subprocess.CompletedProcess(cmd, 124, (e.stdout or b'').decode() if isinstance(e.stdout, bytes) else (e.stdout or ''),
                                           f'TIMEOUT after {timeout}s')


def _tail(s: str, n: int) -> str:
    return '\n'.join(s.strip().splitlines()[-n:])


class _coq_lock:
    def __enter__(self):
        os.makedirs(BUILD, exist_ok=True)
        self.f = open(os.path.join(BUILD, '.coq.lock'), 'w')
        fcntl.flock(self.f, fcntl.LOCK_EX)

    def __exit__(self, *a):
        fcntl.flock(self.f, fcntl.LOCK_UN)
        self.f.close()


def coq_sources() -> list[str]:
    out = []
    for sub in ('Base', 'Model', 'Gen', 'Proofs', 'Props'):
        for root, _, files in os.walk(os.path.join(COQ, sub)):
            for f in files:
                if f.endswith('.v') and not f.startswith('.'):
                    out.append(os.path.relpath(os.path.join(root, f), COQ))
    return sorted(out)


def _coq_makefile():
    srcs = coq_sources()
    stamp = os.path.join(COQ, '.files')
    text = '\n'.join(srcs)
    old = open(stamp).read() if os.path.exists(stamp) else None
    if old != text or not os.path.exists(os.path.join(COQ, 'Makefile')):
        r = _run(['coq_makefile', '-f', '_CoqProject', '-o', 'Makefile'] + srcs, cwd=COQ)
        if r.returncode != 0:
            raise RuntimeError('coq_makefile failed: ' + r.stderr)
        with open(stamp, 'w') as f:
            f.write(text)


def _up_to_date(targets) -> bool:
    """True when `make -q` says the targets need no rebuild (checked without taking the build lock)."""
    if not os.path.exists(os.path.join(COQ, 'Makefile')) or not os.path.exists(os.path.join(COQ, '.files')):
        return False
    if open(os.path.join(COQ, '.files')).read() != '\n'.join(coq_sources()):
        return False
    r = _run(['make', '-C', COQ, '-q'] + list(targets), timeout=300)
    return r.returncode == 0


def _prop_deps(prop_files):
    """The .vo files the Props files import (From BV Require Import lines, possibly multi-line)."""
    deps = []
    pat = re.compile(r"From\s+BV\s+Require\s+(?:Import|Export)\s+((?:[A-Za-z_][\w']*(?:\.[A-Za-z_][\w']*)*\s*)+)\.(?=\s|$)")
    for pf in prop_files:
        txt = _strip_comments(open(os.path.join(COQ, pf)).read())
        for m in pat.finditer(txt):
            for mod in m.group(1).split():
                deps.append(mod.replace('.', '/') + '.vo')
    if not deps:
        # never fall back to `make all`: build just the Props files (make resolves their dependencies)
        deps = [pf[:-2] + '.vo' for pf in prop_files]
    return sorted(set(deps))


def _theorem_names(path):
    txt = _strip_comments(open(path).read())
    return re.findall(r'^\s*(?:Theorem|Lemma|Corollary)\s+([A-Za-z_][A-Za-z0-9_\']*)', txt, flags=re.M)


def _strip_comments(txt):
    out = []
    depth = 0
    i = 0
    while i < len(txt):
        if txt.startswith('(*', i):
            depth += 1
            i += 2
        elif txt.startswith('*)', i) and depth:
            depth -= 1
            i += 2
        else:
            if depth == 0:
                out.append(txt[i])
            i += 1
    return ''.join(out)


def _failing_theorem(path, out):
    m = re.search(r'line (\d+), characters', out)
    if not m:
        return None
    line = int(m.group(1))
    last = None
    for i, l in enumerate(open(path).read().splitlines(), 1):
        mm = re.match(r'\s*(?:Theorem|Lemma|Corollary|Example)\s+([A-Za-z_][A-Za-z0-9_\']*)', l)
        if mm and i <= line:
            last = mm.group(1)
    return last


def _parse_assumptions(out: str) -> list[list[str]]:
    """One entry per Print Assumptions output: [] when closed, else the axiom lines."""
    res = []
    lines = out.splitlines()
    i = 0
    while i < len(lines):
        l = lines[i]
        if l.startswith('Closed under the global context'):
            res.append([])
        elif l.startswith('Axioms:'):
            ax = []
            i += 1
            while i < len(lines) and lines[i].strip() and not lines[i].startswith(('Closed under', 'Axioms:')):
                if not lines[i].startswith(' '):
                    ax.append(lines[i].strip())
                i += 1
            res.append(ax)
            continue
        i += 1
    return res


def _split_evals(out: str) -> list[str]:
    vals = []
    cur = None
    for l in out.splitlines():
        if l.startswith('     = '):
            if cur is not None:
                vals.append(cur)
            cur = l[7:]
        elif l.startswith('     : '):
            if cur is not None:
                vals.append(cur)
                cur = None
        elif cur is not None:
            cur += ' ' + l.strip()
    if cur is not None:
        vals.append(cur)
    return vals


def scan_forbidden() -> list[str]:
    bad = []
    for rel in coq_sources():
        txt = _strip_comments(open(os.path.join(COQ, rel)).read())
        for i, l in enumerate(txt.splitlines(), 1):
            if FORBIDDEN.search(l):
                bad.append(f'{rel}:{i}: {l.strip()[:80]}')
            if re.match(r'\s*(Variable|Variables|Hypothesis|Hypotheses|Context)\b', l):
                # allowed only inside a Section
                if not _inside_section(txt, i):
                    bad.append(f'{rel}:{i}: {l.strip()[:80]} (outside a Section)')
    proj = open(os.path.join(COQ, '_CoqProject')).read()
    if re.search(r'type-in-type|impredicative-set|-noinit', proj):
        bad.append('_CoqProject: forbidden flag')
    return bad


def _inside_section(txt, lineno):
    depth = 0
    for i, l in enumerate(txt.splitlines(), 1):
        if i >= lineno:
            break
        if re.match(r'\s*Section\s+\w+', l):
            depth += 1
        elif re.match(r'\s*End\s+\w+', l) and depth > 0:
            depth -= 1
    return depth > 0


# --------------------------------------------------------------------------- known findings
def load_findings(prop: str):
    """known_findings.json plus per-property fragments findings/Cxx.json"""
    import glob
    out = []
    paths = [os.path.join(VERIF, 'known_findings.json')] + sorted(glob.glob(os.path.join(VERIF, 'findings', '*.json')))
    seen = set()
    for path in paths:
        if not os.path.exists(path):
            continue
        with open(path) as f:
            data = json.load(f)
        for e in data.get('findings', []):
            key = (e.get('property'), e.get('id'))
            if e.get('property') == prop and key not in seen:
                seen.add(key)
                out.append(e)
    return out


# --------------------------------------------------------------------------- decision + evidence
def decide(ctx: Ctx, proof_ok: bool, level: str) -> int:
    findings = load_findings(ctx.prop)
    known = {e['signature']: e for e in findings if e.get('status') == 'known'}
    rc = 0
    lines = []
    seen_known = set()
    new_violations = []
    for v in ctx.violations:
        if v['signature'] in known:
            seen_known.add(v['signature'])
        else:
            new_violations.append(v)
    for sig in sorted(seen_known):
        e = known[sig]
        lines.append(f"KNOWN-FINDING: property={ctx.prop} {e['id']} {e['what']}")
    stale = [s for s in known if s not in seen_known]
    replay_dir = os.path.join(EVIDENCE_DIR, 'replays')
    reported = set()
    for v in new_violations:
        if v['signature'] in reported or len(reported) >= 3:
            continue
        reported.add(v['signature'])
        os.makedirs(replay_dir, exist_ok=True)
        h = hashlib.sha1(json.dumps(v, sort_keys=True, default=repr).encode()).hexdigest()[:10]
        path = os.path.join(replay_dir, f'{ctx.prop}-{h}.json')
        with open(path, 'w') as f:
            json.dump({'property': ctx.prop, 'kind': 'failing-input', **v}, f, indent=1, default=repr)
        lines.append(f"VIOLATION property={ctx.prop} replay={path}")
        print(f"  what: {v['what']}", file=sys.stderr)
        rc = 1
    if rc == 0 and (not proof_ok or ctx.disagreements):
        # the property is no longer shown to hold and the search found no failing input
        os.makedirs(replay_dir, exist_ok=True)
        body = {'property': ctx.prop, 'kind': 'no-failing-input-found',
                'proof_failures': ctx.proof_failures,
                'disagreements': ctx.disagreements[:5],
                'note': 'the named theorem(s) or correspondence no longer check; the directed search '
                        'over the implementation found no input on which the property oracle fails'}
        h = hashlib.sha1(json.dumps(body, sort_keys=True, default=repr).encode()).hexdigest()[:10]
        path = os.path.join(replay_dir, f'{ctx.prop}-{h}.json')
        with open(path, 'w') as f:
            json.dump(body, f, indent=1, default=repr)
        lines.append(f"VIOLATION property={ctx.prop} replay={path} no-failing-input-found")
        rc = 1
    write_evidence(ctx, proof_ok, level, rc, stale)
    for l in lines:
        print(l, flush=True)
    return rc


def write_evidence(ctx: Ctx, proof_ok: bool, level: str, rc: int, stale):
    obligations = len(ctx.obligations)
    discharged = sum(1 for o in ctx.obligations if o['ok'])
    cov = {
        'obligations': obligations,
        'discharged': discharged,
        'checker_cmd': f'make -C /verif/coq <cone of Props/{ctx.prop}.v> && coqc -Q /verif/coq BV Props/{ctx.prop}.v '
                       '(full .vo build, Coq 8.16.1 kernel; Print Assumptions under every theorem)',
        'trusted_base': sorted(set(ctx.trusted + [
            'Coq 8.16.1 kernel and vm_compute (no native_compute)',
            'axioms per theorem (Print Assumptions): ' + (
                'all closed under the global context' if all(not a for a in ctx.axioms.values())
                else json.dumps({k: v for k, v in ctx.axioms.items() if v})),
            'tools/lib/verif.py (driver, Coq output parser), tools/harness/%s.py (correspondence harness and '
            'property oracle), CPython 3.12 / asyncio' % ctx.prop.lower(),
        ])),
        'obligation_list': ctx.obligations,
        'evaluations': ctx.evaluations,
        'distinct_nontrivial': len(ctx.distinct),
        'rule': ctx.rule,
        'samples': ctx.samples[:5] or [o['name'] for o in ctx.obligations[:5]],
        'traces_validated_against_impl': ctx.evaluations,
        'disagreements': len(ctx.disagreements),
        'oracle_violations': len(ctx.violations),
        'input_distribution': dict(sorted(ctx.dist.items())),
        'proof_failures': ctx.proof_failures,
        'stale_known_findings': stale,
    }
    cov.update(ctx.extra)
    ev = {
        'property_id': ctx.prop,
        'tier': ctx.tier,
        'seed': ctx.seed,
        'level': level,
        'coverage': cov,
        'assumptions': ctx.assumptions,
        'wall_s': round(time.time() - ctx.t0, 2),
        'violations': 0 if rc == 0 else max(1, len(ctx.violations)),
        'notes': ctx.notes,
    }
    os.makedirs(EVIDENCE_DIR, exist_ok=True)
    path = os.path.join(EVIDENCE_DIR, ctx.prop + '.json')
    tmp = path + f'.tmp{os.getpid()}'
    with open(tmp, 'w') as f:
        json.dump(ev, f, indent=1, default=repr)
    os.replace(tmp, path)


# --------------------------------------------------------------------------- main
def main(argv=None):
    import argparse
    ap = argparse.ArgumentParser()
    ap.add_argument('prop')
    ap.add_argument('--tier', default=os.environ.get('VERIF_TIER', 'quick'), choices=['quick', 'thorough'])
    ap.add_argument('--replay')
    ap.add_argument('--regen-only', action='store_true')
    a = ap.parse_args(argv)
    seed = int(os.environ.get('VERIF_SEED', '20260923'))
    mod = importlib.import_module('harness.' + a.prop.lower())
    ctx = Ctx(a.prop, a.tier, seed)
    # two runs of the same property (e.g. one on /repo and one on a scratch tree) share coq/Gen/Cxx*.v and
    # the evidence files: never let them overlap
    os.makedirs(BUILD, exist_ok=True)
    _prop_lock = open(os.path.join(BUILD, f'.check-{a.prop}.lock'), 'w')
    fcntl.flock(_prop_lock, fcntl.LOCK_EX)
    ctx.t0 = time.time()
    if a.replay:
        with open(a.replay) as f:
            obj = json.load(f)
        return mod.replay(ctx, obj)
    if hasattr(mod, 'regen'):
        try:
            mod.regen(ctx)
        except Exception as e:  # fail closed: an unrecognised construct is a broken obligation
            ctx.proof_failures.append('translator failed: ' + ''.join(traceback.format_exception_only(type(e), e)).strip())
            ctx.obligations.append({'name': 'translator', 'ok': False})
            ctx.log('TRANSLATOR FAILED', traceback.format_exc())
    if a.regen_only:
        return 0
    proof_ok = not ctx.proof_failures
    try:
        if proof_ok:
            proof_ok = ctx.coq_build(mod.PROP_FILES)
        else:
            ctx.coq_build(mod.PROP_FILES)
            proof_ok = False
    except Exception as e:
        proof_ok = False
        ctx.proof_failures.append('build error: ' + repr(e))
    try:
        mod.run(ctx)
    except Exception as e:
        # a harness that cannot run means the correspondence is not established
        ctx.disagreements.append({'what': 'harness crashed', 'case': None, 'model': None,
                                  'impl': traceback.format_exc()[-2000:]})
        ctx.log('HARNESS CRASHED', traceback.format_exc())
    if (not proof_ok or ctx.disagreements) and not ctx.violations and hasattr(mod, 'search'):
        ctx.log('proof or correspondence broken: directed search for a failing input')
        try:
            mod.search(ctx)
        except Exception:
            ctx.log('search crashed', traceback.format_exc())
    level = getattr(mod, 'LEVEL', 'proof')
    if level not in ('exploration', 'fault_enumeration', 'model_checking', 'proof', 'translation_validation', 'other'):
        # harnesses may say 'partial': the level is still proof (theorems + tie), with the partial clauses named
        ctx.extra['partial'] = True
        level = 'proof'
    return decide(ctx, proof_ok, level)


if __name__ == '__main__':
    sys.exit(main())
