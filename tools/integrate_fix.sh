#!/bin/bash
# integrate_fix.sh Dxx [Dyy ...]: apply /verif/fixes/Dxx.patch to /repo, run the repository's test suite
# unedited, and commit it as its own "fix:" commit with /verif/fixes/Dxx.msg. Reverts on any failure.
for D in "$@"; do
  P=/verif/fixes/$D.patch; M=/verif/fixes/$D.msg
  [ -f "$P" ] && [ -f "$M" ] || { echo "$D: missing patch or msg"; continue; }
  head -1 "$M" | grep -q '^fix: ' || { echo "$D: message does not start with fix:"; continue; }
  git -C /repo diff --quiet || { echo "/repo dirty"; exit 2; }
  if git -C /repo log --format=%s | grep -qxF "$(head -1 $M)"; then echo "$D: already committed"; continue; fi
  git -C /repo apply --check "$P" 2>/dev/null || git -C /repo apply --check -3 "$P" 2>/dev/null || { echo "$D: does not apply"; continue; }
  git -C /repo apply "$P" || git -C /repo apply -3 "$P" || { git -C /repo checkout -- .; echo "$D: apply failed"; continue; }
  if git -C /repo diff --name-only | grep -q '^tests/'; then git -C /repo checkout -- .; echo "$D: touches tests"; continue; fi
  T=$(cd /repo && /venv/bin/python -m pytest -q -p no:cacheprovider --timeout=900 2>&1 | tail -1)
  case "$T" in
    *failed*|*error*) git -C /repo checkout -- .; echo "$D: TESTS FAIL: $T";;
    *passed*) git -C /repo add -A bumble && git -C /repo commit -q -F "$M" && echo "$D: committed $(git -C /repo rev-parse --short HEAD) ($T)";;
    *) git -C /repo checkout -- .; echo "$D: unclear test result: $T";;
  esac
done
python3 /verif/tools/mkanchors.py
