#!/usr/bin/env python3
"""Merges findings/Cxx.json into known_findings.json (the committed known-findings file), replacing
'fixes/Dxx.patch' references by the hash of the corresponding fix: commit in /repo."""
import glob, json, os, subprocess
V = '/verif'
log = subprocess.run(['git', '-C', '/repo', 'log', '--format=%h %s'], capture_output=True, text=True).stdout.splitlines()
by_subject = {l.split(' ', 1)[1]: l.split(' ', 1)[0] for l in log}
base = json.load(open(f'{V}/known_findings.json'))
own = [e for e in base['findings'] if e.get('property') == 'C04']
out = list(own)
missing = []
for p in sorted(glob.glob(f'{V}/findings/C*.json')):
    for e in json.load(open(p)).get('findings', []):
        e = dict(e)
        if e.get('status') == 'fixed':
            d = e['id'].split('/')[0]
            cands = [d] + [os.path.basename(str(e.get('commit', ''))).replace('.patch', '')]
            h = None
            for c in cands:
                mp = f'{V}/fixes/{c}.msg'
                if os.path.exists(mp):
                    subj = open(mp).readline().strip()
                    h = by_subject.get(subj)
                    if h:
                        break
            if h:
                e['patch'] = e.get('commit') if str(e.get('commit', '')).startswith('fixes/') else e.get('patch')
                e['commit'] = h
                e['what'] = e['what'].replace(str(e.get('patch')), h) if e.get('patch') else e['what']
            else:
                missing.append((e['property'], e['id'], e.get('commit')))
        out.append(e)
base['findings'] = out
json.dump(base, open(f'{V}/known_findings.json', 'w'), indent=1)
print(len(out), 'entries;', sum(1 for e in out if e['status'] == 'fixed'), 'fixed;', sum(1 for e in out if e['status'] == 'known'), 'known')
if missing:
    print('fixed entries without a commit in /repo:', missing)
