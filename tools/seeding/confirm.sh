#!/bin/bash
# confirm.sh <worktree> <seed-id> <property>: re-verify a seeded change independently, store it under
# /verif/seeded/<seed-id>/, run the property's quick check against it (applied to /repo, then undone),
# and remove the worktree.
set -u
WT="$1"; ID="$2"; PROP="$3"
OUT=/verif/seeded/$ID
cd "$WT" || exit 2
[ -f _seed/patch.diff ] || { echo "no patch"; exit 2; }
# make sure the worktree is in the patched state
git -C "$WT" checkout -q -- bumble; git -C "$WT" apply _seed/patch.diff || { echo "patch does not apply"; exit 2; }
T=$(cd "$WT" && PYTHONPATH="$WT" timeout 900 /venv/bin/python -m pytest -q -p no:cacheprovider --timeout=900 -x 2>&1 | tail -1)
echo "tests(patched): $T"
DP=$(cd "$WT" && PYTHONPATH="$WT" timeout 300 /venv/bin/python _seed/demo.py 2>&1 | tail -3); RP=$?
PYTHONPATH="$WT" timeout 300 /venv/bin/python _seed/demo.py >/dev/null 2>&1; RP=$?
git -C "$WT" checkout -q -- bumble
PYTHONPATH="$WT" timeout 300 /venv/bin/python _seed/demo.py >/dev/null 2>&1; RO=$?
echo "demo patched rc=$RP original rc=$RO"
case "$T" in *passed*) TOK=1;; *) TOK=0;; esac
case "$T" in *failed*|*error*) TOK=0;; esac
if [ "$TOK" != 1 ] || [ "$RP" = 0 ] || [ "$RO" != 0 ]; then echo "NOT CONFIRMED"; exit 1; fi
mkdir -p "$OUT"; cp _seed/patch.diff _seed/demo.py "$OUT/"; cp _seed/meta.json "$OUT/meta.agent.json"
# run the check against it: in the scratch worktree moved to /repo's HEAD (so that all fix: commits are
# present) with the patch applied, through BUMBLE_REPO (does not disturb /repo while builders work there)
cd /verif
git -C "$WT" checkout -q --detach "$(git -C /repo rev-parse HEAD)" || { echo "cannot move worktree"; exit 2; }
git -C "$WT" apply "$OUT/patch.diff" || { echo "patch does not apply to /repo HEAD"; exit 2; }
CH=$(BUMBLE_REPO="$WT" timeout 1200 ./check "$PROP" --tier quick 2>/dev/null | grep -E "^VIOLATION" | head -3)
echo "check: $CH"
/venv/bin/python - "$OUT" "$ID" "$PROP" "$T" "$RP" "$RO" "$CH" <<'PY'
import json, sys
out, sid, prop, tests, rp, ro, ch = sys.argv[1:8]
m = json.load(open(out + '/meta.agent.json'))
meta = {'id': sid, 'property': prop, 'breaks': m.get('clause', ''), 'summary': m.get('summary', ''),
        'needs': m.get('needs', ''),
        'ran': {'test_suite_with_patch': tests, 'demo_rc_with_patch': int(rp), 'demo_rc_original': int(ro),
                'commands': ['pytest -q -p no:cacheprovider --timeout=900 -x (in scratch worktree, patched)',
                             'PYTHONPATH=<worktree> /venv/bin/python demo.py (patched, then original)',
                             f'worktree at /repo HEAD + patch.diff; BUMBLE_REPO=<worktree> ./check {prop} --tier quick']},
        'detected_by_check': 'VIOLATION' in ch, 'check_output': ch}
json.dump(meta, open(out + '/meta.json', 'w'), indent=1)
import os; os.remove(out + '/meta.agent.json')
print('stored', out, 'detected' if meta['detected_by_check'] else 'MISSED')
PY
git -C /repo worktree remove --force "$WT"
