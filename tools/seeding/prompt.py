#!/usr/bin/env python3
"""Prints the prompt given to an independent 'seeded breakage' sub-agent: the property text and a scratch
worktree path only -- nothing from /verif."""
import json, sys
pid, wt = sys.argv[1], sys.argv[2]
hint = sys.argv[3] if len(sys.argv) > 3 else ''
for l in open('/verif/properties.jsonl'):
    p = json.loads(l)
    if p['id'] == pid:
        break
print(f"""You are testing how well a verification effort detects regressions in google/bumble (a Bluetooth host stack in pure Python). You have your own scratch git worktree of the repository at {wt} (work ONLY there; never touch /repo or /verif, never read anything under /verif). Python to use: `cd {wt} && PYTHONPATH={wt} /venv/bin/python ...`; test suite: `cd {wt} && PYTHONPATH={wt} /venv/bin/python -m pytest -q -p no:cacheprovider --timeout=900 -x` (takes about 20-30 s; make sure it imports bumble from your worktree, e.g. check `python -c "import bumble; print(bumble.__file__)"`).

Here is a semantic property that the code is supposed to satisfy (JSON):

{json.dumps(p, indent=1)}

Task: produce ONE realistic source change to the bumble package in your worktree (the kind of mistake a developer could make in a refactor, optimisation or feature addition - not sabotage that is obviously wrong at a glance) that BREAKS this property while the code still imports and the existing test suite still passes completely. The break must need something specific to manifest - a particular interleaving, a crash or fault at a particular point, a multi-step sequence of operations, an unusual input/boundary value, or two cooperating sites that each look fine alone - NOT something ordinary use would expose at once. {hint}

Deliver in {wt}/_seed/ :
 - patch.diff : `git -C {wt} diff -- bumble > {wt}/_seed/patch.diff` (changes to the bumble package only; tests unchanged)
 - demo.py : a small standalone program (run as `PYTHONPATH=<tree> /venv/bin/python demo.py`) that exits 0 and prints PASS on the ORIGINAL tree and exits 1 and prints FAIL (with the observed violation) on the patched tree; it must exercise real bumble classes and check the property's observable behaviour, deterministically (no wall-clock sleeps beyond what asyncio needs; no randomness without a fixed seed)
 - meta.json : {{"property": "{pid}", "summary": "...what was changed...", "needs": "...what is needed for the break to manifest...", "clause": "...which clause of the property it breaks..."}}
Verify yourself, and report the exact commands and outputs: (1) full test suite passes with the patch; (2) demo FAILs with the patch; (3) revert the patch with `git apply -R _seed/patch.diff` (NEVER use `git stash`: the stash is shared with other worktrees of the same repository and other agents are working in them) -> demo PASSes on the original; then re-apply the patch with `git apply _seed/patch.diff` so that the worktree ends in the patched state. Keep the change small (a few lines). Your final message: the summary, the needs, and the verification outputs.""")
