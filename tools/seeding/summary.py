#!/usr/bin/env python3
"""Regenerates /verif/seeded/README.md from seeded/*/meta.json."""
import glob, json, os
rows = []
for p in sorted(glob.glob('/verif/seeded/*/meta.json')):
    m = json.load(open(p))
    rows.append(m)
with open('/verif/seeded/README.md', 'w') as f:
    f.write('# Seeded changes\n\nEach directory holds `patch.diff` (the change to google/bumble), `demo.py` (fails with the change, '
            'passes without) and `meta.json` (what it needs to manifest, what was run).\n\n'
            '| id | property | detected by the quick check | what was changed | needs |\n|---|---|---|---|---|\n')
    for m in rows:
        f.write(f"| {m['id']} | {m['property']} | {'yes' if m.get('detected_by_check') else 'NO'}"
                f"{' (' + m['detected_note'] + ')' if m.get('detected_note') else ''} | "
                f"{m.get('summary','').replace('|','/').replace(chr(10),' ')[:300]} | {m.get('needs','').replace('|','/').replace(chr(10),' ')[:300]} |\n")
print(len(rows), 'seeded changes;', sum(1 for m in rows if m.get('detected_by_check')), 'detected')
