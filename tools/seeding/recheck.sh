#!/bin/bash
# recheck.sh <seed-id> <property> [note]: run the property's quick check against /repo HEAD + seeded/<id>/patch.diff
# (in a scratch worktree, through BUMBLE_REPO) and update seeded/<id>/meta.json.
ID="$1"; PROP="$2"; NOTE="${3:-}"
WT=/tmp/seed/re-$ID
rm -rf "$WT"; git -C /repo worktree prune
git -C /repo worktree add -q --detach "$WT" HEAD || exit 2
if ! git -C "$WT" apply /verif/seeded/$ID/patch.diff 2>/dev/null && ! git -C "$WT" apply -3 /verif/seeded/$ID/patch.diff 2>/dev/null; then
  echo "$ID: patch does not apply to HEAD any more"; git -C /repo worktree remove --force "$WT"; exit 3
fi
D=$(PYTHONPATH="$WT" timeout 300 /venv/bin/python /verif/seeded/$ID/demo.py >/dev/null 2>&1; echo $?)
cd /verif
CH=$(BUMBLE_REPO="$WT" timeout 1500 ./check "$PROP" --tier quick 2>/dev/null | grep -E "^VIOLATION" | head -3)
git -C /repo worktree remove --force "$WT"
/venv/bin/python - "$ID" "$CH" "$NOTE" "$D" <<'PY'
import json, sys
sid, ch, note, d = sys.argv[1:5]
p = f'/verif/seeded/{sid}/meta.json'
m = json.load(open(p))
was = m.get('detected_by_check')
m['detected_by_check'] = 'VIOLATION' in ch
m['check_output'] = ch
m.setdefault('history', []).append({'detected': m['detected_by_check'], 'demo_rc_at_head': int(d), 'note': note})
if note:
    m['detected_note'] = note
json.dump(m, open(p, 'w'), indent=1)
print(sid, 'demo rc at HEAD', d, '| was', was, '-> now', m['detected_by_check'])
PY
