#!/bin/bash
# revert_fix.sh <commit> <property> <finding-id>: does the property's check report the violation again when one repaired
# defect returns?  Builds a scratch worktree of /repo HEAD with that single `fix:` commit reverted, runs the quick check
# through BUMBLE_REPO, prints one JSON line, removes the worktree.  Never touches /repo's working tree.
C="$1"; PROP="$2"; ID="$3"
WT=/tmp/seed/rv-$ID
rm -rf "$WT"; git -C /repo worktree prune
git -C /repo worktree add -q --detach "$WT" HEAD || exit 2
if ! git -C "$WT" revert --no-commit "$C" >/dev/null 2>&1; then
  git -C "$WT" revert --abort >/dev/null 2>&1
  git -C /repo worktree remove --force "$WT"
  echo "{\"id\": \"$ID\", \"property\": \"$PROP\", \"commit\": \"$C\", \"result\": \"revert-conflicts\"}"
  exit 0
fi
cd /verif
OUT=$(BUMBLE_REPO="$WT" timeout 1500 ./check "$PROP" --tier quick 2>/dev/null)
RC=$?
V=$(echo "$OUT" | grep -c "^VIOLATION")
NF=$(echo "$OUT" | grep "^VIOLATION" | grep -c "no-failing-input-found")
K=$(echo "$OUT" | grep -c "^KNOWN-FINDING")
git -C /repo worktree remove --force "$WT"
if [ "$V" -gt 0 ] && [ "$NF" -lt "$V" ]; then R=violation-with-replay; elif [ "$V" -gt 0 ]; then R=violation-no-failing-input; else R=MISSED; fi
echo "{\"id\": \"$ID\", \"property\": \"$PROP\", \"commit\": \"$C\", \"rc\": $RC, \"violations\": $V, \"result\": \"$R\"}"
