#!/usr/bin/env python3
"""Writes /verif/MANIFEST.json from tools/manifest_entries.json (one entry per claimed property)."""
import json, os
HERE = os.path.dirname(os.path.abspath(__file__))
VERIF = os.path.dirname(HERE)
entries = json.load(open(os.path.join(HERE, 'manifest_entries.json')))
import glob
for path in sorted(glob.glob(os.path.join(HERE, 'manifest.d', 'C*.json'))):
    pid = os.path.basename(path)[:-5]
    entries['claimed'][pid] = json.load(open(path))
props = [json.loads(l)['id'] for l in open(os.path.join(VERIF, 'properties.jsonl'))]
checks = []
for pid in props:
    e = entries['claimed'].get(pid)
    if not e:
        continue
    checks.append({
        'property_id': pid,
        'quick_cmd': f'./check {pid} --tier quick',
        'thorough_cmd': f'./check {pid} --tier thorough',
        'evidence_file': f'/verif/evidence/{pid}.json',
        'replay_cmd_template': f'./check {pid} --replay {{path}}',
        'engine': 'coq-proof+correspondence',
        'level_claimed': {'category': e.get('category', 'proof'), 'text': e['text'], 'design_ref': e.get('design_ref', f'DESIGN.md section 5 {pid}')},
        'level_note': e['note'],
        'technique': e['technique'],
    })
na = [{'property_id': pid, 'reason': entries['not_applicable'].get(pid, 'check not built yet; no claim is made for this property')}
      for pid in props if pid not in entries['claimed']]
m = {
    'version': 1,
    'setup_cmd': './check --setup',
    'hooks': {
        'guard': 'BUMBLE_VERIF',
        'enable': 'every check exports BUMBLE_VERIF=1; no hook exists in /repo today (observation is done from outside by wrapping sinks)',
        'baseline_off_cmd': 'cd /repo && /venv/bin/python -m pytest -ra -q -p no:cacheprovider --timeout=900 --continue-on-collection-errors',
        'source_commits': [],
        'add_only': True,
    },
    'engines': [{
        'name': 'coq-proof+correspondence', 'path': '/verif/check',
        'serves_properties': [c['property_id'] for c in checks],
        'kind_free_text': 'Coq 8.16 theorems over executable Gallina models (coq/Model, coq/Proofs, coq/Props), tied to /repo on every run '
                          'by translators (coq/Gen regenerated from the source) and by differential execution of the model (vm_compute) '
                          'against the Python implementation on generated inputs; a property oracle on the implementation supplies replays',
    }],
    'checks': checks,
    'notes': entries.get('notes', ''),
    'not_applicable': na,
}
json.dump(m, open(os.path.join(VERIF, 'MANIFEST.json'), 'w'), indent=1)
print('claimed', [c['property_id'] for c in checks])
