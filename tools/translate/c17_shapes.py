"""C17 translator, part 2: the SHAPE of the loops and guards that the hand-written models
copy, read from the AST of the anchored functions.  Each extractor recognises exactly the
construct the model was written from and emits its constants (bounds, comparison operators,
progress terms, which branch spends a credit ...) as Coq definitions; Props/C17.v states a
`..._matches_source` theorem per loop.  Anything an extractor does not recognise raises
(fail closed), so that an edit to the shape of a modelled loop - a removed progress step, a
changed bound, a dropped guard - breaks an obligation even when no generated input exercises it."""
import ast
import inspect
import re
import textwrap

CMP = {ast.Lt: 1, ast.LtE: 2, ast.Gt: 3, ast.GtE: 4, ast.Eq: 5, ast.NotEq: 6}


def fn_ast(obj):
    src = textwrap.dedent(inspect.getsource(obj))
    return ast.parse(src).body[0]


def u(node):
    return ast.unparse(node)


def find(node, typ, pred=lambda n: True, what=''):
    hits = [n for n in ast.walk(node) if isinstance(n, typ) and pred(n)]
    if len(hits) != 1:
        raise ValueError(f'c17_shapes: expected exactly one {what or typ.__name__}, found {len(hits)}')
    return hits[0]


def must(m, what):
    if not m:
        raise ValueError(f'c17_shapes: unrecognised shape: {what}')
    return m


def cmp_of(test, what):
    if not (isinstance(test, ast.Compare) and len(test.ops) == 1 and type(test.ops[0]) in CMP):
        raise ValueError(f'c17_shapes: unrecognised comparison in {what}: {u(test)}')
    return CMP[type(test.ops[0])], u(test.left), u(test.comparators[0])


def has_raise(nodes):
    return int(any(isinstance(n, ast.Raise) for b in nodes for n in ast.walk(b)))


def zl(xs):
    return '[' + '; '.join(str(int(x)) if int(x) >= 0 else f'({int(x)})' for x in xs) + ']'


def options_loop():
    """l2cap.L2CAP_Control_Frame.decode_configuration_options"""
    from bumble import l2cap
    f = fn_ast(l2cap.L2CAP_Control_Frame.decode_configuration_options)
    w = find(f, ast.While, what='while loop in decode_configuration_options')
    op, left, right = cmp_of(w.test, 'options loop guard')
    must(left == 'len(data)', 'options guard is on len(data)')
    body = {u(t): u(s.value) for s in w.body if isinstance(s, ast.Assign) for t in s.targets}
    ti = must(re.fullmatch(r'data\[(\d+)\]', body.get('value_type', '')), 'value_type = data[k]').group(1)
    li = must(re.fullmatch(r'data\[(\d+)\]', body.get('length', '')), 'length = data[k]').group(1)
    v = must(re.fullmatch(r'data\[(\d+):(\d+) \+ length\]', body.get('value', '')), 'value = data[a:b + length]')
    adv = must(re.fullmatch(r'data\[(\d+) \+ length:\]', body.get('data', '')), 'data = data[k + length:]').group(1)
    return [op, int(right), int(ti), int(li), int(v.group(1)), int(v.group(2)), int(adv)]


def sdp_list_loop():
    """sdp.DataElementParser._list_from_bytes"""
    from bumble import sdp
    f = fn_ast(sdp.DataElementParser._list_from_bytes)
    first = f.body[0]
    must(isinstance(first, ast.If), 'nesting check is the first statement')
    dop, dl, dr = cmp_of(first.test, 'nesting check')
    must((dl, dr) == ('self.depth', 'self.max_depth'), 'nesting check compares self.depth with self.max_depth')
    inc = [s for s in f.body if isinstance(s, ast.AugAssign) and u(s.target) == 'self.depth']
    must(len(inc) == 2 and isinstance(inc[0].op, ast.Add) and isinstance(inc[1].op, ast.Sub)
         and u(inc[0].value) == '1' and u(inc[1].value) == '1', 'depth += 1 ... depth -= 1')
    w = find(f, ast.While, what='while loop in _list_from_bytes')
    lop, ll, lr = cmp_of(w.test, 'list loop guard')
    must((ll, lr) == ('self.offset', 'end_offset'), 'list loop compares self.offset with end_offset')
    must('self.parse_next()' in u(w.body[0]), 'first statement of the loop body parses an element')
    over = [s for s in w.body if isinstance(s, ast.If)]
    must(len(over) == 1, 'one overrun check in the loop body')
    oop, ol, orr = cmp_of(over[0].test, 'overrun check')
    must((ol, orr) == ('self.offset', 'end_offset'), 'overrun check compares self.offset with end_offset')
    return [dop, has_raise(first.body), lop, oop, has_raise(over[0].body)]


def sdp_size_forms():
    """sdp.DataElementParser.parse_next: the size-descriptor match and the offset bookkeeping"""
    from bumble import sdp
    f = fn_ast(sdp.DataElementParser.parse_next)
    guard = f.body[0]
    must(isinstance(guard, ast.If) and has_raise(guard.body), 'offset check is the first statement')
    gop, gl, gr = cmp_of(guard.test, 'offset check')
    must((gl, gr) == ('self.offset', 'len(self.data)'), 'offset check compares self.offset with len(self.data)')
    m = [n for n in ast.walk(f) if isinstance(n, ast.Match) and u(n.subject) == 'size_index']
    must(len(m) == 1, 'match size_index')
    fmt_size = {'>H': 2, '>I': 4}
    rows = []
    for case in m[0].cases:
        if isinstance(case.pattern, ast.MatchValue):
            idx = int(u(case.pattern.value))
        elif isinstance(case.pattern, ast.MatchAs) and case.pattern.pattern is None:
            continue                                   # case _: unreachable
        else:
            raise ValueError(f'c17_shapes: unrecognised size_index case {u(case.pattern)}')
        text = '\n'.join(u(s) for s in case.body)
        if idx == 0:
            mm = must(re.fullmatch(r'if element_type == DataElement\.NIL:\n\s+value_size = (\d+)\nelse:\n\s+value_size = (\d+)', text), 'size_index 0')
            rows.append((0, int(mm.group(2)), 0, int(mm.group(1))))
            continue
        mm = re.fullmatch(r'value_size = (\d+)', text)
        if mm:
            rows.append((idx, int(mm.group(1)), 0, -1))
            continue
        mm = re.fullmatch(r'value_size = self\.data\[self\.offset\]\nself\.offset \+= (\d+)', text)
        if mm:
            rows.append((idx, -1, int(mm.group(1)), -1))
            continue
        mm = must(re.fullmatch(r"value_size = struct\.unpack_from\('(>[HI])', self\.data, self\.offset\)\[0\]\nself\.offset \+= (\d+)", text), f'size_index {idx}')
        must(fmt_size[mm.group(1)] == int(mm.group(2)), f'size_index {idx}: offset advance equals the field width')
        rows.append((idx, -1, int(mm.group(2)), -1))
    tail = [u(s) for s in f.body[-3:]]
    must(tail[0] == 'self.offset = value_end', 'parse_next ends by moving the offset to value_end')
    return gop, rows


def at_specials():
    """at.tokenize_parameters: the characters with a meaning outside quotes"""
    from bumble import at
    f = fn_ast(at.tokenize_parameters)
    m = [n for n in ast.walk(f) if isinstance(n, ast.Match) and u(n.subject) == 'char']
    must(len(m) == 1, 'match char')
    rows = []
    for case in m[0].cases:
        pats = case.pattern.patterns if isinstance(case.pattern, ast.MatchOr) else [case.pattern]
        if isinstance(pats[0], ast.MatchAs):
            continue
        text = '\n'.join(u(s) for s in case.body)
        if text == 'pass':
            kind = 0
        elif 'tokens.append(token)' in text and 'tokens.append(char)' in text:
            kind = 1
        elif has_raise(case.body) and 'in_quotes = True' in text:
            kind = 3
        elif has_raise(case.body) and 'tokens.append(char)' in text:
            kind = 2
        else:
            raise ValueError(f'c17_shapes: unrecognised tokenizer case body: {text}')
        for p in pats:
            must(isinstance(p, ast.MatchValue) and isinstance(p.value, ast.Constant) and len(p.value.value) == 1, 'single-byte pattern')
            rows.append((p.value.value[0], kind))
    loop = find(f, ast.For, lambda n: u(n.iter) == 'buffer', 'for b in buffer')
    must(u(loop.target) == 'b', 'for b in buffer')
    return rows


def process_tx_shape():
    """rfcomm.DLC.process_tx: which branch spends a tx credit"""
    from bumble import rfcomm
    f = fn_ast(rfcomm.DLC.process_tx)
    w = find(f, ast.While, what='while loop in process_tx')
    must(u(w.test) == 'self.tx_buffer and self.tx_credits > 0 or rx_credits_needed > 0', 'process_tx loop condition')
    top = [s for s in w.body if isinstance(s, ast.If) and u(s.test) == 'rx_credits_needed > 0']
    must(len(top) == 1, 'if rx_credits_needed > 0: ... else: ...')
    inner = [s for s in top[0].body if isinstance(s, ast.If)]
    must(len(inner) == 1 and u(inner[0].test) == 'self.tx_buffer and self.tx_credits > 0', 'credit frame carries data only with a credit')

    def spent_in(stmts, what):
        vals = [u(s.value) for s in stmts if isinstance(s, ast.Assign) and u(s.targets[0]) == 'tx_credit_spent']
        must(len(vals) == 1 and vals[0] in ('True', 'False'), f'tx_credit_spent assigned once in the {what} branch')
        return int(vals[0] == 'True')
    spent = [spent_in(inner[0].body, 'credit+data'), spent_in(inner[0].orelse, 'credit only'), spent_in(top[0].orelse, 'data')]
    dec = [s for s in ast.walk(w) if isinstance(s, ast.If) and u(s.test) == 'tx_credit_spent']
    must(len(dec) == 1 and u(dec[0].body[0]) == 'self.tx_credits -= 1', 'if tx_credit_spent: self.tx_credits -= 1')
    reset = [s for s in w.body if isinstance(s, ast.Assign) and u(s.targets[0]) == 'rx_credits_needed']
    must(len(reset) == 1 and u(reset[0].value) == '0', 'rx_credits_needed = 0 at the end of the body')
    return spent


def credit_based_validation():
    """l2cap: MTU / MPS of a credit-based connection request or response are validated"""
    from bumble import l2cap
    out = [l2cap.L2CAP_LE_CREDIT_BASED_CONNECTION_MIN_MTU, l2cap.L2CAP_LE_CREDIT_BASED_CONNECTION_MIN_MPS]
    for fn in (l2cap.ChannelManager.on_l2cap_le_credit_based_connection_request,
               l2cap.ChannelManager.on_l2cap_credit_based_connection_request):
        src = u(fn_ast(fn))
        out.append(int('request.mtu < L2CAP_LE_CREDIT_BASED_CONNECTION_MIN_MTU' in src
                       and 'request.mps < L2CAP_LE_CREDIT_BASED_CONNECTION_MIN_MPS' in src))
    for fn in (l2cap.LeCreditBasedChannel.on_connection_response, l2cap.ChannelManager.on_l2cap_credit_based_connection_response):
        out.append(int('_credit_based_parameters_acceptable(response.mtu, response.mps)' in u(fn_ast(fn))))
    return out


def coc_output_loop():
    """l2cap.LeCreditBasedChannel.process_output: loop guard, slice by peer_mps, one credit per PDU"""
    from bumble import l2cap
    f = fn_ast(l2cap.LeCreditBasedChannel.process_output)
    w = f.body[0]
    must(isinstance(w, ast.While), 'process_output is one while loop')
    op, left, right = cmp_of(w.test, 'process_output loop guard')
    must(left == 'self.credits', 'process_output loops on self.credits')
    first = w.body[0]
    must(isinstance(first, ast.If) and u(first.test) == 'self.out_sdu is not None', 'finish the current SDU first')
    text = [u(x) for x in first.body]
    must(text[0] == 'packet = self.out_sdu[:self.peer_mps]' and text[1] == 'self.send_pdu(packet)', 'one PDU of at most peer_mps bytes')
    dec = [t for t in text if t == 'self.credits -= 1']
    return [op, int(right), len(dec), int(isinstance(first.body[-1], ast.Continue))]


def rfcomm_pn_validation():
    """rfcomm.Multiplexer.on_mcc_pn validates the negotiated frame size on both branches"""
    from bumble import rfcomm
    src = u(fn_ast(rfcomm.Multiplexer.on_mcc_pn))
    chk = u(fn_ast(rfcomm.Multiplexer.acceptable_frame_size)) if hasattr(rfcomm.Multiplexer, 'acceptable_frame_size') else ''
    ok = int('max_frame_size <= RFCOMM_MAX_FRAME_SIZE' in chk
             and 'min(max_frame_size, self.l2cap_channel.peer_mtu - 5) >= RFCOMM_MIN_FRAME_SIZE' in chk)
    return [getattr(rfcomm, 'RFCOMM_MIN_FRAME_SIZE', 0), getattr(rfcomm, 'RFCOMM_MAX_FRAME_SIZE', 0), ok,
            src.count('self.acceptable_frame_size(pn.max_frame_size)')]


def transport_reject_shape():
    """transport/common.py: PacketParser.feed_data resets before it raises for an unknown packet
    type; StreamPacketSource.data_received and the pump of PumpedPacketSource catch the
    InvalidPacketError and go on with the next chunk."""
    from bumble.transport import common
    f = fn_ast(common.PacketParser.feed_data)
    blk = find(f, ast.If, lambda n: u(n.test) == 'self.packet_info is None', 'if self.packet_info is None')
    body = blk.body
    first_is_reset = int(len(body) >= 1 and u(body[0]) == 'self.reset()')
    raises = int(len(body) >= 2 and isinstance(body[-1], ast.Raise) and 'InvalidPacketError' in u(body[-1]))
    w = find(f, ast.While, what='while loop in feed_data')
    must(u(w.test) == 'data_left and self.bytes_needed', 'feed_data loop condition')

    def catches(fn, what):
        tries = [t for t in ast.walk(fn_ast(fn)) if isinstance(t, ast.Try)
                 and any('self.parser.feed_data(' in u(x) for x in t.body)]
        for t in tries:
            for h in t.handlers:
                if h.type is not None and u(h.type) == 'core.InvalidPacketError':
                    ends = any(isinstance(n, (ast.Break, ast.Raise, ast.Return)) for b in h.body for n in ast.walk(b))
                    return int(not ends)
        return 0
    return [first_is_reset, raises, len(body), catches(common.StreamPacketSource.data_received, 'stream'),
            catches(common.PumpedPacketSource.start, 'pump')]


def transport_packet_info():
    from bumble.transport import common
    width = {'B': 1, 'H': 2}
    rows = []
    for ty in sorted(common.HCI_PACKET_INFO):
        ls, lo, fmt = common.HCI_PACKET_INFO[ty]
        must(fmt in width, f'HCI_PACKET_INFO[{ty}] unpack format {fmt!r}')
        rows.append(f'({int(ty)}, Framer.mkInfo {int(ls)} {int(lo)} {width[fmt]})')
    return '[' + '; '.join(rows) + ']'


def avdtp_channel_close_shape():
    """avdtp.Stream.on_l2cap_channel_close forgets the transport channel on EVERY close (the
    first statements, outside any branch), goes IDLE when CLOSING / ABORTING; on_close_command
    and on_abort_command decide "done now" by testing that the channel is already gone."""
    from bumble import avdtp
    f = fn_ast(avdtp.Stream.on_l2cap_channel_close)
    top = [u(x) for x in f.body if not isinstance(x, ast.If)]
    clears_always = int('self.rtp_channel = None' in top)
    branch = [x for x in f.body if isinstance(x, ast.If)]
    must(len(branch) == 1 and u(branch[0].test) == 'self.state in (State.CLOSING, State.ABORTING)', 'state test in on_l2cap_channel_close')
    goes_idle = int('self.change_state(State.IDLE)' in [u(x) for x in branch[0].body])
    nested_clear = int(any('self.rtp_channel = None' == u(x) for b in branch for x in ast.walk(b) if isinstance(x, ast.Assign)))
    tests = []
    for fn in (avdtp.Stream.on_close_command, avdtp.Stream.on_abort_command):
        g = fn_ast(fn)
        ifs = [x for x in ast.walk(g) if isinstance(x, ast.If) and u(x.test) == 'self.rtp_channel is None']
        tests.append(int(len(ifs) == 1 and 'self.change_state(State.IDLE)' in [u(y) for y in ifs[0].body]))
    return [clears_always, nested_clear, goes_idle] + tests


def att_item_loops():
    """att: the __post_init__ loops of the four response classes -> (op, guard, header, stride)
    with 0 standing for 'the length byte of the PDU' and -n for 'n + uuid_size'."""
    from bumble import att
    rows = []
    hdr = {"'<H'": 2, "'<HH'": 4}
    for cls in (att.ATT_Find_Information_Response, att.ATT_Find_By_Type_Value_Response,
                att.ATT_Read_By_Type_Response, att.ATT_Read_By_Group_Type_Response):
        f = fn_ast(cls.__post_init__)
        w = find(f, ast.While, what=f'while loop in {cls.__name__}.__post_init__')
        test = u(w.test)
        unpack = find(w, ast.Call, lambda n: u(n.func) == 'struct.unpack_from', 'struct.unpack_from')
        h = hdr[u(unpack.args[0])]
        aug = find(w, ast.AugAssign, lambda n: u(n.target) == 'offset', 'offset +=')
        stride = u(aug.value)
        mm = re.fullmatch(r'offset \+ (\w+(?:\.\w+)?) <= len\(self\.(\w+)\)', test)
        if mm is None:
            mm = must(re.fullmatch(r'self\.length != 0 and offset \+ self\.length <= len\(self\.(\w+)\)', test), f'{cls.__name__} loop guard')
            must(stride == 'self.length', f'{cls.__name__} stride is self.length')
            rows.append((int(cls.op_code), 0, h, 0))
        elif mm.group(1) == 'uuid_size':
            must(stride == '2 + uuid_size', f'{cls.__name__} stride')
            must('uuid_size = 2 if self.format == 1 else 16' in u(f), 'uuid_size = 2 if format == 1 else 16')
            rows.append((int(cls.op_code), -0, h, -2))
        else:
            must(mm.group(1).isdigit() and stride == mm.group(1), f'{cls.__name__} fixed stride')
            rows.append((int(cls.op_code), int(stride), h, int(stride)))
    return rows


def simple_tlv_loops():
    """avdtp.ServiceCapabilities.parse_capabilities and core.AdvertisingData.append"""
    from bumble import avdtp, core
    f = fn_ast(avdtp.ServiceCapabilities.parse_capabilities.__func__)
    w = find(f, ast.While, what='while loop in parse_capabilities')
    must(u(w.test) == 'offset < len(payload)', 'capabilities loop guard')
    src = u(w)
    must('service_category = payload[offset]' in src and 'length_of_service_capabilities = payload[offset + 1]' in src, 'capabilities header')
    adv = must(re.search(r'offset \+= (\d+) \+ length_of_service_capabilities', src), 'capabilities advance').group(1)
    sl = must(re.search(r'payload\[offset \+ (\d+):offset \+ (\d+) \+ length_of_service_capabilities\]', src), 'capabilities slice')
    caps = [1, int(sl.group(1)), int(sl.group(2)), int(adv)]
    g = fn_ast(core.AdvertisingData.append)
    w = find(g, ast.While, what='while loop in AdvertisingData.append')
    must(u(w.test) == 'offset + 1 < len(data)', 'advertising data loop guard')
    body = [u(s) for s in w.body]
    must(body[0] == 'length = data[offset]' and body[1] == 'offset += 1' and body[-1] == 'offset += length', 'advertising data loop body')
    must(body[2].startswith('if length > 0:') and 'ad_type = data[offset]' in body[2] and 'ad_data = data[offset + 1:offset + length]' in body[2],
         'advertising data structure')
    return caps, [1, 1, 0, 1]


def render():
    guard, forms = sdp_size_forms()
    caps, adv = simple_tlv_loops()
    out = ['(* loop shapes read from the AST of the anchored functions (tools/translate/c17_shapes.py) *)',
           f'Definition options_loop_shape : list Z := {zl(options_loop())}.',
           '  (* guard operator (4 is >=), guard bound, index of type, index of length, value slice start, value slice end - length, advance - length *)',
           f'Definition sdp_list_loop_shape : list Z := {zl(sdp_list_loop())}.',
           '  (* nesting check operator (4 is >=), it raises, loop guard operator (1 is <), overrun check operator (3 is >), it raises *)',
           f'Definition sdp_offset_check : Z := {guard}.',
           'Definition sdp_size_forms : list (Z * Z * Z * Z) := [' + '; '.join(f'({a}, {b if b >= 0 else f"({b})"}, {c}, {d if d >= 0 else f"({d})"})' for a, b, c, d in forms) + '].',
           '  (* size index, fixed value size or -1, bytes of the size field, value size of a NIL element or -1 *)',
           'Definition at_special_chars : list (Z * Z) := [' + '; '.join(f'({a}, {b})' for a, b in at_specials()) + '].',
           '  (* byte, 0 skipped / 1 separator token / 2 open parenthesis (raises after a character) / 3 quote (raises after a character) *)',
           f'Definition process_tx_spends : list Z := {zl(process_tx_shape())}.',
           '  (* tx_credit_spent per branch in source order: credit byte + data, credit byte only, data *)',
           f'Definition coc_output_loop_shape : list Z := {zl(coc_output_loop())}.',
           '  (* loop guard operator on self.credits (3 is >), its bound, credit decrements per PDU, continues after each PDU *)',
           f'Definition rfcomm_pn_validation : list Z := {zl(rfcomm_pn_validation())}.',
           '  (* minimum / maximum frame size, the check bounds the effective frame size, number of call sites in on_mcc_pn *)',
           f'Definition transport_reject_shape : list Z := {zl(transport_reject_shape())}.',
           '  (* feed_data unknown-type block: first statement is self.reset(), last raises InvalidPacketError, statements; StreamPacketSource / pump catch it and continue *)',
           f'Definition tp_packet_info : Framer.table := {transport_packet_info()}.',
           f'Definition avdtp_channel_close_shape : list Z := {zl(avdtp_channel_close_shape())}.',
           '  (* rtp_channel cleared outside any branch, cleared inside the state branch, CLOSING/ABORTING -> IDLE, close / abort commands finish at once when the channel is gone *)',
           f'Definition credit_based_validation : list Z := {zl(credit_based_validation())}.',
           '  (* minimum MTU, minimum MPS, validated in: LE request, enhanced request, LE response, enhanced response *)',
           'Definition att_item_loop_shapes : list (Z * Z * Z * Z) := [' + '; '.join(f'({a}, {b}, {c}, {d if d >= 0 else f"({d})"})' for a, b, c, d in att_item_loops()) + '].',
           '  (* opcode, guard width (0 = the length byte / uuid size), header bytes, stride (0 = length byte, -2 = 2 + uuid size) *)',
           f'Definition capabilities_loop_shape : list Z := {zl(caps)}.',
           f'Definition advertising_loop_shape : list Z := {zl(adv)}.', '']
    return '\n'.join(out)
