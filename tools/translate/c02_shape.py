"""C02 translator: the statement skeletons of the anchored framing functions
-> Coq (Gen/C02Shape.v), to be compared by `vm_compute` with the skeletons the model was
written from (Model/FramerShape.v).

A skeleton is a tree of statements; leaves are `ast.unparse` texts of simple statements
and of conditions (canonical: whitespace, quoting and redundant parentheses do not matter).
Normalisation removes what cannot influence framing: docstrings, comments, logger.* calls,
`assert` statements, type annotations, the message arguments of `raise X(...)`, `global`
/ `nonlocal`.  Anything the renderer does not know makes the translation FAIL (fail closed).
"""
import ast
import os

# (file, path of nested defs/classes, entry name).  A path element 'C:Name' is a class,
# 'F:name' a function; the last element is the function rendered.  '@consts' renders the
# simple assignments of a class body, '@top' the non-def statements of a function body.
ENTRIES = [
    ('bumble/transport/common.py', ['C:PacketParser', '@consts'], 'PacketParser.constants'),
    ('bumble/transport/common.py', ['C:PacketParser', 'F:__init__'], 'PacketParser.__init__'),
    ('bumble/transport/common.py', ['C:PacketParser', 'F:reset'], 'PacketParser.reset'),
    ('bumble/transport/common.py', ['C:PacketParser', 'F:feed_data'], 'PacketParser.feed_data'),
    ('bumble/transport/common.py', ['C:PacketParser', 'F:set_packet_sink'], 'PacketParser.set_packet_sink'),
    ('bumble/transport/common.py', ['C:PacketReader', 'F:__init__'], 'PacketReader.__init__'),
    ('bumble/transport/common.py', ['C:PacketReader', 'F:next_packet'], 'PacketReader.next_packet'),
    ('bumble/transport/common.py', ['C:AsyncPacketReader', 'F:__init__'], 'AsyncPacketReader.__init__'),
    ('bumble/transport/common.py', ['C:AsyncPacketReader', 'F:next_packet'], 'AsyncPacketReader.next_packet'),
    ('bumble/transport/common.py', ['C:ParserSource', 'F:__init__'], 'ParserSource.__init__'),
    ('bumble/transport/common.py', ['C:ParserSource', 'F:set_packet_sink'], 'ParserSource.set_packet_sink'),
    ('bumble/transport/common.py', ['C:StreamPacketSource', 'F:data_received'], 'StreamPacketSource.data_received'),
    ('bumble/transport/usb.py', ['C:PacketSplitter', 'F:__init__'], 'PacketSplitter.__init__'),
    ('bumble/transport/usb.py', ['C:PacketSplitter', 'F:feed'], 'PacketSplitter.feed'),
    ('bumble/transport/usb.py', ['C:ScoPacketSplitter', 'F:__init__'], 'ScoPacketSplitter.__init__'),
    ('bumble/transport/usb.py', ['C:EventPacketSplitter', 'F:__init__'], 'EventPacketSplitter.__init__'),
    ('bumble/transport/usb.py', ['C:AclPacketSplitter', 'F:__init__'], 'AclPacketSplitter.__init__'),
    ('bumble/transport/usb.py', ['C:UsbPacketSource', 'F:queue_packet'], 'UsbPacketSource.queue_packet'),
    ('bumble/transport/usb.py', ['C:UsbPacketSource', 'F:transfer_callback'], 'UsbPacketSource.transfer_callback'),
    ('bumble/transport/usb.py', ['C:UsbPacketSource', 'F:dequeue'], 'UsbPacketSource.dequeue'),
    ('bumble/transport/tcp_server.py', ['F:_open_tcp_server_transport_impl', '@top'], 'tcp_server.setup'),
    ('bumble/transport/tcp_server.py', ['F:_open_tcp_server_transport_impl', 'C:TcpServerProtocol', 'F:__init__'],
     'TcpServerProtocol.__init__'),
    ('bumble/transport/tcp_server.py', ['F:_open_tcp_server_transport_impl', 'C:TcpServerProtocol', 'F:connection_made'],
     'TcpServerProtocol.connection_made'),
    ('bumble/transport/tcp_server.py', ['F:_open_tcp_server_transport_impl', 'C:TcpServerProtocol', 'F:connection_lost'],
     'TcpServerProtocol.connection_lost'),
    ('bumble/transport/tcp_server.py', ['F:_open_tcp_server_transport_impl', 'C:TcpServerProtocol', 'F:eof_received'],
     'TcpServerProtocol.eof_received'),
    ('bumble/transport/tcp_server.py', ['F:_open_tcp_server_transport_impl', 'C:TcpServerProtocol', 'F:data_received'],
     'TcpServerProtocol.data_received'),
    ('bumble/transport/unix.py', ['F:open_unix_server_transport', '@top'], 'unix_server.setup'),
    ('bumble/transport/unix.py', ['F:open_unix_server_transport', 'C:UnixServerProtocol', 'F:__init__'],
     'UnixServerProtocol.__init__'),
    ('bumble/transport/unix.py', ['F:open_unix_server_transport', 'C:UnixServerProtocol', 'F:connection_made'],
     'UnixServerProtocol.connection_made'),
    ('bumble/transport/unix.py', ['F:open_unix_server_transport', 'C:UnixServerProtocol', 'F:connection_lost'],
     'UnixServerProtocol.connection_lost'),
    ('bumble/transport/unix.py', ['F:open_unix_server_transport', 'C:UnixServerProtocol', 'F:eof_received'],
     'UnixServerProtocol.eof_received'),
    ('bumble/transport/unix.py', ['F:open_unix_server_transport', 'C:UnixServerProtocol', 'F:data_received'],
     'UnixServerProtocol.data_received'),
    ('bumble/transport/ws_server.py', ['F:open_ws_server_transport', 'C:WsServerTransport', 'F:__init__'],
     'WsServerTransport.__init__'),
    ('bumble/transport/ws_server.py', ['F:open_ws_server_transport', 'C:WsServerTransport', 'F:on_connection'],
     'WsServerTransport.on_connection'),
    ('bumble/transport/android_netsim.py', ['F:open_android_netsim_controller_transport', 'C:HciDevice', 'F:pump'],
     'netsim.HciDevice.pump'),
    ('bumble/transport/android_netsim.py', ['F:open_android_netsim_controller_transport', 'C:HciDevice', 'F:pump_loop'],
     'netsim.HciDevice.pump_loop'),
    ('bumble/transport/android_netsim.py', ['F:open_android_netsim_controller_transport', 'C:Server', 'F:lease_sink'],
     'netsim.Server.lease_sink'),
    ('bumble/transport/android_netsim.py', ['F:open_android_netsim_controller_transport', 'C:Server', 'F:release_sink'],
     'netsim.Server.release_sink'),
    ('bumble/transport/android_netsim.py', ['F:open_android_netsim_controller_transport', 'C:Server', 'F:StreamPackets'],
     'netsim.Server.StreamPackets'),
]


class ShapeError(ValueError):
    pass


def _is_logger_call(node):
    """logger.debug(...) etc. as an expression statement"""
    if isinstance(node, ast.Expr) and isinstance(node.value, ast.Call):
        f = node.value.func
        return (isinstance(f, ast.Attribute) and isinstance(f.value, ast.Name)
                and f.value.id in ('logger', 'logging'))
    return False


def _is_docstring(node):
    return (isinstance(node, ast.Expr) and isinstance(node.value, ast.Constant)
            and isinstance(node.value.value, str))


def _unparse(node):
    return ast.unparse(node)


def _leaf(text):
    return ('A', text)


def _block(tag, stmts):
    return ('N', tag, _stmts(stmts))


def _stmts(stmts):
    out = []
    for s in stmts:
        r = _stmt(s)
        if r is not None:
            out.append(r)
    if not out:
        out.append(_leaf('pass'))
    return out


def _stmt(s):
    if _is_logger_call(s) or _is_docstring(s):
        return None
    if isinstance(s, (ast.Assert, ast.Global, ast.Nonlocal)):
        return None
    if isinstance(s, ast.Pass):
        return None
    if isinstance(s, ast.AnnAssign):
        if s.value is None:
            return None
        return _leaf(f'{_unparse(s.target)} = {_unparse(s.value)}')
    if isinstance(s, (ast.Assign, ast.AugAssign, ast.Expr, ast.Return, ast.Continue, ast.Break, ast.Delete)):
        return _leaf(_unparse(s))
    if isinstance(s, ast.Raise):
        if s.exc is None:
            return _leaf('raise')
        exc = s.exc
        if isinstance(exc, ast.Call):
            return _leaf(f'raise {_unparse(exc.func)}(...)')       # the message does not matter
        return _leaf(f'raise {_unparse(exc)}')
    if isinstance(s, ast.If):
        return ('N', 'if', [_leaf(_unparse(s.test)), _block('then', s.body), _block('else', s.orelse)])
    if isinstance(s, ast.While):
        if s.orelse:
            raise ShapeError('while/else')
        return ('N', 'while', [_leaf(_unparse(s.test)), _block('body', s.body)])
    if isinstance(s, (ast.For, ast.AsyncFor)):
        if s.orelse:
            raise ShapeError('for/else')
        tag = 'async for' if isinstance(s, ast.AsyncFor) else 'for'
        return ('N', tag, [_leaf(_unparse(s.target)), _leaf(_unparse(s.iter)), _block('body', s.body)])
    if isinstance(s, ast.Try):
        kids = [_block('body', s.body)]
        for h in s.handlers:
            t = _unparse(h.type) if h.type is not None else ''
            kids.append(('N', 'except', [_leaf(t), _block('body', h.body)]))
        if s.orelse:
            kids.append(_block('orelse', s.orelse))
        if s.finalbody:
            kids.append(_block('finally', s.finalbody))
        return ('N', 'try', kids)
    if isinstance(s, (ast.With, ast.AsyncWith)):
        tag = 'async with' if isinstance(s, ast.AsyncWith) else 'with'
        return ('N', tag, [_leaf(', '.join(_unparse(i) for i in s.items)), _block('body', s.body)])
    if isinstance(s, (ast.FunctionDef, ast.AsyncFunctionDef)):
        return _function(s)
    if isinstance(s, ast.ClassDef):
        return ('N', f'class {s.name}', [x for x in (_stmt(b) for b in s.body) if x is not None])
    raise ShapeError(f'statement kind {type(s).__name__} at line {getattr(s, "lineno", "?")} not understood')


def _function(f):
    a = f.args
    names = [x.arg for x in a.posonlyargs + a.args]
    if a.vararg:
        names.append('*' + a.vararg.arg)
    names += [x.arg for x in a.kwonlyargs]
    if a.kwarg:
        names.append('**' + a.kwarg.arg)
    defaults = [_unparse(d) for d in a.defaults] + [_unparse(d) for d in a.kw_defaults if d is not None]
    head = ('async def ' if isinstance(f, ast.AsyncFunctionDef) else 'def ') + f.name + '(' + ', '.join(names) + ')'
    if defaults:
        head += ' defaults ' + ', '.join(defaults)
    if f.decorator_list:
        head = ' '.join('@' + _unparse(d) for d in f.decorator_list) + ' ' + head
    return ('N', head, _stmts(f.body))


def _find(body, kind, name, where):
    found = [n for n in body
             if (kind == 'C' and isinstance(n, ast.ClassDef) and n.name == name)
             or (kind == 'F' and isinstance(n, (ast.FunctionDef, ast.AsyncFunctionDef)) and n.name == name)]
    if len(found) != 1:
        raise ShapeError(f'{where}: expected exactly one {"class" if kind == "C" else "function"} {name}, '
                         f'found {len(found)}')
    return found[0]


def render_entry(tree, path, where):
    node = tree
    for el in path:
        if el == '@consts':
            out = []
            for s in node.body:
                if isinstance(s, ast.Assign):
                    out.append(_leaf(_unparse(s)))
                elif isinstance(s, ast.AnnAssign) and s.value is not None:
                    out.append(_leaf(f'{_unparse(s.target)} = {_unparse(s.value)}'))
            return ('N', f'class {node.name} constants', out)
        if el == '@top':
            stmts = [s for s in node.body
                     if not isinstance(s, (ast.ClassDef, ast.FunctionDef, ast.AsyncFunctionDef))]
            return ('N', f'{node.name} statements', _stmts(stmts))
        kind, name = el.split(':')
        node = _find(node.body, kind, name, where)
    return _function(node)


def render_all(repo):
    trees = {}
    out = []
    for rel, path, name in ENTRIES:
        if rel not in trees:
            with open(os.path.join(repo, rel)) as f:
                trees[rel] = ast.parse(f.read(), filename=rel)
        out.append((name, render_entry(trees[rel], path, f'{rel}:{"/".join(path)}')))
    return out


# ------------------------------------------------------------------ Coq rendering
def _coq_string(s):
    for ch in s:
        if ord(ch) < 32 or ord(ch) > 126:
            raise ShapeError(f'non-printable / non-ASCII character {ch!r} in skeleton text')
    return '"' + s.replace('"', '""') + '"'


def _coq_sx(t, indent):
    pad = ' ' * indent
    if t[0] == 'A':
        return f'{pad}A {_coq_string(t[1])}'
    kids = t[2]
    if not kids:
        return f'{pad}N {_coq_string(t[1])} []'
    inner = ';\n'.join(_coq_sx(k, indent + 2) for k in kids)
    return f'{pad}N {_coq_string(t[1])} [\n{inner}]'


def _ident(name):
    return ''.join(c if c.isalnum() else '_' for c in name)


def coq_definitions(entries, prefix, header):
    lines = [header,
             'From Coq Require Import String List.',
             'From BV Require Import Model.Sx.',
             'Import ListNotations.',
             'Open Scope string_scope.',
             '']
    for name, t in entries:
        lines.append(f'Definition {prefix}_{_ident(name)} : sx :=\n{_coq_sx(t, 2)}.')
        lines.append('')
    lines.append(f'Definition {prefix}_shapes : list (string * sx) :=\n  ['
                 + ';\n   '.join(f'({_coq_string(name)}, {prefix}_{_ident(name)})' for name, _ in entries) + '].')
    lines.append('')
    return '\n'.join(lines)


def text_of(t, indent=0):
    """plain text of a skeleton (for the evidence file / diagnostics)"""
    pad = '  ' * indent
    if t[0] == 'A':
        return pad + t[1]
    return '\n'.join([pad + t[1] + ':'] + [text_of(k, indent + 1) for k in t[2]])


def regen(ctx):
    entries = render_all(ctx.repo)
    ctx.write_gen('C02Shape', coq_definitions(
        entries, 'src',
        '(* GENERATED by tools/translate/c02_shape.py from the anchored functions of\n'
        '   bumble/transport/{common,usb,tcp_server,unix,ws_server,android_netsim}.py.  Do not edit. *)'))
    ctx.extra['shape_entries'] = [name for name, _ in entries]
    return entries
