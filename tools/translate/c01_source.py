"""C01 source pins: canonical text of the anchored codec functions of bumble/hci.py
(and of the two vendor hooks the model covers) -> coq/Gen/C01Source.v.

The hand-written Coq models (Model/SpecCodec.v, Model/HciPacket.v) were written against a
particular shape of these functions.  Differential execution ties them to the code only on
the inputs that are generated; this translator additionally pins the SOURCE: for every
anchored function it extracts the AST, drops what cannot change behaviour (doc strings,
comments, logging calls, type annotations, the text of exception messages) and renders the
rest canonically (ast.unparse).  parse_field / serialize_field are split per `case` arm.
Props/C01.v proves `pins_match source_pins expected_pins = true` by vm_compute, where
Model/HciSource.v holds the text the models were written against; an edit to a struct
format, a shift, a mask, a comparison, a slice bound or the order of statements in any of
these functions breaks that obligation even when no generated input exercises it.
Fail closed: a function that cannot be found or parsed raises.
"""
from __future__ import annotations

import ast
import inspect
import textwrap


class SourcePinError(Exception):
    pass


# (module, dotted path, mode); mode 'arms' splits the first `match` statement per case
PINS = [
    ('bumble.hci', 'SpecableEnum.type_spec', 'body'),
    ('bumble.hci', 'SpecableFlag.type_spec', 'body'),
    ('bumble.hci', 'metadata', 'body'),
    ('bumble.hci', 'CodingFormat.parse_from_bytes', 'body'),
    ('bumble.hci', 'CodingFormat.__bytes__', 'body'),
    ('bumble.hci', 'HCI_Object.parse_field', 'arms'),
    ('bumble.hci', 'HCI_Object.dict_and_offset_from_bytes', 'body'),
    ('bumble.hci', 'HCI_Object.dict_from_bytes', 'body'),
    ('bumble.hci', 'HCI_Object.serialize_field', 'arms'),
    ('bumble.hci', 'HCI_Object.dict_to_bytes', 'body'),
    ('bumble.hci', 'HCI_Object.__bytes__', 'body'),
    ('bumble.hci', 'HCI_Object.__init__', 'body'),
    ('bumble.hci', 'HCI_Object.init_from_fields', 'body'),
    ('bumble.hci', 'HCI_Object.parse_length_prefixed_bytes', 'body'),
    ('bumble.hci', 'HCI_Object.serialize_length_prefixed_bytes', 'body'),
    ('bumble.hci', 'HCI_Object.fields_from_dataclass', 'body'),
    ('bumble.hci', 'HCI_Dataclass_Object.__post_init__', 'body'),
    ('bumble.hci', 'HCI_Dataclass_Object.parse_from_bytes', 'body'),
    ('bumble.core', 'padded_bytes', 'body'),
    ('bumble.hci', 'Address.parse_address', 'body'),
    ('bumble.hci', 'Address.parse_random_address', 'body'),
    ('bumble.hci', 'Address.parse_address_with_type', 'body'),
    ('bumble.hci', 'Address.parse_address_preceded_by_type', 'body'),
    ('bumble.hci', 'Address.__init__', 'body'),
    ('bumble.hci', 'Address.__bytes__', 'body'),
    ('bumble.hci', 'Address.is_public', 'body'),
    ('bumble.hci', 'Address.__eq__', 'body'),
    ('bumble.hci', 'HCI_Packet.from_bytes', 'body'),
    ('bumble.hci', 'HCI_CustomPacket.__init__', 'body'),
    ('bumble.hci', 'HCI_CustomPacket.__bytes__', 'body'),
    ('bumble.hci', 'HCI_Command.from_bytes', 'body'),
    ('bumble.hci', 'HCI_Command.from_parameters', 'body'),
    ('bumble.hci', 'HCI_Command.__init__', 'body'),
    ('bumble.hci', 'HCI_Command.parameters', 'body'),
    ('bumble.hci', 'HCI_Command.__bytes__', 'body'),
    ('bumble.hci', 'HCI_ReturnParameters.from_parameters', 'body'),
    ('bumble.hci', 'HCI_StatusReturnParameters.from_parameters', 'body'),
    ('bumble.hci', 'HCI_SyncCommand.sync_command', 'body'),
    ('bumble.hci', 'HCI_SyncCommand.parse_return_parameters', 'body'),
    ('bumble.hci', 'HCI_Command.command', 'body'),
    ('bumble.hci', 'HCI_Event.event', 'body'),
    ('bumble.hci', 'HCI_Event.from_bytes', 'body'),
    ('bumble.hci', 'HCI_Event.from_parameters', 'body'),
    ('bumble.hci', 'HCI_Event.__init__', 'body'),
    ('bumble.hci', 'HCI_Event.parameters', 'body'),
    ('bumble.hci', 'HCI_Event.__bytes__', 'body'),
    ('bumble.hci', 'HCI_Extended_Event.event', 'body'),
    ('bumble.hci', 'HCI_Extended_Event.parameters', 'body'),
    ('bumble.hci', 'HCI_Extended_Event.from_parameters', 'body'),
    ('bumble.hci', 'HCI_Extended_Event.__init__', 'body'),
    ('bumble.hci', 'HCI_Command_Complete_Event.from_parameters', 'body'),
    ('bumble.hci', 'HCI_AclDataPacket.from_bytes', 'body'),
    ('bumble.hci', 'HCI_AclDataPacket.__bytes__', 'body'),
    ('bumble.hci', 'HCI_SynchronousDataPacket.from_bytes', 'body'),
    ('bumble.hci', 'HCI_SynchronousDataPacket.__bytes__', 'body'),
    ('bumble.hci', 'HCI_IsoDataPacket.__post_init__', 'body'),
    ('bumble.hci', 'HCI_IsoDataPacket.from_bytes', 'body'),
    ('bumble.hci', 'HCI_IsoDataPacket.__bytes__', 'body'),
    ('bumble.hci', 'HCI_LE_Set_Extended_Scan_Parameters_Command.from_parameters', 'body'),
    ('bumble.hci', 'HCI_LE_Set_Extended_Scan_Parameters_Command.__init__', 'body'),
    ('bumble.hci', 'HCI_LE_Extended_Create_Connection_Command.from_parameters', 'body'),
    ('bumble.hci', 'HCI_LE_Extended_Create_Connection_Command.__init__', 'body'),
    ('bumble.vendor.android.hci', 'HCI_Android_Vendor_Event.subclass_from_parameters', 'body'),
    ('bumble.vendor.android.hci', 'HCI_LE_Get_Vendor_Capabilities_Command.parse_return_parameters', 'body'),
    ('bumble.utils', 'OpenIntEnum._missing_', 'body'),
]


class _Norm(ast.NodeTransformer):
    def visit_Expr(self, node):
        v = node.value
        if isinstance(v, ast.Constant) and isinstance(v.value, str):
            return None                                   # doc string / stray string
        if (isinstance(v, ast.Call) and isinstance(v.func, ast.Attribute)
                and isinstance(v.func.value, ast.Name) and v.func.value.id == 'logger'):
            return None                                   # logging
        return self.generic_visit(node)

    def visit_Raise(self, node):
        exc = node.exc
        if isinstance(exc, ast.Call):
            exc = exc.func                                 # drop the message
        return ast.Raise(exc=exc, cause=None)

    def visit_AnnAssign(self, node):
        if node.value is None:
            return None
        return self.generic_visit(ast.Assign(targets=[node.target], value=node.value, lineno=0))

    def visit_If(self, node):
        node = self.generic_visit(node)
        if not node.body:
            node.body = [ast.Pass()]
        return node


def _flat(nodes):
    txt = ' ; '.join(ast.unparse(ast.fix_missing_locations(n)) for n in nodes)
    return ' '.join(txt.replace('\n', ' ; ').split())


def _resolve(module, path):
    import importlib
    obj = importlib.import_module(module)
    for part in path.split('.'):
        if isinstance(obj, type) and part in obj.__dict__:
            obj = obj.__dict__[part]
        else:
            obj = getattr(obj, part)
    return obj


def _funcs(obj):
    """underlying function objects of a function / classmethod / staticmethod / property"""
    if isinstance(obj, property):
        return [f for f in (obj.fget, obj.fset) if f is not None]
    if isinstance(obj, (classmethod, staticmethod)):
        return [obj.__func__]
    if hasattr(obj, '__func__'):
        return [obj.__func__]
    return [obj]


def _fdef(fn, where):
    try:
        src = textwrap.dedent(inspect.getsource(fn))
        tree = ast.parse(src)
    except Exception as e:
        raise SourcePinError(f'{where}: cannot read source ({type(e).__name__}: {e})')
    for node in ast.walk(tree):
        if isinstance(node, (ast.FunctionDef, ast.AsyncFunctionDef)):
            return node
    raise SourcePinError(f'{where}: no function definition found')


def pins():
    out = []
    for module, path, mode in PINS:
        where = f'{module}.{path}'
        try:
            obj = _resolve(module, path)
        except Exception as e:
            raise SourcePinError(f'{where}: not found ({type(e).__name__}: {e})')
        for k, fn in enumerate(_funcs(obj)):
            name = path if k == 0 else f'{path}.setter'
            fdef = _fdef(fn, where)
            args = ast.unparse(ast.arguments(
                posonlyargs=[ast.arg(a.arg) for a in fdef.args.posonlyargs],
                args=[ast.arg(a.arg) for a in fdef.args.args],
                vararg=ast.arg(fdef.args.vararg.arg) if fdef.args.vararg else None,
                kwonlyargs=[ast.arg(a.arg) for a in fdef.args.kwonlyargs],
                kw_defaults=fdef.args.kw_defaults,
                kwarg=ast.arg(fdef.args.kwarg.arg) if fdef.args.kwarg else None,
                defaults=fdef.args.defaults))
            body = [_Norm().visit(s) for s in fdef.body]
            body = [s for s in body if s is not None]
            if mode == 'arms':
                matches = [s for s in body if isinstance(s, ast.Match)]
                if len(matches) != 1:
                    raise SourcePinError(f'{where}: expected exactly one match statement, found {len(matches)}')
                m = matches[0]
                rest = [ast.Expr(ast.Name('<match>')) if s is m else s for s in body]
                out.append((f'{name}({args})', _flat(rest).replace('<match>', f'match {ast.unparse(m.subject)}')))
                seen = set()
                for case in m.cases:
                    key = ast.unparse(case.pattern) + (f' if {ast.unparse(case.guard)}' if case.guard else '')
                    if key in seen:
                        raise SourcePinError(f'{where}: duplicate case {key}')
                    seen.add(key)
                    out.append((f'{name}[case {key}]', _flat(case.body)))
            else:
                out.append((f'{name}({args})', _flat(body)))
    out.append(('constants', constants()))
    for n, t in out:
        if not (n + t).isascii():
            raise SourcePinError(f'{n}: non-ASCII source text')
    return out


def constants():
    """the numeric constants the anchored functions dispatch on"""
    from bumble import hci
    import bumble.vendor.android.hci as android
    names = ['HCI_COMMAND_PACKET', 'HCI_ACL_DATA_PACKET', 'HCI_SYNCHRONOUS_DATA_PACKET', 'HCI_EVENT_PACKET',
             'HCI_ISO_DATA_PACKET', 'HCI_LE_META_EVENT', 'HCI_VENDOR_EVENT', 'HCI_COMMAND_COMPLETE_EVENT']
    parts = [f'{n}={int(getattr(hci, n))}' for n in names]
    parts += [f'AddressType.{m.name}={int(m)}' for m in hci.AddressType]
    parts += [f'Address.{n}={int(getattr(hci.Address, n))}' for n in
              ('PUBLIC_DEVICE_ADDRESS', 'RANDOM_DEVICE_ADDRESS', 'PUBLIC_IDENTITY_ADDRESS', 'RANDOM_IDENTITY_ADDRESS')]
    parts.append(f'HCI_ErrorCode.SUCCESS={int(hci.HCI_ErrorCode.SUCCESS)}')
    parts.append(f'HCI_LE_Meta_Event.event_code={int(hci.HCI_LE_Meta_Event.event_code)}')
    parts.append(f'HCI_BLUETOOTH_QUALITY_REPORT_EVENT={int(android.HCI_BLUETOOTH_QUALITY_REPORT_EVENT)}')
    parts.append(f'HCI_Android_Vendor_Event.event_code={int(android.HCI_Android_Vendor_Event.event_code)}')
    return ' ; '.join(parts)


EXPECTED_HEADER = '''(* Model/HciSource.v - the source text the C01 models were written against.

   [expected_pins] is the canonical text (tools/translate/c01_source.py: AST without doc
   strings, comments, logging, annotations and exception messages) of every function of
   bumble/hci.py (and the two vendor hooks) that Model/SpecCodec.v and Model/HciPacket.v
   model, parse_field / serialize_field split per case arm, plus the numeric constants they
   dispatch on.  Props/C01.v proves that the text regenerated from the current sources on
   every run is equal to it.  This file is NOT regenerated by the check: it changes only
   when a person has re-read the changed function against the model
   (python tools/translate/c01_source.py --write-expected rewrites the list). *)'''

MATCHER = '''
(* names of the pins whose text differs, is missing or is new *)
Fixpoint lookup_pin (n : string) (l : list (string * string)) : option string :=
  match l with
  | [] => None
  | (k, v) :: r => if String.eqb n k then Some v else lookup_pin n r
  end.

Definition pin_differs (other : list (string * string)) (p : string * string) : bool :=
  match lookup_pin (fst p) other with
  | Some v => negb (String.eqb v (snd p))
  | None => true
  end.

Definition pins_diff (src expected : list (string * string)) : list string :=
  map fst (filter (pin_differs expected) src) ++ map fst (filter (pin_differs src) expected).

Fixpoint pins_eq (a b : list (string * string)) : bool :=
  match a, b with
  | [], [] => true
  | (n1, t1) :: a', (n2, t2) :: b' => String.eqb n1 n2 && String.eqb t1 t2 && pins_eq a' b'
  | _, _ => false
  end.

(* same pins, same order, same text *)
Definition pins_match (src expected : list (string * string)) : bool := pins_eq src expected.
'''


def coq_string(s):
    return '"' + s.replace('"', '""') + '"'


def render(ps, defname='source_pins', header=None):
    lines = [header or '(* GENERATED by tools/translate/c01_source.py from the sources on every run. Do not edit. *)',
             'From Coq Require Import List String.',
             'Import ListNotations.',
             'Local Open Scope string_scope.',
             '',
             f'Definition {defname} : list (string * string) := [']
    lines.append(';\n'.join(f'  ({coq_string(n)},\n   {coq_string(t)})' for n, t in ps))
    lines.append('].')
    lines.append('')
    return '\n'.join(lines)


def regen(ctx):
    ps = pins()
    ctx.write_gen('C01Source', render(ps))
    return ps


if __name__ == '__main__':
    import os
    import sys
    if '--write-expected' in sys.argv:
        here = os.path.dirname(os.path.dirname(os.path.dirname(os.path.abspath(__file__))))
        text = render(pins(), 'expected_pins', EXPECTED_HEADER) + MATCHER
        with open(os.path.join(here, 'coq', 'Model', 'HciSource.v'), 'w') as f:
            f.write(text)
        print('wrote coq/Model/HciSource.v')
        sys.exit(0)
    ps = pins()
    print(len(ps), sum(len(n) + len(t) for n, t in ps))
    for n, t in ps[:12]:
        print(n, '=>', t[:160])
