"""C20 translator: bumble/hfp.py AgProtocol -> coq/Gen/C20AgSkeleton.v

Reads the SOURCE of AgProtocol (ast), and emits
  * for every handler method `_on_<code>[ _test | _read ]`: name, arity, control-flow
    skeleton (type `sk` of Model/AtSkeleton.v),
  * the skeleton of the per-line body of `_read_at` as a function of the handler body
    (`ag_line`), in which the dynamic call `handler(*command.parameters)` is
    `Seq May (Fn h)` (the call may raise TypeError for a wrong number of parameters
    before the body runs).
Fail closed: a statement kind, a send_response argument or a `_read_at` shape that is not
recognised raises TranslateError naming the construct.  Expressions that are not on the
small exception-free whitelist become `May` (may raise), which is conservative.
"""
import ast
import os


class TranslateError(Exception):
    pass


FLAG = '_final_result_sent'
FINAL_METHODS = ('send_ok', 'send_error', 'send_cme_error')
SAFE_LOGGER = {'debug', 'info', 'warning', 'error', 'exception'}


def _is_self_attr(e, name=None):
    return (isinstance(e, ast.Attribute) and isinstance(e.value, ast.Name) and e.value.id == 'self'
            and (name is None or e.attr == name))


def safe_expr(e) -> bool:
    """True when evaluating e cannot raise (given the types the code uses)."""
    if e is None:
        return True
    if isinstance(e, (ast.Constant, ast.Name)):
        return True
    if isinstance(e, ast.Attribute):
        return safe_expr(e.value)
    if isinstance(e, ast.JoinedStr):
        return all(safe_expr(v) for v in e.values)
    if isinstance(e, ast.FormattedValue):
        return e.format_spec is None and safe_expr(e.value)
    if isinstance(e, ast.Compare):
        return safe_expr(e.left) and all(safe_expr(c) for c in e.comparators) and \
            all(isinstance(o, (ast.Eq, ast.NotEq, ast.Is, ast.IsNot)) for o in e.ops)
    if isinstance(e, ast.BoolOp):
        return all(safe_expr(v) for v in e.values)
    if isinstance(e, ast.UnaryOp) and isinstance(e.op, ast.Not):
        return safe_expr(e.operand)
    if isinstance(e, ast.BinOp) and isinstance(e.op, (ast.Add, ast.Sub)):
        # only integer index arithmetic on names / constants
        return all(isinstance(x, (ast.Name, ast.Constant)) for x in (e.left, e.right))
    if isinstance(e, ast.Subscript):
        s = e.slice
        return safe_expr(e.value) and isinstance(s, ast.Slice) and s.step is None and \
            all(safe_expr(x) for x in (s.lower, s.upper))
    if isinstance(e, ast.NamedExpr):
        return safe_expr(e.value)
    if isinstance(e, ast.IfExp):
        return safe_expr(e.test) and safe_expr(e.body) and safe_expr(e.orelse)
    if isinstance(e, ast.Call):
        f = e.func
        if e.keywords:
            return False
        if isinstance(f, ast.Attribute) and isinstance(f.value, ast.Name) and f.value.id == 'logger' \
                and f.attr in SAFE_LOGGER:
            return all(safe_expr(a) for a in e.args)
        if isinstance(f, ast.Name) and f.id == 'getattr' and len(e.args) == 3:
            return all(safe_expr(a) for a in e.args)
        if isinstance(f, ast.Attribute) and f.attr == 'lower' and not e.args:
            return safe_expr(f.value)
        if isinstance(f, ast.Attribute) and f.attr == 'find' and \
                all(isinstance(a, (ast.Constant, ast.BinOp, ast.Name)) and safe_expr(a) for a in e.args):
            return safe_expr(f.value)
        return False
    return False


def seq(parts):
    parts = [p for p in parts if p != 'Skip']
    if not parts:
        return 'Skip'
    out = parts[-1]
    for p in reversed(parts[:-1]):
        out = f'(Seq {p} {out})'
    return out


class ClassTranslator:
    def __init__(self, cls: ast.ClassDef, where: str):
        self.cls = cls
        self.where = where
        self.methods = {n.name: n for n in cls.body if isinstance(n, (ast.FunctionDef, ast.AsyncFunctionDef))}
        self.uses_guard = False
        self.notes = []

    def err(self, node, what):
        raise TranslateError(f'{self.where}:{getattr(node, "lineno", "?")}: {what}')

    # ---- send_response argument classification
    def _const_prefix(self, e, fn):
        """the constant text an AT response expression starts with, or None"""
        if isinstance(e, ast.Constant) and isinstance(e.value, str):
            return e.value
        if isinstance(e, ast.JoinedStr) and e.values and isinstance(e.values[0], ast.Constant):
            return e.values[0].value
        if isinstance(e, ast.Call) and isinstance(e.func, ast.Attribute) and e.func.attr == 'format' \
                and isinstance(e.func.value, ast.Constant) and isinstance(e.func.value.value, str):
            return e.func.value.value
        if isinstance(e, ast.Name):
            assigns = [n for n in ast.walk(fn) if isinstance(n, ast.Assign)
                       and any(isinstance(t, ast.Name) and t.id == e.id for t in n.targets)]
            if len(assigns) == 1:
                return self._const_prefix(assigns[0].value, fn)
        return None

    def send_response_sk(self, call, fn):
        if len(call.args) != 1 or call.keywords:
            self.err(call, 'send_response with unexpected arguments')
        arg = call.args[0]
        prefix = self._const_prefix(arg, fn)
        if prefix is None:
            self.err(call, f'send_response argument not recognised: {ast.unparse(arg)}')
        is_final = (isinstance(arg, ast.Constant) and prefix in ('OK', 'ERROR')) or prefix.startswith('+CME ERROR')
        if not is_final:
            if prefix in ('OK', 'ERROR') or not (prefix.startswith('+') or prefix.isupper()):
                self.err(call, f'send_response argument neither final nor a known intermediate form: {prefix!r}')
            return 'Skip' if safe_expr(arg) else 'May'
        return 'Final' if safe_expr(arg) else '(Seq May Final)'

    # ---- statements
    def block(self, stmts, fn, depth, in_handler_try=False):
        return seq([self.stmt(s, fn, depth) for s in stmts])

    def stmt(self, s, fn, depth):
        if isinstance(s, ast.Pass):
            return 'Skip'
        if isinstance(s, ast.Expr):
            if isinstance(s.value, ast.Constant):
                return 'Skip'
            if isinstance(s.value, ast.Call):
                return self.call(s.value, fn, depth)
            return 'Skip' if safe_expr(s.value) else 'May'
        if isinstance(s, ast.Assign):
            if len(s.targets) == 1 and _is_self_attr(s.targets[0], FLAG):
                if isinstance(s.value, ast.Constant) and s.value.value is False:
                    return 'Reset'
                if isinstance(s.value, ast.Constant) and s.value.value is True:
                    return 'Skip'
                self.err(s, f'assignment to self.{FLAG} that is neither True nor False')
            ok_targets = all(isinstance(t, ast.Name) or _is_self_attr(t) for t in s.targets)
            return 'Skip' if (ok_targets and safe_expr(s.value)) else 'May'
        if isinstance(s, ast.AnnAssign):
            ok = isinstance(s.target, ast.Name) or _is_self_attr(s.target)
            return 'Skip' if (ok and safe_expr(s.value)) else 'May'
        if isinstance(s, ast.AugAssign):
            return 'May'
        if isinstance(s, ast.Return):
            return 'Ret' if safe_expr(s.value) else '(Seq May Ret)'
        if isinstance(s, ast.Continue):
            return 'Cont'
        if isinstance(s, ast.If):
            # the dispatcher guard:  if not self._final_result_sent: self.send_error()
            if (isinstance(s.test, ast.UnaryOp) and isinstance(s.test.op, ast.Not)
                    and _is_self_attr(s.test.operand, FLAG) and not s.orelse and len(s.body) == 1
                    and isinstance(s.body[0], ast.Expr) and isinstance(s.body[0].value, ast.Call)
                    and _is_self_attr(s.body[0].value.func, 'send_error') and not s.body[0].value.args):
                self.uses_guard = True
                return 'FinalIfNone'
            alt = f'(Alt {self.block(s.body, fn, depth)} {self.block(s.orelse, fn, depth)})'
            return alt if safe_expr(s.test) else f'(Seq May {alt})'
        if isinstance(s, (ast.For, ast.While)):
            if s.orelse:
                self.err(s, 'loop with else clause')
            for n in ast.walk(s):
                if isinstance(n, ast.Break):
                    self.err(n, 'break inside a loop')
            head = s.iter if isinstance(s, ast.For) else s.test
            loop = f'(Loop {self.block(s.body, fn, depth)})'
            # evaluating the iterable / advancing the iterator may raise as well
            return loop if (isinstance(s, ast.While) and safe_expr(head)) else f'(Seq May {loop})'
        if isinstance(s, ast.Try):
            if s.finalbody or s.orelse or len(s.handlers) != 1:
                self.err(s, 'try with finally/else or several handlers')
            h = s.handlers[0]
            if not (h.type is None or (isinstance(h.type, ast.Name) and h.type.id in ('Exception', 'BaseException'))):
                self.err(s, f'except clause narrower than Exception: {ast.unparse(h.type)}')
            return f'(Try {self.block(s.body, fn, depth)} {self.block(h.body, fn, depth)})'
        self.err(s, f'statement kind not handled: {type(s).__name__}')

    def call(self, c, fn, depth):
        f = c.func
        args_safe = all(safe_expr(a) for a in c.args) and not c.keywords
        if _is_self_attr(f, 'send_response'):
            return self.send_response_sk(c, fn)
        if isinstance(f, ast.Attribute) and f.attr == 'write' and isinstance(f.value, ast.Attribute) \
                and f.value.attr == 'dlc':
            if fn.name != 'send_response':
                self.err(c, 'direct dlc.write outside send_response')
            return 'Skip'
        if isinstance(f, ast.Name) and f.id == 'handler' and len(c.args) == 1 and isinstance(c.args[0], ast.Starred):
            return '(Seq May (Fn h))'
        if _is_self_attr(f) and f.attr in self.methods:
            callee = self.methods[f.attr]
            if depth > 6:
                self.err(c, f'call depth exceeded at {f.attr}')
            if isinstance(callee, ast.AsyncFunctionDef):
                return 'May'   # creates a coroutine object; its body does not run here
            body = self.block(callee.body, callee, depth + 1)
            callsk = f'(Fn {body})'
            return callsk if args_safe else f'(Seq May {callsk})'
        if safe_expr(c):
            return 'Skip'
        return 'May'

    # ---- flag discipline: every primitive final send reachable from a handler is
    # immediately preceded by  self._final_result_sent = True
    def flag_discipline(self) -> bool:
        ok = True
        for name, m in self.methods.items():
            if name == '_read_at':
                continue
            for parent in ast.walk(m):
                for field in ('body', 'orelse', 'finalbody'):
                    stmts = getattr(parent, field, None)
                    if not isinstance(stmts, list):
                        continue
                    for i, s in enumerate(stmts):
                        if isinstance(s, ast.Expr) and isinstance(s.value, ast.Call) \
                                and _is_self_attr(s.value.func, 'send_response'):
                            sk = self.send_response_sk(s.value, m)
                            if 'Final' in sk:
                                prev = stmts[i - 1] if i > 0 else None
                                if not (isinstance(prev, ast.Assign) and len(prev.targets) == 1
                                        and _is_self_attr(prev.targets[0], FLAG)
                                        and isinstance(prev.value, ast.Constant) and prev.value.value is True):
                                    ok = False
                                    self.notes.append(f'{name}:{s.lineno}: final result sent without setting {FLAG}')
                        if isinstance(s, ast.Assign) and any(_is_self_attr(t, FLAG) for t in s.targets):
                            if name != '__init__' and not (isinstance(s.value, ast.Constant) and s.value.value is True):
                                ok = False
                                self.notes.append(f'{name}:{s.lineno}: {FLAG} cleared outside _read_at')
        return ok


def handler_arity(fn):
    a = fn.args
    if a.kwonlyargs or a.kwarg or a.posonlyargs:
        raise TranslateError(f'{fn.name}: keyword-only / positional-only parameters')
    names = [x.arg for x in a.args]
    if not names or names[0] != 'self':
        raise TranslateError(f'{fn.name}: not an instance method')
    n = len(names) - 1
    return n - len(a.defaults), (None if a.vararg else n)


def coq_string(s):
    return '"' + s.replace('"', '""') + '"'


def translate(repo: str):
    """returns (coq_text, info) ; info: dict with handler table for the harness"""
    path = os.path.join(repo, 'bumble', 'hfp.py')
    src = open(path).read()
    tree = ast.parse(src)
    cls = next((n for n in tree.body if isinstance(n, ast.ClassDef) and n.name == 'AgProtocol'), None)
    if cls is None:
        raise TranslateError('class AgProtocol not found in bumble/hfp.py')
    tr = ClassTranslator(cls, 'bumble/hfp.py')
    for m in FINAL_METHODS + ('send_response', '_read_at'):
        if m not in tr.methods:
            raise TranslateError(f'AgProtocol.{m} not found')
    import re
    handlers = []
    for name in sorted(tr.methods):
        if re.fullmatch(r'_on_[a-z]+(_test|_read)?', name):
            fn = tr.methods[name]
            if isinstance(fn, ast.AsyncFunctionDef):
                raise TranslateError(f'{name}: asynchronous handler')
            lo, hi = handler_arity(fn)
            handlers.append((name, lo, hi, tr.block(fn.body, fn, 0)))
    if not handlers:
        raise TranslateError('no _on_* handlers found')
    # ---- _read_at
    ra = tr.methods['_read_at']
    body = [s for s in ra.body if not (isinstance(s, ast.Expr) and isinstance(s.value, ast.Constant))]
    if len(body) != 2 or not isinstance(body[1], ast.While):
        raise TranslateError('_read_at: expected  <extend buffer>; while self.read_buffer: ...')
    ext, loop = body
    if not (isinstance(ext, ast.Expr) and isinstance(ext.value, ast.Call)
            and ast.unparse(ext.value.func) == 'self.read_buffer.extend'):
        raise TranslateError('_read_at: first statement is not self.read_buffer.extend(data)')
    if ast.unparse(loop.test) != 'self.read_buffer' or loop.orelse:
        raise TranslateError('_read_at: loop is not  while self.read_buffer:')
    lb = loop.body
    if len(lb) < 3 or ast.unparse(lb[0]) != "trailer = self.read_buffer.find(b'\\r')" or \
            not (isinstance(lb[1], ast.If) and ast.unparse(lb[1].test) == 'trailer == -1'
                 and len(lb[1].body) == 1 and isinstance(lb[1].body[0], ast.Return) and not lb[1].orelse):
        raise TranslateError('_read_at: loop does not start with the trailer search / incomplete-line return')
    rest = lb[2:]
    consume = [i for i, s in enumerate(rest)
               if ast.unparse(s).replace(' ', '') == 'self.read_buffer=self.read_buffer[trailer+1:]']
    if len(consume) != 1:
        raise TranslateError('_read_at: the statement that consumes the line from read_buffer was not found')
    for s in rest[:consume[0]]:
        for n in ast.walk(s):
            if isinstance(n, (ast.Continue, ast.Return)):
                raise TranslateError('_read_at: continue/return before the line is consumed')
    for s in rest:
        for n in ast.walk(s):
            if isinstance(n, ast.Return):
                raise TranslateError('_read_at: return after a complete line was found')
    line = tr.block(rest, ra, 0)
    discipline = tr.flag_discipline()
    if tr.uses_guard and not discipline:
        # the guard's meaning (ERROR iff nothing was sent) is not backed by the flag
        # assignments: translate it conservatively (may or may not send)
        line = line.replace('FinalIfNone', '(Alt Final Skip)')
    out = ['(* GENERATED by tools/translate/c20_skeleton.py from bumble/hfp.py (class AgProtocol).',
           '   Do not edit. *)',
           'From Coq Require Import List String.',
           'From BV Require Import Model.AtSkeleton.',
           'Import ListNotations.',
           'Open Scope string_scope.',
           '',
           'Definition ag_handlers : list handler := [']
    rows = []
    for name, lo, hi, sk in handlers:
        hi_s = 'None' if hi is None else f'(Some {hi})'
        rows.append(f'  mkHandler {coq_string(name)} {lo} {hi_s}\n    {sk}')
    out.append(';\n'.join(rows))
    out.append('].')
    out.append('')
    out.append('(* the per-line body of AgProtocol._read_at, h = body of the handler the line selects *)')
    out.append(f'Definition ag_line (h : sk) : sk :=\n  {line}.')
    out.append('')
    out.append(f'Definition ag_flag_discipline : bool := {"true" if discipline else "false"}.')
    out.append(f'Definition ag_uses_guard : bool := {"true" if tr.uses_guard else "false"}.')
    out.append('')
    info = {'handlers': [(n, lo, hi) for n, lo, hi, _ in handlers], 'notes': tr.notes,
            'uses_guard': tr.uses_guard, 'flag_discipline': discipline}
    return '\n'.join(out), info


if __name__ == '__main__':
    import sys
    text, info = translate(sys.argv[1] if len(sys.argv) > 1 else os.environ.get('BUMBLE_REPO', '/repo'))
    print(text)
    print(info, file=sys.stderr)
