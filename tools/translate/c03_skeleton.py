"""C03 translator: bumble/controller.py + bumble/hci.py  ->  coq/Gen/C03Skeleton.v

For every opcode that has a registered HCI command class or a name in
HCI_Command.command_names, and for the dispatch function
Controller.on_hci_command_packet, emit

  * the class kind (HCI_SyncCommand / HCI_AsyncCommand / no class),
  * whether Controller has a handler `on_<command name>` and, if so,
  * a control-flow skeleton of the handler keeping only reply-relevant effects:
    sending a Command Status / Command Complete event for the command's opcode,
    `return <return parameters>` versus `return None`, `raise`.

Both arms of every `if` are kept (the skeleton over-approximates the paths) except for the
two tests the reply count depends on and that the model can decide: `isinstance(command,
hci.HCI_SyncCommand)` and `result is None` (dispatch only).

Fail closed: a statement kind the translator does not know aborts the translation
(TranslationError); an expression that mentions a function which (transitively) sends a
Command Status / Command Complete event in any way other than the recognised direct call
becomes `Unknown`, which the Coq well-formedness check rejects.
"""
from __future__ import annotations

import ast
import inspect


class TranslationError(Exception):
    pass


# ----------------------------------------------------------------------------- skeleton terms
def Seq(a, b):
    if a == 'Nop':
        return b
    if b == 'Nop':
        return a
    return ('Seq', a, b)


def seq_all(xs):
    out = 'Nop'
    for x in reversed(xs):
        out = Seq(x, out)
    return out


def If(a, b):
    if a == 'Nop' and b == 'Nop':
        return 'Nop'
    return ('If', a, b)


def to_coq(s) -> str:
    if isinstance(s, str):
        return s
    return '(' + s[0] + ' ' + ' '.join(to_coq(x) for x in s[1:]) + ')'


def reply_free(s) -> bool:
    """no reply effect, no return, no raise: only Nop / Assert and branching over them"""
    if isinstance(s, str):
        return s in ('Nop', 'Assert')
    return all(reply_free(x) for x in s[1:])


# ----------------------------------------------------------------------------- AST helpers
def _is_name(node, name):
    return isinstance(node, ast.Name) and node.id == name


def _is_attr(node, base, attr):
    return isinstance(node, ast.Attribute) and node.attr == attr and _is_name(node.value, base)


def _is_none(node):
    return isinstance(node, ast.Constant) and node.value is None


class Translator:
    def __init__(self, hci_mod, controller_mod):
        self.hci = hci_mod
        self.ctl = controller_mod
        src = inspect.getsource(controller_mod)
        self.tree = ast.parse(src)
        self.cls = next((n for n in self.tree.body if isinstance(n, ast.ClassDef) and n.name == 'Controller'), None)
        if self.cls is None:
            raise TranslationError('class Controller not found in bumble/controller.py')
        self.methods = {n.name: n for n in self.cls.body if isinstance(n, ast.FunctionDef)}
        self.stats = {'assert': 0, 'unknown': [], 'loops': 0, 'try': 0, 'nested_def': 0}
        self.credit_status = None
        self.credit_complete = None
        self.repliers = self._repliers()

    # ---- which functions of the module send a Command Status / Command Complete event
    # R_ctl: methods of Controller, R_other: functions of other classes / module level / nested
    # functions, that construct such an event or (transitively) call a function that does.
    # Inside Controller a call on `self` resolves to Controller methods and a call on any other
    # receiver to the functions of the other classes (by name); inside other classes every
    # attribute resolves by name against all classes (they hold a reference to the controller).
    def _functions(self):
        """[(owner, FunctionDef)] with owner 'Controller' or 'other'; nested functions are
        listed separately with the owner of their enclosing class"""
        out = []

        def visit(node, owner):
            for child in ast.iter_child_nodes(node):
                if isinstance(child, ast.ClassDef):
                    visit(child, 'Controller' if child is self.cls else 'other')
                elif isinstance(child, (ast.FunctionDef, ast.AsyncFunctionDef)):
                    out.append((owner, child))
                    visit(child, owner)
                else:
                    visit(child, owner)
        visit(self.tree, 'other')
        return out

    @staticmethod
    def _mentions_reply_event(node) -> bool:
        for n in ast.walk(node):
            if isinstance(n, ast.Attribute) and n.attr in ('HCI_Command_Status_Event', 'HCI_Command_Complete_Event'):
                return True
            if isinstance(n, ast.Name) and n.id in ('HCI_Command_Status_Event', 'HCI_Command_Complete_Event'):
                return True
        return False

    def _refs(self, node, owner):
        """names of functions referenced by node: (set of Controller method names, set of other names)"""
        ctl, other = set(), set()
        for n in ast.walk(node):
            if isinstance(n, ast.Attribute):
                if owner == 'Controller':
                    if _is_name(n.value, 'self'):
                        ctl.add(n.attr)
                    else:
                        other.add(n.attr)
                else:
                    ctl.add(n.attr)
                    other.add(n.attr)
            elif isinstance(n, ast.Name):
                other.add(n.id)
        return ctl, other

    def _repliers(self):
        funcs = self._functions()
        r_ctl, r_other = set(), set()
        for owner, f in funcs:
            if self._mentions_reply_event(f):
                (r_ctl if owner == 'Controller' and f.name in self.methods and self.methods[f.name] is f
                 else r_other).add(f.name)
        changed = True
        while changed:
            changed = False
            for owner, f in funcs:
                is_method = owner == 'Controller' and self.methods.get(f.name) is f
                if (f.name in r_ctl) if is_method else (f.name in r_other):
                    continue
                ctl, other = self._refs(f, owner)
                if (ctl & r_ctl) or (other & r_other):
                    (r_ctl if is_method else r_other).add(f.name)
                    changed = True
        return r_ctl, r_other

    def _mentions_replier(self, node) -> bool:
        if self._mentions_reply_event(node):
            return True
        ctl, other = self._refs(node, 'Controller')
        return bool((ctl & self.repliers[0]) or (other & self.repliers[1]))

    # ---- the two primitive senders: check their shape and read the credit constants
    def check_primitives(self):
        f = self.methods.get('_send_hci_command_status')
        if f is None:
            raise TranslationError('Controller._send_hci_command_status not found')
        args = [a.arg for a in f.args.args]
        if args != ['self', 'status', 'op_code']:
            raise TranslationError(f'_send_hci_command_status has parameters {args}')
        body = [s for s in f.body if not (isinstance(s, ast.Expr) and isinstance(s.value, ast.Constant))]
        ok = False
        if len(body) == 1 and isinstance(body[0], ast.Expr) and isinstance(body[0].value, ast.Call):
            call = body[0].value
            if _is_attr(call.func, 'self', 'send_hci_packet') and len(call.args) == 1 and isinstance(call.args[0], ast.Call):
                ev = call.args[0]
                if isinstance(ev.func, ast.Attribute) and ev.func.attr == 'HCI_Command_Status_Event' and not ev.args:
                    kw = {k.arg: k.value for k in ev.keywords}
                    if (set(kw) == {'status', 'num_hci_command_packets', 'command_opcode'}
                            and _is_name(kw['status'], 'status') and _is_name(kw['command_opcode'], 'op_code')
                            and isinstance(kw['num_hci_command_packets'], ast.Constant)
                            and isinstance(kw['num_hci_command_packets'].value, int)):
                        self.credit_status = kw['num_hci_command_packets'].value
                        ok = True
        if not ok:
            raise TranslationError('_send_hci_command_status is not `self.send_hci_packet(hci.HCI_Command_Status_Event('
                                   'status=status, num_hci_command_packets=<int>, command_opcode=op_code))`')

    # ---- recognised reply statements
    def _status_call(self, call, cmd) -> bool:
        """self._send_hci_command_status(<any>, <cmd>.op_code)"""
        if not (isinstance(call, ast.Call) and _is_attr(call.func, 'self', '_send_hci_command_status')):
            return False
        pos = list(call.args)
        kw = {k.arg: k.value for k in call.keywords}
        if len(pos) == 2 and not kw:
            status, op = pos
        elif len(pos) == 1 and set(kw) == {'op_code'}:
            status, op = pos[0], kw['op_code']
        elif not pos and set(kw) == {'status', 'op_code'}:
            status, op = kw['status'], kw['op_code']
        else:
            return False
        if self._mentions_replier(status):
            return False
        return _is_attr(op, cmd, 'op_code')

    def _complete_call(self, call, cmd) -> bool:
        """self.send_hci_packet(hci.HCI_Command_Complete_Event(num_hci_command_packets=<int>,
        command_opcode=<cmd>.op_code, return_parameters=<any>))"""
        if not (isinstance(call, ast.Call) and _is_attr(call.func, 'self', 'send_hci_packet')):
            return False
        if len(call.args) != 1 or call.keywords or not isinstance(call.args[0], ast.Call):
            return False
        ev = call.args[0]
        if not (isinstance(ev.func, ast.Attribute) and ev.func.attr == 'HCI_Command_Complete_Event') or ev.args:
            return False
        kw = {k.arg: k.value for k in ev.keywords}
        if set(kw) != {'num_hci_command_packets', 'command_opcode', 'return_parameters'}:
            return False
        if not _is_attr(kw['command_opcode'], cmd, 'op_code'):
            return False
        n = kw['num_hci_command_packets']
        if not (isinstance(n, ast.Constant) and isinstance(n.value, int)):
            return False
        if self._mentions_replier(kw['return_parameters']):
            return False
        if self.credit_complete is None:
            self.credit_complete = n.value
        else:
            self.credit_complete = min(self.credit_complete, n.value)
        return True

    def _is_return_parameters(self, node) -> bool:
        """hci.<X>(...) with X a subclass of hci.HCI_ReturnParameters: certainly not None"""
        if not (isinstance(node, ast.Call) and isinstance(node.func, ast.Attribute) and _is_name(node.func.value, 'hci')):
            return False
        cls = getattr(self.hci, node.func.attr, None)
        if not (isinstance(cls, type) and issubclass(cls, self.hci.HCI_ReturnParameters)):
            return False
        return not self._mentions_replier(node)

    def _sync_test(self, test, cmd):
        """isinstance(<cmd>, hci.HCI_SyncCommand)"""
        return (isinstance(test, ast.Call) and _is_name(test.func, 'isinstance') and len(test.args) == 2
                and not test.keywords and _is_name(test.args[0], cmd) and _is_attr(test.args[1], 'hci', 'HCI_SyncCommand'))

    # ---- statements
    def stmts(self, body, cmd, where, dispatch=None):
        return seq_all([self.stmt(s, cmd, where, dispatch) for s in body])

    def _unknown(self, where, node, why):
        self.stats['unknown'].append(f'{where}:{getattr(node, "lineno", "?")}: {why}')
        return 'Unknown'

    def stmt(self, s, cmd, where, dispatch):
        if isinstance(s, ast.Pass):
            return 'Nop'
        if isinstance(s, ast.Delete):
            if self._mentions_replier(s):
                return self._unknown(where, s, 'del mentions a replying function')
            return 'Nop'
        if isinstance(s, ast.Expr):
            v = s.value
            if isinstance(v, ast.Constant):
                return 'Nop'    # docstring
            if self._status_call(v, cmd):
                return 'Status'
            if self._complete_call(v, cmd):
                return 'Complete'
            if self._mentions_replier(v):
                return self._unknown(where, s, 'expression mentions a function that sends a Command Status/Complete event')
            return 'Nop'
        if isinstance(s, (ast.Assign, ast.AnnAssign, ast.AugAssign)):
            value = s.value
            if dispatch is not None and value is not None:
                r = self._dispatch_assign(s, value, cmd, dispatch)
                if r is not None:
                    return r
            if value is not None and self._mentions_replier(value):
                return self._unknown(where, s, 'assignment mentions a function that sends a Command Status/Complete event')
            targets = s.targets if isinstance(s, ast.Assign) else [s.target]
            if dispatch is not None:
                for t in targets:
                    for n in ast.walk(t):
                        if isinstance(n, ast.Name) and n.id in (dispatch.get('result'), dispatch.get('handler'), cmd):
                            raise TranslationError(f'{where}:{s.lineno}: dispatch re-binds `{n.id}`')
            return 'Nop'
        if isinstance(s, ast.Assert):
            if self._mentions_replier(s):
                return self._unknown(where, s, 'assert mentions a replying function')
            self.stats['assert'] += 1
            return 'Assert'
        if isinstance(s, ast.Return):
            v = s.value
            if v is None or _is_none(v):
                return 'ReturnN'
            if self._status_call(v, cmd):
                return Seq('Status', 'ReturnN')
            if dispatch is None and self._is_return_parameters(v):
                return 'ReturnV'
            if dispatch is not None:
                return self._unknown(where, s, 'dispatch returns a value')
            return self._unknown(where, s, 'returned expression is neither None nor hci.<…ReturnParameters>(…)')
        if isinstance(s, ast.Raise):
            return 'Raise'
        if isinstance(s, ast.If):
            if self._mentions_replier(s.test):
                return self._unknown(where, s, 'condition mentions a replying function')
            a = self.stmts(s.body, cmd, where, dispatch)
            b = self.stmts(s.orelse, cmd, where, dispatch)
            if self._sync_test(s.test, cmd):
                return ('IfSync', a, b)
            if dispatch is not None and dispatch.get('result'):
                t = s.test
                if (isinstance(t, ast.Compare) and _is_name(t.left, dispatch['result']) and len(t.ops) == 1
                        and _is_none(t.comparators[0])):
                    if isinstance(t.ops[0], ast.Is):
                        return ('IfResNone', a, b)
                    if isinstance(t.ops[0], ast.IsNot):
                        return ('IfResNone', b, a)
                for n in ast.walk(t):
                    if isinstance(n, ast.Name) and n.id == dispatch['result']:
                        return self._unknown(where, s, 'unrecognised test on the handler result')
            return If(a, b)
        if isinstance(s, (ast.For, ast.While)):
            if s.orelse:
                raise TranslationError(f'{where}:{s.lineno}: loop with else clause')
            hdr = s.iter if isinstance(s, ast.For) else s.test
            if self._mentions_replier(hdr):
                return self._unknown(where, s, 'loop header mentions a replying function')
            for n in ast.walk(s):
                if isinstance(n, (ast.Break, ast.Continue)):
                    raise TranslationError(f'{where}:{n.lineno}: break/continue is not supported')
            self.stats['loops'] += 1
            body = self.stmts(s.body, cmd, where, dispatch)
            if body == 'Nop':
                return 'Nop'
            return ('Loop', body)
        if isinstance(s, ast.Try):
            if s.finalbody or s.orelse:
                raise TranslationError(f'{where}:{s.lineno}: try with finally/else')
            body = self.stmts(s.body, cmd, where, dispatch)
            if not reply_free(body):
                return self._unknown(where, s, 'try body has reply effects or returns')
            self.stats['try'] += 1
            h = 'Nop'
            for handler in reversed(s.handlers):
                h = If(self.stmts(handler.body, cmd, where, dispatch), h)
            return Seq(body, h)
        if isinstance(s, (ast.FunctionDef, ast.AsyncFunctionDef, ast.Lambda)):
            if self._mentions_replier(s):
                return self._unknown(where, s, 'nested function mentions a replying function (a reply sent later)')
            self.stats['nested_def'] += 1
            return 'Nop'
        raise TranslationError(f'{where}:{getattr(s, "lineno", "?")}: unsupported statement {type(s).__name__}')

    # ---- dispatch-only assignments
    def _dispatch_assign(self, s, value, cmd, d):
        targets = s.targets if isinstance(s, ast.Assign) else [s.target]
        if len(targets) != 1 or not isinstance(targets[0], ast.Name):
            return None
        name = targets[0].id
        # handler_name = f'on_{command.name.lower()}'
        if isinstance(value, ast.JoinedStr):
            parts = value.values
            ok = (len(parts) == 2 and isinstance(parts[0], ast.Constant) and parts[0].value == 'on_'
                  and isinstance(parts[1], ast.FormattedValue) and parts[1].conversion == -1
                  and parts[1].format_spec is None)
            if ok:
                e = parts[1].value
                ok = (isinstance(e, ast.Call) and not e.args and not e.keywords and isinstance(e.func, ast.Attribute)
                      and e.func.attr == 'lower' and _is_attr(e.func.value, cmd, 'name'))
            if not ok:
                raise TranslationError(f"dispatch:{s.lineno}: handler name is not f'on_{{command.name.lower()}}'")
            d['handler_name_var'] = name
            return 'Nop'
        # handler = getattr(self, handler_name, self.<default>)
        if isinstance(value, ast.Call) and _is_name(value.func, 'getattr'):
            a = value.args
            if (len(a) == 3 and not value.keywords and _is_name(a[0], 'self') and d.get('handler_name_var')
                    and _is_name(a[1], d['handler_name_var']) and isinstance(a[2], ast.Attribute)
                    and _is_name(a[2].value, 'self')):
                d['handler'] = name
                d['default'] = a[2].attr
                return 'Nop'
            raise TranslationError(f'dispatch:{s.lineno}: unrecognised getattr')
        # result = handler(command)
        if isinstance(value, ast.Call) and d.get('handler') and _is_name(value.func, d['handler']):
            if len(value.args) == 1 and not value.keywords and _is_name(value.args[0], cmd):
                if d.get('result') not in (None, name):
                    raise TranslationError(f'dispatch:{s.lineno}: two result variables')
                d['result'] = name
                d['calls'] = d.get('calls', 0) + 1
                return 'CallH'
            raise TranslationError(f'dispatch:{s.lineno}: handler not called as handler(command)')
        return None

    # ---- functions
    def handler(self, name):
        f = self.methods[name]
        args = [a.arg for a in f.args.args]
        if len(args) != 2 or args[0] != 'self' or f.args.vararg or f.args.kwarg or f.args.kwonlyargs:
            raise TranslationError(f'{name}: unexpected signature {args}')
        if f.decorator_list:
            raise TranslationError(f'{name}: decorated handler')
        return self.stmts(f.body, args[1], name)

    def dispatch(self):
        f = self.methods.get('on_hci_command_packet')
        if f is None:
            raise TranslationError('Controller.on_hci_command_packet not found')
        args = [a.arg for a in f.args.args]
        if len(args) != 2 or args[0] != 'self' or f.decorator_list:
            raise TranslationError(f'on_hci_command_packet: unexpected signature {args}')
        d = {}
        sk = self.stmts(f.body, args[1], 'on_hci_command_packet', d)
        if d.get('calls', 0) < 1 or 'default' not in d:
            raise TranslationError('on_hci_command_packet: handler lookup / call not recognised')
        # every use of the handler variable other than the recognised call is rejected
        for n in ast.walk(f):
            if isinstance(n, ast.Call) and _is_name(n.func, d['handler']):
                continue
        uses = sum(1 for n in ast.walk(f) if isinstance(n, ast.Name) and n.id == d['handler'])
        if uses != 1 + d['calls']:
            raise TranslationError('on_hci_command_packet: handler variable used outside the recognised call')
        return sk, d['default']


KIND = {'sync': 'KSync', 'async': 'KAsync', 'none': 'KNone'}


def load_full_registry():
    """HCI_Command.command_classes grows when the driver and vendor modules are imported (they
    register vendor commands at import time, and bumble.host imports the drivers): import all of
    them so that the table covers what a complete process sees.  Fail closed."""
    import importlib
    import pkgutil
    import bumble.host  # noqa: F401  (imports bumble.drivers)
    import bumble.drivers
    import bumble.vendor
    for pkg in (bumble.drivers, bumble.vendor):
        for m in pkgutil.walk_packages(pkg.__path__, pkg.__name__ + '.'):
            importlib.import_module(m.name)


def translate():
    """returns (coq_text, info).  info: rows [(opcode, name, kind, handler_name|None, skeleton_text)], stats"""
    import bumble.hci as hci
    import bumble.controller as controller
    load_full_registry()

    tr = Translator(hci, controller)
    tr.check_primitives()
    dispatch_sk, default_name = tr.dispatch()
    if default_name not in tr.methods:
        raise TranslationError(f'default handler {default_name} not found')
    default_sk = tr.handler(default_name)
    if tr.credit_complete is None:
        raise TranslationError('no Command Complete event is sent by the dispatch function or any handler')

    opcodes = sorted(set(hci.HCI_Command.command_classes) | set(hci.HCI_Command.command_names))
    rows = []
    used = set()
    for op in opcodes:
        cls = hci.HCI_Command.command_classes.get(op)
        if cls is None:
            kind = 'none'
        elif issubclass(cls, hci.HCI_SyncCommand):
            kind = 'sync'
        elif issubclass(cls, hci.HCI_AsyncCommand):
            kind = 'async'
        else:
            kind = 'none'
        if not (0 <= op <= 0xFFFF):
            raise TranslationError(f'opcode {op} out of range')
        name = hci.HCI_Command.command_name(op)       # what HCI_Command.__init__ stores in .name
        hname = 'on_' + name.lower()
        present = hasattr(controller.Controller, hname)
        sk = None
        if present:
            if hname not in tr.methods:
                raise TranslationError(f'{hname} exists on Controller but is not a plain method of the class body')
            sk = tr.handler(hname)
            used.add(hname)
        rows.append((op, name, kind, hname if present else None, sk))
    # handlers that can never be selected by the dispatch are reported (not an error)
    import re
    orphans = sorted(n for n in tr.methods if re.fullmatch(r'on_hci_.*_command', n) and n not in used)

    lines = [
        '(* GENERATED by tools/translate/c03_skeleton.py from bumble/controller.py and bumble/hci.py.',
        '   Do not edit: rewritten on every run of ./check C03. *)',
        'From Coq Require Import ZArith List.',
        'From BV Require Import Model.Skeleton.',
        'Import ListNotations.',
        'Open Scope Z_scope.',
        '',
        '(* Controller.on_hci_command_packet *)',
        f'Definition dispatch : sk := {to_coq(dispatch_sk)}.',
        '',
        f'(* Controller.{default_name}: used when no handler named on_<command name> exists *)',
        f'Definition default_handler : sk := {to_coq(default_sk)}.',
        '',
        '(* num_hci_command_packets constants of _send_hci_command_status / the Command Complete sender *)',
        f'Definition status_credit : Z := {tr.credit_status}.',
        f'Definition complete_credit : Z := {tr.credit_complete}.',
        '',
        '(* one row per opcode that has a registered class or a name; every other opcode has no class',
        '   and a name of the form [OGF=..,OCF=..], hence no handler *)',
        'Definition table : list entry := [',
    ]
    body = []
    for op, name, kind, hname, sk in rows:
        h = 'None' if sk is None else f'(Some {to_coq(sk)})'
        body.append(f'  mkEntry {op} {KIND[kind]} {h} (* {name} *)')
    lines.append(';\n'.join(body))
    lines += ['].', '', 'Definition ctrl : ctrl_desc := mkCtrl dispatch default_handler table.', '']
    info = {
        'rows': rows,
        'default': default_name,
        'dispatch': to_coq(dispatch_sk),
        'default_sk': to_coq(default_sk),
        'credits': [tr.credit_status, tr.credit_complete],
        'stats': tr.stats,
        'orphans': orphans,
        'repliers': [sorted(tr.repliers[0]), sorted(tr.repliers[1])],
    }
    return '\n'.join(lines), info
