"""C14 translator: source of the anchored pure-Python functions -> coq/Gen/C14Source.v

Every function listed in INTERPRETED is parsed with `ast` from the file under $BUMBLE_REPO and
turned into a term of the Python-subset syntax of coq/Model/PyAst.v (expr / stmt).  Proofs/
PySource*.v prove `..._matches_source` theorems: running that term in the interpreter gives the
hand-written model.  An edit that changes argument order, a reversal, a slice bound, an operator,
a guard, the order of statements ... changes the term and the theorem no longer holds (or the
translator meets a construct outside the subset and aborts: fail closed).

Functions that contain loops / comprehensions (FINGERPRINTED) are not interpreted; for them a
digest of the normalised AST (no docstrings, comments, annotations, formatting) is emitted and
compared in Coq with the digest recorded when the model was written.
"""
from __future__ import annotations

import ast
import hashlib
import os

# (file, qualified name, emitted name)
INTERPRETED = [
    ('bumble/crypto/__init__.py', 'generate_prand', 'generate_prand'),
    ('bumble/crypto/__init__.py', 'xor', 'xor'),
    ('bumble/crypto/__init__.py', 'reverse', 'reverse'),
    ('bumble/crypto/__init__.py', 'ah', 'ah'),
    ('bumble/crypto/__init__.py', 'c1', 'c1'),
    ('bumble/crypto/__init__.py', 's1', 's1'),
    ('bumble/crypto/__init__.py', 'f4', 'f4'),
    ('bumble/crypto/__init__.py', 'f5', 'f5'),
    ('bumble/crypto/__init__.py', 'f6', 'f6'),
    ('bumble/crypto/__init__.py', 'g2', 'g2'),
    ('bumble/crypto/__init__.py', 'h6', 'h6'),
    ('bumble/crypto/__init__.py', 'h7', 'h7'),
    ('bumble/crypto/builtin.py', '_shift_bytes', 'shift_bytes'),
    ('bumble/crypto/builtin.py', 'e', 'builtin_e'),
    ('bumble/crypto/builtin.py', 'aes_cmac', 'builtin_aes_cmac'),
    ('bumble/crypto/builtin.py', '_CMAC.__init__', 'cmac_init'),
    ('bumble/crypto/builtin.py', '_CMAC.update', 'cmac_update'),
    ('bumble/crypto/builtin.py', '_CMAC._update', 'cmac_update_aligned'),
    ('bumble/crypto/builtin.py', '_CMAC.digest', 'cmac_digest'),
    ('bumble/crypto/builtin.py', '_JacobianPoint.from_affine', 'jac_from_affine'),
    ('bumble/crypto/builtin.py', '_JacobianPoint.to_affine', 'jac_to_affine'),
    ('bumble/crypto/builtin.py', '_JacobianPoint.double', 'jac_double'),
    ('bumble/crypto/builtin.py', '_JacobianPoint.__add__', 'jac_add'),
    ('bumble/crypto/builtin.py', '_EllipticCurve.generate_public_key', 'generate_public_key'),
    ('bumble/crypto/builtin.py', '_EllipticCurve.is_on_curve', 'is_on_curve'),
    ('bumble/crypto/builtin.py', '_EllipticCurve.ecdh_shared_secret', 'ecdh_shared_secret'),
    ('bumble/crypto/builtin.py', 'EccKey.dh', 'ecc_dh'),
    ('bumble/crypto/builtin.py', 'EccKey.x', 'ecc_x'),
    ('bumble/crypto/builtin.py', 'EccKey.y', 'ecc_y'),
    ('bumble/hci.py', 'Address.generate_private_address', 'generate_private_address'),
    ('bumble/hci.py', 'Address.is_resolvable', 'is_resolvable'),
    ('bumble/helpers.py', 'verify_rpa_with_irk', 'verify_rpa_with_irk'),
]

FINGERPRINTED = [
    ('bumble/crypto/builtin.py', '_xor', 'builtin_xor'),
    ('bumble/crypto/builtin.py', '_compact_word', 'compact_word'),
    ('bumble/crypto/builtin.py', '_AES.__init__', 'aes_init'),
    ('bumble/crypto/builtin.py', '_AES.encrypt', 'aes_encrypt'),
    ('bumble/crypto/builtin.py', '_ECB.__init__', 'ecb_init'),
    ('bumble/crypto/builtin.py', '_ECB.encrypt', 'ecb_encrypt'),
    ('bumble/crypto/builtin.py', '_CBC.__init__', 'cbc_init'),
    ('bumble/crypto/builtin.py', '_CBC.encrypt', 'cbc_encrypt'),
    ('bumble/crypto/builtin.py', '_JacobianPoint.point_at_infinity', 'jac_point_at_infinity'),
    ('bumble/crypto/builtin.py', '_JacobianPoint.__mul__', 'jac_mul'),
    ('bumble/crypto/builtin.py', '_JacobianPoint.__rmul__', 'jac_rmul'),
    ('bumble/crypto/builtin.py', '_EllipticCurve.__post_init__', 'curve_post_init'),
    ('bumble/crypto/builtin.py', 'EccKey.__init__', 'ecc_key_init'),
    ('bumble/crypto/builtin.py', 'EccKey.from_private_key_bytes', 'ecc_from_private_key_bytes'),
    ('bumble/smp.py', 'AddressResolver.__init__', 'address_resolver_init'),
    ('bumble/smp.py', 'AddressResolver.resolve', 'address_resolver_resolve'),
    ('bumble/hci.py', 'Address.__bytes__', 'address_bytes'),
]

# classes whose field set / defaults the models rely on: fingerprint of the class-level statements
CLASS_SHAPES = [
    ('bumble/crypto/builtin.py', '_Point', 'point_class'),
    ('bumble/crypto/builtin.py', '_JacobianPoint', 'jacobian_class'),
    ('bumble/crypto/builtin.py', 'EccKey', 'ecc_key_class'),
    ('bumble/crypto/builtin.py', '_CMAC', 'cmac_class'),
    ('bumble/smp.py', 'AddressResolver', 'address_resolver_class'),
]

# calls with keyword arguments: parameter order and defaults (None = required)
SIGNATURES = {
    '_JacobianPoint': (['curve', 'x', 'y', 'z'], {'x': 1, 'y': 1, 'z': 0}),
    '_Point': (['curve', 'x', 'y', 'infinite'], {'x': 0, 'y': 0, 'infinite': False}),
    'int.from_bytes': (['bytes', 'byteorder', 'signed'], {'signed': False}),
    '.to_bytes': (['self', 'length', 'byteorder'], {}),
    'Address': (['address', 'address_type'], {}),
    '_CMAC': (['key', 'msg', 'mac_len', 'update_after_digest'], {'mac_len': 16, 'update_after_digest': False}),
    'core.InvalidPacketError': (['message'], {}),
}

FLAT_ROOTS = {'self', 'cls', 'int', 'secrets', 'operator', 'core', 'crypto', 'struct'}
# calls that run interpreted code with access to the object state (become SCall statements)
STATEFUL_CALLS = {'self.update', 'self._update', 'self._cbc.encrypt'}

BINOPS = {ast.Add: 'Add', ast.Sub: 'Sub', ast.Mult: 'Mul', ast.Pow: 'Pow', ast.Mod: 'Mod', ast.FloorDiv: 'FloorDiv',
          ast.BitXor: 'BitXor', ast.BitAnd: 'BitAnd', ast.BitOr: 'BitOr', ast.LShift: 'LShift', ast.RShift: 'RShift'}
CMPOPS = {ast.Eq: 'CEq', ast.NotEq: 'CNotEq', ast.Lt: 'CLt', ast.LtE: 'CLtE', ast.Gt: 'CGt', ast.GtE: 'CGtE',
          ast.Is: 'CIs', ast.IsNot: 'CIsNot'}


class Unsupported(Exception):
    pass


def _s(text):
    return '"' + text.replace('"', '""') + '"'


def _z(n):
    return f'({n})' if n < 0 else str(n)


def _lst(items):
    return '[' + '; '.join(items) + ']'


def _opt(x):
    return 'None' if x is None else f'(Some {x})'


def dotted(node):
    """a.b.c for an attribute chain rooted at a Name, else None"""
    parts = []
    while isinstance(node, ast.Attribute):
        parts.append(node.attr)
        node = node.value
    if isinstance(node, ast.Name):
        parts.append(node.id)
        return list(reversed(parts))
    return None


def flat_root(name):
    return name in FLAT_ROOTS or name[:1].isupper() or (name[:1] == '_' and name[1:2].isupper())


class Conv:
    def __init__(self, where):
        self.where = where

    def fail(self, node, what):
        raise Unsupported(f'c14_ast: {self.where}: line {getattr(node, "lineno", "?")}: unsupported {what}: {ast.dump(node)[:120]}')

    # ---- expressions
    def expr(self, n):
        if isinstance(n, ast.Constant):
            v = n.value
            if v is None:
                return 'ENone'
            if isinstance(v, bool):
                return f'(EBool {"true" if v else "false"})'
            if isinstance(v, int):
                return f'(EInt {_z(v)})'
            if isinstance(v, bytes):
                return f'(EBytes {_lst([str(b) for b in v])})'
            if isinstance(v, str):
                return f'(EStr {_s(v)})'
            self.fail(n, 'constant')
        if isinstance(n, ast.Name):
            return f'(EName {_s(n.id)})'
        if isinstance(n, ast.Attribute):
            d = dotted(n)
            if d is not None and flat_root(d[0]):
                return f'(EName {_s(".".join(d))})'
            return f'(EAttr {self.expr(n.value)} {_s(n.attr)})'
        if isinstance(n, ast.BinOp):
            if type(n.op) not in BINOPS:
                self.fail(n, 'operator')
            return f'(EBin {BINOPS[type(n.op)]} {self.expr(n.left)} {self.expr(n.right)})'
        if isinstance(n, ast.UnaryOp):
            if isinstance(n.op, ast.Not):
                return f'(ENot {self.expr(n.operand)})'
            if isinstance(n.op, ast.USub):
                if isinstance(n.operand, ast.Constant) and isinstance(n.operand.value, int):
                    return f'(EInt {_z(-n.operand.value)})'
                return f'(ENeg {self.expr(n.operand)})'
            self.fail(n, 'unary operator')
        if isinstance(n, ast.BoolOp):
            ctor = 'EAnd' if isinstance(n.op, ast.And) else 'EOr'
            out = self.expr(n.values[-1])
            for v in reversed(n.values[:-1]):
                out = f'({ctor} {self.expr(v)} {out})'
            return out
        if isinstance(n, ast.Compare):
            parts = []
            left = n.left
            for op, right in zip(n.ops, n.comparators):
                if type(op) not in CMPOPS:
                    self.fail(n, 'comparison')
                parts.append(f'(ECmp {CMPOPS[type(op)]} {self.expr(left)} {self.expr(right)})')
                left = right
            out = parts[-1]
            for p in reversed(parts[:-1]):
                out = f'(EAnd {p} {out})'
            return out
        if isinstance(n, ast.Call):
            # bytes.fromhex('<literal>') is a constant: folded here
            if dotted(n.func) == ['bytes', 'fromhex'] and len(n.args) == 1 and not n.keywords \
                    and isinstance(n.args[0], ast.Constant) and isinstance(n.args[0].value, str):
                return f'(EBytes {_lst([str(b) for b in bytes.fromhex(n.args[0].value)])})'
            fname, args = self.call(n)
            return f'(ECall {_s(fname)} {_lst(args)})'
        if isinstance(n, ast.Subscript):
            sl = n.slice
            if isinstance(sl, ast.Slice):
                if sl.step is not None:
                    if (isinstance(sl.step, ast.UnaryOp) and isinstance(sl.step.op, ast.USub) and isinstance(sl.step.operand, ast.Constant)
                            and sl.step.operand.value == 1 and sl.lower is None and sl.upper is None):
                        return f'(ECall "[::-1]" {_lst([self.expr(n.value)])})'
                    self.fail(n, 'slice step')
                lo = None if sl.lower is None else self.expr(sl.lower)
                hi = None if sl.upper is None else self.expr(sl.upper)
                return f'(ESlice {self.expr(n.value)} {_opt(lo)} {_opt(hi)})'
            return f'(EIndex {self.expr(n.value)} {self.expr(sl)})'
        if isinstance(n, (ast.List, ast.Tuple)):
            return f'(ETuple {_lst([self.expr(x) for x in n.elts])})'
        if isinstance(n, ast.JoinedStr):
            return '(EStr "")'          # f-string of an error message: content irrelevant
        if isinstance(n, ast.NamedExpr):
            self.fail(n, 'assignment expression')
        self.fail(n, 'expression')

    def call(self, n):
        f = n.func
        recv = []
        if isinstance(f, ast.Name):
            fname = f.id
        elif isinstance(f, ast.Attribute):
            d = dotted(f)
            if d is not None and flat_root(d[0]):
                fname = '.'.join(d)
                if d[0] == 'self' and fname not in STATEFUL_CALLS:
                    recv = ['(EName "self")']        # a method of (a component of) the object: receiver first
            else:
                fname = '.' + f.attr
                recv = [self.expr(f.value)]
        else:
            self.fail(n, 'callee')
        for a in n.args:
            if isinstance(a, ast.Starred):
                self.fail(n, 'starred argument')
        # bytes(map(operator.xor, x, y)): the only use of map
        if fname == 'bytes' and len(n.args) == 1 and isinstance(n.args[0], ast.Call) and isinstance(n.args[0].func, ast.Name) \
                and n.args[0].func.id == 'map':
            m = n.args[0]
            if len(m.args) == 3 and dotted(m.args[0]) == ['operator', 'xor'] and not m.keywords:
                return 'bytes(map(operator.xor))', [self.expr(m.args[1]), self.expr(m.args[2])]
            self.fail(n, 'map')
        args = recv + [self.expr(a) for a in n.args]
        if n.keywords:
            if fname not in SIGNATURES:
                self.fail(n, f'keyword arguments of {fname}')
            params, defaults = SIGNATURES[fname]
            slots = dict(zip(params, args))
            for kw in n.keywords:
                if kw.arg is None or kw.arg not in params or kw.arg in slots:
                    self.fail(n, f'keyword {kw.arg}')
                slots[kw.arg] = self.expr(kw.value)
            args = []
            for p in params:
                if p in slots:
                    args.append(slots[p])
                elif p in defaults:
                    args.append(self.expr(ast.Constant(defaults[p])))
                else:
                    args.append('ENone')
        elif fname in SIGNATURES:
            params, defaults = SIGNATURES[fname]
            for p in params[len(args):]:
                args.append(self.expr(ast.Constant(defaults[p])) if p in defaults else 'ENone')
        return fname, args

    # ---- statements
    def target(self, t):
        if isinstance(t, ast.Name):
            return t.id
        d = dotted(t)
        if d is not None and d[0] == 'self':
            return '.'.join(d)
        self.fail(t, 'assignment target')

    def body(self, stmts):
        out = []
        for i, s in enumerate(stmts):
            if isinstance(s, ast.Expr) and isinstance(s.value, ast.Constant) and isinstance(s.value.value, str):
                continue        # docstring
            out.append(self.stmt(s))
        return _lst(out)

    def stmt(self, s):
        if isinstance(s, (ast.Assign, ast.AnnAssign)):
            if isinstance(s, ast.AnnAssign):
                if s.value is None:
                    return 'SPass'
                targets, value = [s.target], s.value
            else:
                targets, value = s.targets, s.value
            if len(targets) != 1:
                # a = b = value: evaluated once in Python; only allowed for a side-effect-free value
                if not isinstance(value, (ast.Constant, ast.Name)):
                    self.fail(s, 'multiple targets')
                return '; '.join(f'(SAssign {_s(self.target(t))} {self.expr(value)})' for t in targets)
            t = targets[0]
            if isinstance(t, ast.Tuple):
                return f'(SAssignTuple {_lst([_s(self.target(x)) for x in t.elts])} {self.expr(value)})'
            if isinstance(t, ast.Subscript):
                if not isinstance(t.slice, ast.Slice) or t.slice.step is not None:
                    self.fail(s, 'subscript assignment')
                lo = None if t.slice.lower is None else self.expr(t.slice.lower)
                hi = None if t.slice.upper is None else self.expr(t.slice.upper)
                return f'(SSliceAssign {_s(self.target(t.value))} {_opt(lo)} {_opt(hi)} {self.expr(value)})'
            if isinstance(value, ast.Call):
                fname, args = self.call(value)
                if fname in STATEFUL_CALLS:
                    return f'(SCall (Some {_s(self.target(t))}) {_s(fname)} {_lst(args)})'
            return f'(SAssign {_s(self.target(t))} {self.expr(value)})'
        if isinstance(s, ast.AugAssign):
            if type(s.op) not in BINOPS:
                self.fail(s, 'operator')
            return f'(SAug {_s(self.target(s.target))} {BINOPS[type(s.op)]} {self.expr(s.value)})'
        if isinstance(s, ast.If):
            return f'(SIf {self.expr(s.test)} {self.body(s.body)} {self.body(s.orelse)})'
        if isinstance(s, ast.While):
            if s.orelse:
                self.fail(s, 'while/else')
            return f'(SWhile {self.expr(s.test)} {self.body(s.body)})'
        if isinstance(s, ast.Return):
            return f'(SReturn {"ENone" if s.value is None else self.expr(s.value)})'
        if isinstance(s, ast.Expr):
            if isinstance(s.value, ast.Call):
                fname, args = self.call(s.value)
                if fname in STATEFUL_CALLS:
                    return f'(SCall None {_s(fname)} {_lst(args)})'
            return f'(SExpr {self.expr(s.value)})'
        if isinstance(s, ast.Assert):
            return f'(SAssert {self.expr(s.test)})'
        if isinstance(s, ast.Raise):
            return 'SRaise'
        if isinstance(s, ast.Pass):
            return 'SPass'
        self.fail(s, 'statement')


def find_def(tree, qual, where):
    node = tree
    for part in qual.split('.'):
        found = None
        for ch in node.body:
            if isinstance(ch, (ast.FunctionDef, ast.AsyncFunctionDef, ast.ClassDef)) and ch.name == part:
                found = ch
        if found is None:
            raise Unsupported(f'c14_ast: {where}: {qual} not found')
        node = found
    return node


def params_of(fn):
    a = fn.args
    if a.vararg or a.kwarg or a.kwonlyargs or a.posonlyargs:
        raise Unsupported(f'c14_ast: {fn.name}: unsupported parameter kinds')
    names = [x.arg for x in a.args]
    defaults = [None] * (len(names) - len(a.defaults)) + list(a.defaults)
    return names, defaults


class _Strip(ast.NodeTransformer):
    """normal form for fingerprints: no docstrings, no annotations, no type comments"""

    def visit_FunctionDef(self, node):
        self.generic_visit(node)
        node.returns = None
        node.decorator_list = [d for d in node.decorator_list]
        if node.body and isinstance(node.body[0], ast.Expr) and isinstance(node.body[0].value, ast.Constant) \
                and isinstance(node.body[0].value.value, str):
            node.body = node.body[1:] or [ast.Pass()]
        return node

    def visit_arg(self, node):
        node.annotation = None
        return node

    def visit_AnnAssign(self, node):
        self.generic_visit(node)
        if node.value is None:
            return ast.Pass()
        return ast.Assign(targets=[node.target], value=node.value)


def fingerprint(node):
    import copy
    n = _Strip().visit(copy.deepcopy(node))
    return hashlib.sha256(ast.dump(n, annotate_fields=True, include_attributes=False).encode()).hexdigest()[:32]


def class_shape(cls):
    """the class-level statements that are not methods (dataclass fields and defaults), decorators"""
    import copy
    c = copy.deepcopy(cls)
    c.body = [s for s in c.body if not isinstance(s, (ast.FunctionDef, ast.AsyncFunctionDef, ast.ClassDef))
              and not (isinstance(s, ast.Expr) and isinstance(s.value, ast.Constant))]
    methods = sorted(s.name for s in cls.body if isinstance(s, (ast.FunctionDef, ast.AsyncFunctionDef)))
    text = ast.dump(c, include_attributes=False) + '|' + ','.join(methods)
    return hashlib.sha256(text.encode()).hexdigest()[:32]


def generate(repo: str) -> str:
    trees = {}

    def tree(rel):
        if rel not in trees:
            with open(os.path.join(repo, rel)) as f:
                trees[rel] = ast.parse(f.read())
        return trees[rel]

    out = ['(* GENERATED by tools/translate/c14_ast.py from the bumble sources - do not edit *)',
           'From Coq Require Import ZArith List String.', 'From BV Require Import Model.PyAst.',
           'Import ListNotations.', 'Open Scope Z_scope.', 'Open Scope string_scope.', '']
    for rel, qual, name in INTERPRETED:
        fn = find_def(tree(rel), qual, rel)
        if not isinstance(fn, ast.FunctionDef):
            raise Unsupported(f'c14_ast: {rel}: {qual} is not a function')
        conv = Conv(f'{rel}:{qual}')
        names, defaults = params_of(fn)
        out.append(f'(* {rel} : {qual} *)')
        out.append(f'Definition src_{name}_params : list string := {_lst([_s(x) for x in names])}.')
        dl = [('None' if d is None else f'(Some {conv.expr(d)})') for d in defaults]
        out.append(f'Definition src_{name}_defaults : list (option expr) := {_lst(dl)}.')
        out.append(f'Definition src_{name} : list stmt :=\n  {conv.body(fn.body)}.')
        out.append('')
    for rel, qual, name in FINGERPRINTED:
        node = find_def(tree(rel), qual, rel)
        out.append(f'(* {rel} : {qual} *)')
        out.append(f'Definition fp_{name} : string := {_s(fingerprint(node))}.')
    for rel, qual, name in CLASS_SHAPES:
        node = find_def(tree(rel), qual, rel)
        out.append(f'(* {rel} : class {qual} (fields, defaults, decorators, method names) *)')
        out.append(f'Definition fp_{name} : string := {_s(class_shape(node))}.')
    out.append('')
    return '\n'.join(out)


def regen(ctx):
    ctx.write_gen('C14Source', generate(ctx.repo))
