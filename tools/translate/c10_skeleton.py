"""Translator for C10/C11 (second tie): the normalised code of every function the model
Model/AttServer.v was read from, regenerated on every run into coq/Gen/C10Skeleton.v and compared inside the
Coq kernel (Props/C10.v, Props/C11.v: `..._matches_source` theorems, vm_compute) with the frozen reading
coq/Model/AttSkeleton.v.

Normalisation (so that only edits that can change behaviour break the obligation): the function is taken from
the AST; docstrings, calls of `logger.*` / `logging.*` used as statements, `del` statements, bare annotations and
all type annotations are removed; the rest is rendered by ast.unparse (which also removes comments and layout)
and split into lines.  Every size constant (`att_mtu - 1/2/3/4/6`, `min(..., 251/253)`), comparison operator,
loop / break / return, awaited read_value / write_value, error code and response constructor is on one of
these lines, in program order.

`python -m translate.c10_skeleton --snapshot` prints the Coq text of the frozen reading for the current tree.
"""
from __future__ import annotations

import ast
import os
import sys


class TranslateError(Exception):
    pass


# (file, class or None, function, properties that read it)
FUNCTIONS = [
    ('bumble/device.py', 'Device', 'on_gatt_pdu'),
    ('bumble/gatt_server.py', None, '_att_request_handler'),
    ('bumble/gatt_server.py', 'Server', 'register_eatt'),
    ('bumble/gatt_server.py', 'Server', 'send_gatt_pdu'),
    ('bumble/gatt_server.py', 'Server', 'get_attribute'),
    ('bumble/gatt_server.py', 'Server', 'read_cccd'),
    ('bumble/gatt_server.py', 'Server', 'write_cccd'),
    ('bumble/gatt_server.py', 'Server', 'send_response'),
    ('bumble/gatt_server.py', 'Server', '_notify_single_subscriber'),
    ('bumble/gatt_server.py', 'Server', '_indicate_single_bearer'),
    ('bumble/gatt_server.py', 'Server', 'on_disconnection'),
    ('bumble/gatt_server.py', 'Server', 'on_invalid_gatt_pdu'),
    ('bumble/gatt_server.py', 'Server', 'on_gatt_pdu'),
    ('bumble/gatt_server.py', 'Server', 'on_att_request'),
    ('bumble/gatt_server.py', 'Server', 'on_att_exchange_mtu_request'),
    ('bumble/gatt_server.py', 'Server', 'on_att_find_information_request'),
    ('bumble/gatt_server.py', 'Server', 'on_att_find_by_type_value_request'),
    ('bumble/gatt_server.py', 'Server', 'on_att_read_by_type_request'),
    ('bumble/gatt_server.py', 'Server', 'on_att_read_request'),
    ('bumble/gatt_server.py', 'Server', 'on_att_read_blob_request'),
    ('bumble/gatt_server.py', 'Server', 'on_att_read_by_group_type_request'),
    ('bumble/gatt_server.py', 'Server', 'on_att_read_multiple_request'),
    ('bumble/gatt_server.py', 'Server', 'on_att_read_multiple_variable_request'),
    ('bumble/gatt_server.py', 'Server', 'on_att_write_request'),
    ('bumble/gatt_server.py', 'Server', 'on_att_write_command'),
    ('bumble/gatt_server.py', 'Server', 'on_att_handle_value_confirmation'),
    # where a bearer's ATT_MTU comes from: the L2CAP accept path of an enhanced bearer, the channel
    # constructor and response handlers, and the update hooks of both bearer kinds
    ('bumble/l2cap.py', 'LeCreditBasedChannel', '__init__'),
    ('bumble/l2cap.py', 'LeCreditBasedChannel', 'on_connection_response'),
    ('bumble/l2cap.py', 'LeCreditBasedChannel', 'on_enhanced_connection_response'),
    ('bumble/l2cap.py', 'LeCreditBasedChannel', 'on_att_mtu_update'),
    ('bumble/l2cap.py', 'LeCreditBasedChannel', 'write'),
    ('bumble/l2cap.py', 'LeCreditBasedChannel', 'process_output'),
    ('bumble/l2cap.py', 'ChannelManager', 'on_l2cap_le_credit_based_connection_request'),
    ('bumble/l2cap.py', 'ChannelManager', 'on_l2cap_credit_based_connection_request'),
    ('bumble/device.py', 'Connection', 'on_att_mtu_update'),
    ('bumble/att.py', 'ATT_PDU', 'from_bytes'),
    ('bumble/att.py', 'Attribute', 'read_value'),
    ('bumble/att.py', 'Attribute', 'write_value'),
]


def key_of(cls, fn):
    return f'{cls}.{fn}' if cls else fn


def ident_of(cls, fn):
    return (f'{cls}_{fn}' if cls else fn).replace('__', '_').strip('_')


def _is_noise(n) -> bool:
    if isinstance(n, ast.Delete):
        return True
    if isinstance(n, ast.AnnAssign) and n.value is None:
        return True
    if isinstance(n, ast.Expr):
        v = n.value
        if isinstance(v, ast.Constant) and isinstance(v.value, str):
            return True                                       # docstring / string statement
        if isinstance(v, ast.Call):
            f = v.func
            if (isinstance(f, ast.Attribute) and isinstance(f.value, ast.Name)
                    and f.value.id in ('logger', 'logging')):
                return True
    return False


def _clean_body(body, keep_nonempty=True):
    out = [_clean_stmt(n) for n in body if not _is_noise(n)]
    return out or ([ast.Pass()] if keep_nonempty else [])


def _clean_stmt(n):
    if isinstance(n, ast.AnnAssign):
        return ast.Assign(targets=[n.target], value=n.value, lineno=0)
    if isinstance(n, (ast.FunctionDef, ast.AsyncFunctionDef)):
        n.returns = None
        for a in n.args.posonlyargs + n.args.args + n.args.kwonlyargs:
            a.annotation = None
        if n.args.vararg:
            n.args.vararg.annotation = None
        if n.args.kwarg:
            n.args.kwarg.annotation = None
    if isinstance(getattr(n, 'body', None), list):
        n.body = _clean_body(n.body)
    for field in ('orelse', 'finalbody'):
        if isinstance(getattr(n, field, None), list) and getattr(n, field):
            setattr(n, field, _clean_body(getattr(n, field), keep_nonempty=False))
    if isinstance(n, ast.Try):
        for h in n.handlers:
            h.body = _clean_body(h.body)
    if isinstance(n, ast.Match):
        for c in n.cases:
            c.body = _clean_body(c.body)
    return n


def _find(tree, cls, fn):
    scope = tree.body
    if cls:
        c = next((n for n in tree.body if isinstance(n, ast.ClassDef) and n.name == cls), None)
        if c is None:
            raise TranslateError(f'class {cls} not found')
        scope = c.body
    found = [n for n in scope if isinstance(n, (ast.FunctionDef, ast.AsyncFunctionDef)) and n.name == fn]
    if len(found) != 1:
        raise TranslateError(f'{key_of(cls, fn)}: {len(found)} definitions found')
    return found[0]


def extract(repo: str) -> list[tuple[str, str, list[str]]]:
    """[(key, identifier, lines)]"""
    trees = {}
    out = []
    for path, cls, fn in FUNCTIONS:
        if path not in trees:
            full = os.path.join(repo, path)
            with open(full) as f:
                trees[path] = ast.parse(f.read())
        node = _find(trees[path], cls, fn)
        import copy
        node = _clean_stmt(copy.deepcopy(node))
        ast.fix_missing_locations(node)
        text = ast.unparse(node)
        lines = [l.rstrip() for l in text.splitlines() if l.strip()]
        for l in lines:
            if any(ord(ch) > 126 or ord(ch) < 32 for ch in l):
                raise TranslateError(f'{key_of(cls, fn)}: non-printable / non-ASCII character in {l!r}')
        out.append((key_of(cls, fn), ident_of(cls, fn), lines))
    out.append(('att_mtu sites', 'att_mtu_sites', att_mtu_sites(repo)))
    return out


MTU_FILES = ['bumble/l2cap.py', 'bumble/device.py', 'bumble/gatt_server.py', 'bumble/att.py']


def att_mtu_sites(repo: str) -> list[str]:
    """every statement, in the files of the server side, that assigns an attribute named `att_mtu` or calls
    `on_att_mtu_update`, with the function it is in: moving or adding such a computation breaks the obligation"""
    lines = []
    for path in MTU_FILES:
        with open(os.path.join(repo, path)) as f:
            tree = ast.parse(f.read())

        def walk(node, qual):
            for child in ast.iter_child_nodes(node):
                q = qual
                if isinstance(child, (ast.ClassDef, ast.FunctionDef, ast.AsyncFunctionDef)):
                    q = (qual + '.' if qual else '') + child.name
                if isinstance(child, (ast.Assign, ast.AugAssign, ast.AnnAssign)):
                    targets = child.targets if isinstance(child, ast.Assign) else [child.target]
                    flat = []
                    for t in targets:
                        flat += list(ast.walk(t))
                    if any(isinstance(t, ast.Attribute) and t.attr == 'att_mtu' for t in flat):
                        lines.append(f'{path}: {qual}: {ast.unparse(child)}')
                if isinstance(child, ast.Call) and isinstance(child.func, ast.Attribute) \
                        and child.func.attr == 'on_att_mtu_update':
                    lines.append(f'{path}: {qual}: {ast.unparse(child)}')
                walk(child, q)

        walk(tree, '')
    for l in lines:
        if any(ord(ch) > 126 or ord(ch) < 32 for ch in l):
            raise TranslateError(f'att_mtu sites: non-printable character in {l!r}')
    return lines


def coq_string(s: str) -> str:
    return '"' + s.replace('"', '""') + '"'


def render(sk, prefix: str, header: str) -> str:
    lines = [header,
             'From Coq Require Import String List Bool.' if prefix == 'm' else 'From Coq Require Import String List.']
    if prefix == 'm':
        lines.append('From BV Require Import Gen.C10Skeleton.')
    lines += ['Import ListNotations.',
             'Local Open Scope string_scope.',
             '']
    for key, ident, body in sk:
        lines.append(f'(* {key} *)')
        lines.append(f'Definition {prefix}_{ident} : list string := [')
        lines += ['  ' + coq_string(l) + (';' if i + 1 < len(body) else '') for i, l in enumerate(body)]
        lines.append('].')
        lines.append('')
    if prefix == 'm':
        lines.append('(* names of the modelled functions (keys of the skeleton tables) *)')
        lines += [f'Definition k_{ident} : string := {coq_string(key)}.' for key, ident, _ in sk]
        lines.append('')
    lines.append(f'Definition {prefix}_skeleton : list (string * list string) := [')
    lines += [f'  ({coq_string(key)}, {prefix}_{ident})' + (';' if i + 1 < len(sk) else '')
              for i, (key, ident, _) in enumerate(sk)]
    lines.append('].')
    lines.append('')
    if prefix == 'm':
        lines.append(COMPARISON)
    return '\n'.join(lines)


GEN_HEADER = ('(* GENERATED on every run by tools/translate/c10_skeleton.py: the normalised code of the functions\n'
              '   Model/AttServer.v models, from the current source tree.  Do not edit. *)')
MODEL_HEADER = ('(* The reading of the source that Model/AttServer.v was written from: the normalised code (docstrings,\n'
                '   logging, annotations, comments and layout removed) of every modelled function, FROZEN.  Each model\n'
                '   definition names the function it renders; Props/C10.v and Props/C11.v compare this text, inside the\n'
                '   kernel, with coq/Gen/C10Skeleton.v regenerated from the current tree on every run, so that any edit\n'
                '   of a size constant, comparison, loop exit, await position, error code or response in these functions\n'
                '   breaks a proof obligation whether or not a generated input exercises it.  When the source changes\n'
                '   legitimately: re-read the function, update the model and the proofs, then refresh this file with\n'
                '   `python -m translate.c10_skeleton --snapshot`.  No proofs here. *)')


COMPARISON = """(* ------------------------------------------------------------------ comparison with the current source *)
Fixpoint lines_eqb (a b : list string) : bool :=
  match a, b with
  | [], [] => true
  | x :: a', y :: b' => String.eqb x y && lines_eqb a' b'
  | _, _ => false
  end.

Fixpoint sk_find (k : string) (l : list (string * list string)) : option (list string) :=
  match l with
  | [] => None
  | (k', v) :: l' => if String.eqb k k' then Some v else sk_find k l'
  end.

(* the function named k reads today exactly as it did when the model was written *)
Definition src_matches (k : string) : bool :=
  match sk_find k g_skeleton, sk_find k m_skeleton with
  | Some a, Some b => lines_eqb a b
  | _, _ => false
  end.

Definition skeleton_keys : list string := map fst m_skeleton.
"""


def regen(ctx):
    sk = extract(ctx.repo)
    ctx.write_gen('C10Skeleton', render(sk, 'g', GEN_HEADER))
    # diagnostic only: which functions differ from the frozen reading (the decision is the kernel's)
    try:
        here = os.path.dirname(os.path.dirname(os.path.dirname(os.path.abspath(__file__))))
        frozen = open(os.path.join(here, 'coq', 'Model', 'AttSkeleton.v')).read()
        changed = []
        for key, ident, body in sk:
            block = f'Definition m_{ident} : list string := [\n' + '\n'.join(
                '  ' + coq_string(l) + (';' if i + 1 < len(body) else '') for i, l in enumerate(body)) + '\n].'
            if block not in frozen:
                changed.append(key)
        ctx.extra['functions_differing_from_model_reading'] = changed
        if changed:
            ctx.notes.append('source functions that differ from the reading the model was written from: ' + ', '.join(changed))
    except OSError:
        pass
    return sk


if __name__ == '__main__':
    repo = os.environ.get('BUMBLE_REPO', '/repo')
    if '--snapshot' in sys.argv:
        print(render(extract(repo), 'm', MODEL_HEADER))
    else:
        print(render(extract(repo), 'g', GEN_HEADER))
