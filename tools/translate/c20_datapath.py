"""C20 translator: the credit-flow code of bumble/rfcomm.py DLC -> coq/Gen/C20DataPath.v

Compiles the SOURCE (ast) of DLC.rx_credits_needed, of the loop test and loop body of
DLC.process_tx, of DLC.on_uih_frame (up to its final process_tx call), of DLC.write and of
the sink setter into Gallina functions (straight-line code with if / else becomes nested
let / if over the variables it assigns).  Proofs/RfcommSrc.v proves, for ALL inputs, that
these functions are the hand-written ones of Model/Rfcomm.v, so an edit to an operator, a
bound, the order of two updates or a skipped call breaks a proof obligation.
Fail closed: an unknown statement / expression raises TranslateError.

Python -> Gallina:  bytes are lists of Z, `x[:e]` is firstn, `x[e:]` is skipn, `x[0]` is hd 0,
bytes truthiness is `negb (is_nil x)`, deque(maxlen).append is dq_append, True/False bools.
"""
import ast
import os


class TranslateError(Exception):
    pass


def u(e):
    return ast.unparse(e)


class Comp:
    """compiles a block of statements over an environment var -> (coq name, type)"""

    def __init__(self, where, params):
        self.where = where
        self.env = dict(params)       # python name -> (coq expr, type)
        self.counter = {}
        self.stopped_at_process_tx = False

    def err(self, node, what):
        raise TranslateError(f'{self.where}:{getattr(node, "lineno", "?")}: {what}')

    def fresh(self, name):
        base = name.replace('self.', '').replace('.', '_').strip('_')
        self.counter[base] = self.counter.get(base, 0) + 1
        return f'{base}_{self.counter[base]}'

    # ---- expressions: returns (coq text, type)
    def expr(self, e):
        if isinstance(e, ast.Constant):
            if e.value is True:
                return 'true', 'bool'
            if e.value is False:
                return 'false', 'bool'
            if isinstance(e.value, int):
                return (str(e.value) if e.value >= 0 else f'({e.value})'), 'Z'
            self.err(e, f'constant not handled: {e.value!r}')
        if isinstance(e, (ast.Name, ast.Attribute)):
            k = u(e)
            if k in self.env:
                return self.env[k]
            self.err(e, f'variable not known to the translator: {k}')
        if isinstance(e, ast.BinOp) and isinstance(e.op, (ast.Add, ast.Sub)):
            a, ta = self.expr(e.left)
            b, tb = self.expr(e.right)
            if ta == tb == 'Z':
                return f'({a} {"+" if isinstance(e.op, ast.Add) else "-"} {b})', 'Z'
            if ta == tb == 'bytes' and isinstance(e.op, ast.Add):
                return f'({a} ++ {b})', 'bytes'
            self.err(e, f'operand types {ta}/{tb} in {u(e)}')
        if isinstance(e, ast.Call):
            f = u(e.func)
            if f == 'bytes' and len(e.args) == 1 and isinstance(e.args[0], ast.List) and len(e.args[0].elts) == 1:
                a, ta = self.expr(e.args[0].elts[0])
                if ta != 'Z':
                    self.err(e, 'bytes([x]) with a non-integer')
                return f'[{a}]', 'bytes'
            if f == 'len' and len(e.args) == 1:
                a, ta = self.expr(e.args[0])
                if ta == 'bytes':
                    return f'(Z.of_nat (length {a}))', 'Z'
                if ta == 'queue':
                    return f'(Z.of_nat (length {a}))', 'Z'
                self.err(e, f'len of {ta}')
            if f == 'min' and len(e.args) == 2:
                a, ta = self.expr(e.args[0])
                b, tb = self.expr(e.args[1])
                if ta == tb == 'Z':
                    return f'(Z.min {a} {b})', 'Z'
                self.err(e, 'min of non-integers')
            if f == 'self.rx_credits_needed' and not e.args:
                rx, _ = self.expr(ast.parse('self.rx_credits', mode='eval').body)
                return f'(src_needed max_credits threshold {rx})', 'Z'
            self.err(e, f'call not handled: {u(e)}')
        if isinstance(e, ast.Subscript):
            a, ta = self.expr(e.value)
            if ta != 'bytes':
                self.err(e, f'subscript of {ta}')
            s = e.slice
            if isinstance(s, ast.Slice) and s.step is None:
                if s.lower is None and s.upper is not None:
                    b, tb = self.expr(s.upper)
                    return f'(firstn (Z.to_nat {b}) {a})', 'bytes'
                if s.upper is None and s.lower is not None:
                    b, tb = self.expr(s.lower)
                    return f'(skipn (Z.to_nat {b}) {a})', 'bytes'
            elif isinstance(s, ast.Constant) and s.value == 0:
                return f'(hd 0 {a})', 'Z'
            self.err(e, f'subscript not handled: {u(e)}')
        if isinstance(e, ast.Compare) and len(e.ops) == 1:
            a, ta = self.expr(e.left)
            b, tb = self.expr(e.comparators[0])
            if ta == tb == 'Z':
                op = {ast.Gt: '>?', ast.GtE: '>=?', ast.Lt: '<?', ast.LtE: '<=?', ast.Eq: '=?'}.get(type(e.ops[0]))
                if op:
                    return f'({a} {op} {b})', 'bool'
            self.err(e, f'comparison not handled: {u(e)}')
        if isinstance(e, ast.BoolOp):
            parts = [self.truth(v) for v in e.values]
            op = ' && ' if isinstance(e.op, ast.And) else ' || '
            return '(' + op.join(parts) + ')', 'bool'
        if isinstance(e, ast.UnaryOp) and isinstance(e.op, ast.Not):
            return f'(negb {self.truth(e.operand)})', 'bool'
        if isinstance(e, ast.IfExp):
            a, ta = self.expr(e.body)
            b, tb = self.expr(e.orelse)
            if ta != tb:
                self.err(e, 'conditional expression with different types')
            return f'(if {self.truth(e.test)} then {a} else {b})', ta
        self.err(e, f'expression not handled: {u(e)}')

    def truth(self, e):
        a, t = self.expr(e)
        if t == 'bool':
            return a
        if t == 'bytes':
            return f'(negb (is_nil {a}))'
        if t == 'Z':
            return f'(negb ({a} =? 0))'
        self.err(e, f'truth value of {t}')

    # ---- statements: returns list of coq `let` lines; updates env
    def assign(self, key, text, typ):
        name = self.fresh(key)
        self.env[key] = (name, typ)
        return f'let {name} := {text} in'

    def logging_only(self, stmts):
        return all(isinstance(s, ast.Expr) and isinstance(s.value, ast.Call) and u(s.value.func).startswith('logger.')
                   for s in stmts)

    def block(self, stmts):
        lines = []
        for s in stmts:
            if self.stopped_at_process_tx:
                self.err(s, 'statement after the final self.process_tx() call')
            lines += self.stmt(s)
        return lines

    def stmt(self, s):
        if isinstance(s, ast.Pass) or (isinstance(s, ast.Expr) and isinstance(s.value, ast.Constant)):
            return []
        if isinstance(s, ast.Expr) and isinstance(s.value, ast.Call):
            f = u(s.value.func)
            if f.startswith('logger.'):
                return []
            if f == 'self.drained.set':
                return [self.assign('drained', 'true', 'bool')]
            if f == 'self.drained.clear':
                return [self.assign('drained', 'false', 'bool')]
            if f == 'self.process_tx' and not s.value.args:
                self.stopped_at_process_tx = True
                return []
            if f == 'self.send_frame':
                fr = s.value.args[0]
                if not (isinstance(fr, ast.Call) and u(fr.func) == 'RFCOMM_Frame.uih'):
                    self.err(s, f'frame not recognised: {u(fr)}')
                kw = {k.arg: k.value for k in fr.keywords}
                if u(kw.get('dlci')) != 'self.dlci' or u(kw.get('c_r')) != 'self.c_r':
                    self.err(s, 'data frame not sent on self.dlci / self.c_r')
                info, ti = self.expr(kw['information'])
                pf, tp = self.expr(kw['p_f'])
                sent, _ = self.env['sent']
                return [self.assign('sent', f'{sent} ++ [mkFrame ({pf} =? 1) {info}]', 'frames')]
            if f in ('self._sink', 'sink') and len(s.value.args) == 1:
                a, ta = self.expr(s.value.args[0])
                d, _ = self.env['delivered']
                return [self.assign('delivered', f'{d} ++ {a}', 'bytes')]
            if f == 'self._enqueued_rx_packets.append':
                a, ta = self.expr(s.value.args[0])
                q, _ = self.env['self._enqueued_rx_packets']
                return [self.assign('self._enqueued_rx_packets', f'dq_append rx_queue_size {q} {a}', 'queue')]
            if f == 'self._enqueued_rx_packets.clear':
                return [self.assign('self._enqueued_rx_packets', '[]', 'queue')]
            self.err(s, f'call not handled: {u(s)}')
        if isinstance(s, ast.Assign) and len(s.targets) == 1:
            key = u(s.targets[0])
            a, ta = self.expr(s.value)
            return [self.assign(key, a, ta)]
        if isinstance(s, ast.AugAssign) and isinstance(s.op, (ast.Add, ast.Sub)):
            key = u(s.target)
            cur, tc = self.expr(s.target)
            a, ta = self.expr(s.value)
            if tc == ta == 'Z':
                return [self.assign(key, f'{cur} {"+" if isinstance(s.op, ast.Add) else "-"} {a}', 'Z')]
            if tc == ta == 'bytes' and isinstance(s.op, ast.Add):
                return [self.assign(key, f'{cur} ++ {a}', 'bytes')]
            self.err(s, f'augmented assignment types {tc}/{ta}')
        if isinstance(s, ast.If):
            if self.logging_only(s.body) and not s.orelse:
                return []
            # the queue-full warning: `if maxlen and len(queue) >= maxlen: logger.warning`
            cond = self.truth_if(s.test)
            base = dict(self.env)
            c1 = self.sub(base)
            l1 = c1.block(s.body)
            c2 = self.sub(base)
            l2 = c2.block(s.orelse)
            changed = sorted(k for k in set(c1.env) | set(c2.env)
                             if c1.env.get(k) != base.get(k) or c2.env.get(k) != base.get(k))
            # a name first assigned inside one branch is local to that branch
            changed = [k for k in changed if k in c1.env and k in c2.env]
            for k in changed:
                if c1.env[k][1] != c2.env[k][1]:
                    self.err(s, f'{k} has different types on the two branches')
            self.counter = {k: max(c1.counter.get(k, 0), c2.counter.get(k, 0)) for k in set(c1.counter) | set(c2.counter)}
            if c1.stopped_at_process_tx or c2.stopped_at_process_tx:
                self.err(s, 'process_tx() called inside a branch')
            if not changed:
                return []
            names = [self.fresh(k) for k in changed]
            t1 = ' '.join(l1) + ' (' + ', '.join(c1.env[k][0] for k in changed) + ')'
            t2 = ' '.join(l2) + ' (' + ', '.join(c2.env[k][0] for k in changed) + ')'
            for k, n in zip(changed, names):
                self.env[k] = (n, c1.env[k][1])
            pat = names[0] if len(names) == 1 else "'(" + ', '.join(names) + ')'
            return [f'let {pat} := if {cond} then {t1} else {t2} in']
        self.err(s, f'statement not handled: {u(s)}')

    def truth_if(self, t):
        src = u(t)
        if src == 'self._enqueued_rx_packets.maxlen and len(self._enqueued_rx_packets) >= self._enqueued_rx_packets.maxlen':
            return 'true'
        return self.truth(t)

    def sub(self, env):
        c = Comp(self.where, env)
        c.counter = dict(self.counter)
        return c


def find_method(cls, name, kind=None):
    for m in cls.body:
        if isinstance(m, ast.FunctionDef) and m.name == name:
            decos = [u(d) for d in m.decorator_list]
            if kind is None and not decos:
                return m
            if kind is not None and kind in decos:
                return m
    raise TranslateError(f'DLC.{name} not found')


def translate(repo: str):
    path = os.path.join(repo, 'bumble', 'rfcomm.py')
    tree = ast.parse(open(path).read())
    where = 'bumble/rfcomm.py'
    cls = next((n for n in tree.body if isinstance(n, ast.ClassDef) and n.name == 'DLC'), None)
    if cls is None:
        raise TranslateError('class DLC not found')
    out = ['(* GENERATED by tools/translate/c20_datapath.py from bumble/rfcomm.py (class DLC). Do not edit. *)',
           'From Coq Require Import ZArith List Bool.',
           'From BV Require Import Gen.C20Consts Model.Rfcomm Model.RfcommRxQueue.',
           'Import ListNotations.', 'Open Scope Z_scope.', '']

    # ---- rx_credits_needed
    m = find_method(cls, 'rx_credits_needed')
    body = [s for s in m.body if not (isinstance(s, ast.Expr) and isinstance(s.value, ast.Constant))]
    if not (len(body) == 2 and isinstance(body[0], ast.If) and len(body[0].body) == 1 and not body[0].orelse
            and isinstance(body[0].body[0], ast.Return) and isinstance(body[1], ast.Return)):
        raise TranslateError('DLC.rx_credits_needed: expected  if <test>: return <e1>;  return <e2>')
    c = Comp(where, {'self.rx_credits': ('rx', 'Z'), 'self.rx_credits_threshold': ('threshold', 'Z'),
                     'self.rx_max_credits': ('max_credits', 'Z')})
    out.append('(* DLC.rx_credits_needed *)')
    out.append(f'Definition src_needed (max_credits threshold rx : Z) : Z :=\n  if {c.truth(body[0].test)} '
               f'then {c.expr(body[0].body[0].value)[0]} else {c.expr(body[1].value)[0]}.')
    out.append('')

    # ---- process_tx
    m = find_method(cls, 'process_tx')
    body = [s for s in m.body if not (isinstance(s, ast.Expr) and isinstance(s.value, ast.Constant))]
    if not (len(body) == 2 and u(body[0]) == 'rx_credits_needed = self.rx_credits_needed()'
            and isinstance(body[1], ast.While) and not body[1].orelse):
        raise TranslateError('DLC.process_tx: expected  rx_credits_needed = self.rx_credits_needed(); while ...: ...')
    loop = body[1]
    params = {'self.mtu': ('mtu', 'Z'), 'self.tx_credits': ('tx', 'Z'), 'self.rx_credits': ('rx', 'Z'),
              'rx_credits_needed': ('need', 'Z'), 'self.tx_buffer': ('buf', 'bytes'),
              'sent': ('[]', 'frames'), 'drained': ('drained', 'bool')}
    c = Comp(where, params)
    out.append('(* DLC.process_tx: the test of the while loop *)')
    out.append(f'Definition src_ptx_cond (tx need : Z) (buf : list Z) : bool :=\n  {c.truth(loop.test)}.')
    out.append('')
    c = Comp(where, params)
    lines = c.block(loop.body)
    res = ', '.join(c.env[k][0] for k in ('self.tx_credits', 'self.rx_credits', 'self.tx_buffer', 'rx_credits_needed',
                                         'sent', 'drained'))
    out.append('(* DLC.process_tx: one iteration of the loop body:\n'
               '   (tx_credits, rx_credits, tx_buffer, rx_credits_needed, frames sent, drained) *)')
    out.append('Definition src_ptx_body (mtu tx rx need : Z) (buf : list Z) (drained : bool) :=\n  '
               + '\n  '.join(lines) + f'\n  ({res}).')
    out.append('')

    # ---- on_uih_frame (up to process_tx)
    m = find_method(cls, 'on_uih_frame')
    params = {'frame.information': ('info', 'bytes'), 'frame.p_f': ('(if pf then 1 else 0)', 'Z'),
              'self.tx_credits': ('tx', 'Z'), 'self.rx_credits': ('rx', 'Z'),
              'self._sink': ('has_sink', 'bool'), 'self._enqueued_rx_packets': ('queue', 'queue'),
              'delivered': ('[]', 'bytes')}
    c = Comp(where, params)
    lines = c.block(m.body)
    if not c.stopped_at_process_tx:
        raise TranslateError('DLC.on_uih_frame does not end with self.process_tx()')
    res = ', '.join(c.env[k][0] for k in ('self.tx_credits', 'self.rx_credits', 'self._enqueued_rx_packets', 'delivered'))
    out.append('(* DLC.on_uih_frame up to its final self.process_tx():\n'
               '   (tx_credits, rx_credits, pre-sink queue, bytes handed to the sink) *)')
    out.append('Definition src_on_uih (pf : bool) (info : list Z) (tx rx : Z) (has_sink : bool) (queue : list (list Z)) :=\n  '
               + '\n  '.join(lines) + f'\n  ({res}).')
    out.append('')

    # ---- write (after the bytes/str conversion), up to process_tx
    m = find_method(cls, 'write')
    stmts = list(m.body)
    # skip the docstring / type conversion prologue: everything before `self.tx_buffer += data`
    idx = next((i for i, s in enumerate(stmts) if u(s) == 'self.tx_buffer += data'), None)
    if idx is None:
        raise TranslateError('DLC.write: self.tx_buffer += data not found')
    for s in stmts[:idx]:
        if not (isinstance(s, ast.If) and 'isinstance(data' in u(s.test)) and not (isinstance(s, ast.Expr) and isinstance(s.value, ast.Constant)):
            raise TranslateError(f'DLC.write: unexpected statement before the buffer update: {u(s)[:60]}')
    c = Comp(where, {'self.tx_buffer': ('buf', 'bytes'), 'data': ('data', 'bytes'), 'drained': ('drained', 'bool')})
    lines = c.block(stmts[idx:])
    if not c.stopped_at_process_tx:
        raise TranslateError('DLC.write does not end with self.process_tx()')
    out.append('(* DLC.write up to its final self.process_tx(): (tx_buffer, drained) *)')
    out.append('Definition src_write (buf data : list Z) (drained : bool) :=\n  ' + '\n  '.join(lines)
               + f"\n  ({c.env['self.tx_buffer'][0]}, {c.env['drained'][0]}).")
    out.append('')

    # ---- sink setter: self._sink = sink; if sink: for packet in queue: sink(packet); queue.clear()
    m = find_method(cls, 'sink', 'sink.setter')
    body = [s for s in m.body if not (isinstance(s, ast.Expr) and isinstance(s.value, ast.Constant))]
    ok = (len(body) == 2 and u(body[0]) == 'self._sink = sink' and isinstance(body[1], ast.If) and u(body[1].test) == 'sink'
          and not body[1].orelse and len(body[1].body) == 2 and isinstance(body[1].body[0], ast.For)
          and u(body[1].body[0].iter) == 'self._enqueued_rx_packets' and u(body[1].body[0].target) == 'packet'
          and len(body[1].body[0].body) == 1 and u(body[1].body[0].body[0]).startswith('sink(packet)')
          and u(body[1].body[1]) == 'self._enqueued_rx_packets.clear()')
    if not ok:
        raise TranslateError('DLC.sink setter: expected  self._sink = sink; if sink: for packet in queue: sink(packet); queue.clear()')
    out.append('(* DLC.sink setter with a sink: every queued packet is handed over in order, the queue is cleared *)')
    out.append('Definition src_set_sink (queue : list (list Z)) : list Z * list (list Z) := (concat queue, []).')
    out.append('')

    # ---- Multiplexer.acceptable_frame_size (fix D17i)
    mux = next((n for n in tree.body if isinstance(n, ast.ClassDef) and n.name == 'Multiplexer'), None)
    if mux is None:
        raise TranslateError('class Multiplexer not found')
    m = find_method(mux, 'acceptable_frame_size')
    body = [s for s in m.body if not (isinstance(s, ast.Expr) and isinstance(s.value, ast.Constant))]
    if not (len(body) == 1 and isinstance(body[0], ast.Return)):
        raise TranslateError('Multiplexer.acceptable_frame_size: expected a single return')
    c = Comp(where, {'max_frame_size': ('n', 'Z'), 'self.l2cap_channel.peer_mtu': ('peer_mtu', 'Z'),
                     'RFCOMM_MAX_FRAME_SIZE': ('rfcomm_max_frame_size', 'Z'),
                     'RFCOMM_MIN_FRAME_SIZE': ('rfcomm_min_frame_size', 'Z')})
    out.append('(* Multiplexer.acceptable_frame_size *)')
    out.append(f'Definition src_acceptable (n peer_mtu : Z) : bool :=\n  {c.truth(body[0].value)}.')
    out.append('')
    # the DLC's own frame size uses the same L2CAP overhead
    init_src = u(find_method(cls, '__init__'))
    if 'max_overhead = 4 + 1' not in init_src or 'self.multiplexer.l2cap_channel.peer_mtu - max_overhead' not in init_src:
        raise TranslateError('DLC.__init__: mtu is no longer min(tx_max_frame_size, peer_mtu - (4 + 1))')

    # ---- constants used by the pre-sink queue
    init = find_method(cls, '__init__')
    src = u(init)
    if 'collections.deque(maxlen=DEFAULT_RX_QUEUE_SIZE)' not in src.replace('\n', '').replace(' ', '').replace('collections.deque(maxlen', 'collections.deque(maxlen') \
            and 'maxlen=DEFAULT_RX_QUEUE_SIZE' not in src:
        raise TranslateError('DLC.__init__: the pre-sink queue is no longer deque(maxlen=DEFAULT_RX_QUEUE_SIZE)')
    return '\n'.join(out)


if __name__ == '__main__':
    import sys
    print(translate(sys.argv[1] if len(sys.argv) > 1 else os.environ.get('BUMBLE_REPO', '/repo')))
