"""C20 translator: the set-up / teardown code of bumble/rfcomm.py -> coq/Gen/C20MuxEff.v

Compiles the SOURCE (ast) of the Multiplexer and DLC frame handlers and of the local
operations connect / disconnect / open_dlc / DLC.disconnect into terms of the effect language
of Model/RfcommEff.v.  Calls of other methods of the two classes are inlined (EFn ...); the
dynamic `getattr(self, 'on_<type>_frame')` dispatch stays symbolic (EMuxHandler / EDlcHandler).
Fail closed: a statement, condition or frame expression that is not recognised raises
TranslateError naming it.
"""
import ast
import os


class TranslateError(Exception):
    pass


MST = {'INIT': 'MInit', 'CONNECTING': 'MConnecting', 'CONNECTED': 'MConnected', 'OPENING': 'MOpening',
       'DISCONNECTING': 'MDisconnecting', 'DISCONNECTED': 'MDisconnected'}
DST = {'INIT': 'FInit', 'CONNECTING': 'FConnecting', 'CONNECTED': 'FConnected',
       'DISCONNECTING': 'FDisconnecting', 'DISCONNECTED': 'FDisconnected', 'RESET': 'FReset'}
FRAME_KIND = {'sabm': 'KSabm', 'ua': 'KUa', 'dm': 'KDm', 'disc': 'KDisc'}
FUTURES = ('connection_result', 'disconnection_result', 'open_result')


def u(e):
    return ast.unparse(e)


def seq(parts):
    parts = [p for p in parts if p != 'ENop']
    if not parts:
        return 'ENop'
    out = parts[-1]
    for p in reversed(parts[:-1]):
        out = f'(ESeq {p} {out})'
    return out


class SM:
    def __init__(self, tree, where):
        self.where = where
        self.cls = {n.name: {m.name: m for m in n.body if isinstance(m, (ast.FunctionDef, ast.AsyncFunctionDef))}
                    for n in tree.body if isinstance(n, ast.ClassDef) and n.name in ('Multiplexer', 'DLC')}
        if set(self.cls) != {'Multiplexer', 'DLC'}:
            raise TranslateError('classes Multiplexer / DLC not found in bumble/rfcomm.py')

    def err(self, node, what):
        raise TranslateError(f'{self.where}:{getattr(node, "lineno", "?")}: {what}')

    def method(self, cls, name):
        m = self.cls[cls].get(name)
        if m is None:
            raise TranslateError(f'{cls}.{name} not found')
        return m

    # ---- conditions
    def state_const(self, e, ctx):
        # Multiplexer.State.X / DLC.State.X
        if isinstance(e, ast.Attribute) and isinstance(e.value, ast.Attribute) and e.value.attr == 'State' \
                and isinstance(e.value.value, ast.Name):
            cls = e.value.value.id
            if cls == 'Multiplexer' and ctx == 'Multiplexer' and e.attr in MST:
                return MST[e.attr]
            if cls == 'DLC' and ctx == 'DLC' and e.attr in DST:
                return DST[e.attr]
        self.err(e, f'state constant not recognised in {ctx}: {u(e)}')

    def cond(self, t, ctx):
        src = u(t)
        if isinstance(t, ast.Compare) and len(t.ops) == 1 and u(t.left) == 'self.state':
            c = self.state_const(t.comparators[0], ctx)
            pre = 'CMux' if ctx == 'Multiplexer' else 'CDlc'
            if isinstance(t.ops[0], ast.Eq):
                return f'({pre}Is {c})'
            if isinstance(t.ops[0], ast.NotEq):
                return f'({pre}IsNot {c})'
        if isinstance(t, ast.UnaryOp) and isinstance(t.op, ast.Not):
            return f'(CNot {self.cond(t.operand, ctx)})'
        if isinstance(t, ast.BoolOp) and isinstance(t.op, ast.And) and len(t.values) == 2:
            return f'(CAnd {self.cond(t.values[0], ctx)} {self.cond(t.values[1], ctx)})'
        table = {
            'frame.dlci == 0': 'CDlci0',
            'frame.type == FrameType.DM': 'CTypeDm',
            'mcc_type == MccType.PN': 'CMccPn',
            'mcc_type == MccType.MSC': 'CMccMsc',
            'c_r': 'CCommand',
            'pn.dlci & 1': 'COddDlci',
            'self.acceptor': 'CHasAcceptor',
            '(dlc_params := self.acceptor(channel_number))': 'CAccepts',
            'dlc_params := self.acceptor(channel_number)': 'CAccepts',
            'dlc is None': 'CDlcUnknown',
            'self.open_result': 'COpenPending',
            'self.acceptable_frame_size(pn.max_frame_size)': 'CSizeOk',
        }
        if src in table:
            return table[src]
        self.err(t, f'condition not recognised: {src}')

    # ---- frames
    def frame(self, e, fn):
        """RFCOMM_Frame.<kind>(...) -> ESend kind on0"""
        if not (isinstance(e, ast.Call) and isinstance(e.func, ast.Attribute) and u(e.func.value) == 'RFCOMM_Frame'):
            self.err(e, f'send_frame argument not recognised: {u(e)}')
        kw = {k.arg: k.value for k in e.keywords}
        if 'dlci' not in kw or e.args:
            self.err(e, f'frame constructor without dlci keyword: {u(e)}')
        d = kw['dlci']
        if isinstance(d, ast.Constant) and d.value == 0:
            on0 = 'true'
        elif u(d) in ('self.dlci', 'pn.dlci'):
            on0 = 'false'
        else:
            self.err(e, f'frame dlci not recognised: {u(d)}')
        name = e.func.attr
        if name in FRAME_KIND:
            return f'(ESend {FRAME_KIND[name]} {on0})'
        if name == 'uih':
            info = kw.get('information')
            if not isinstance(info, ast.Name) or on0 != 'true':
                self.err(e, f'UIH frame not recognised as an MCC on DLCI 0: {u(e)}')
            assigns = [n for n in ast.walk(fn) if isinstance(n, ast.Assign)
                       and any(isinstance(t, ast.Name) and t.id == info.id for t in n.targets)]
            kinds = set()
            for a in assigns:
                v = a.value
                if not (isinstance(v, ast.Call) and u(v.func) == 'RFCOMM_Frame.make_mcc'):
                    self.err(a, f'MCC value not built by make_mcc: {u(v)}')
                k = {x.arg: x.value for x in v.keywords}
                t = u(k.get('mcc_type'))
                cr = k.get('c_r')
                if t not in ('MccType.PN', 'MccType.MSC') or not isinstance(cr, ast.Constant) or cr.value not in (0, 1):
                    self.err(a, f'make_mcc arguments not recognised: {u(v)}')
                kinds.add(('KPn' if t == 'MccType.PN' else 'KMsc') + ('Cmd' if cr.value else 'Rsp'))
            if len(kinds) != 1:
                # several make_mcc assignments in one function: pick the one that precedes e
                prev = [a for a in assigns if a.lineno < e.lineno]
                if not prev:
                    self.err(e, 'MCC variable has no assignment before its use')
                a = max(prev, key=lambda a: a.lineno)
                k = {x.arg: x.value for x in a.value.keywords}
                kinds = {('KPn' if u(k['mcc_type']) == 'MccType.PN' else 'KMsc') + ('Cmd' if k['c_r'].value else 'Rsp')}
            return f'(ESend {kinds.pop()} true)'
        self.err(e, f'frame kind not recognised: {name}')

    # ---- statements
    def block(self, stmts, fn, ctx, depth):
        return seq([self.stmt(s, fn, ctx, depth) for s in stmts])

    def only_nop(self, stmts):
        """a block that only resolves / clears a connection_result or disconnection_result future"""
        for s in stmts:
            src = u(s)
            if not any(src.startswith(f'self.{f}.') or src == f'self.{f} = None' for f in FUTURES[:2]):
                return False
        return True

    def stmt(self, s, fn, ctx, depth):
        src = u(s)
        if isinstance(s, ast.Pass) or isinstance(s, ast.Assert):
            return 'ENop'
        if isinstance(s, ast.Expr) and isinstance(s.value, ast.Constant):
            return 'ENop'
        if isinstance(s, ast.Return):
            if s.value is None or (isinstance(s.value, ast.Await) and u(s.value.value) in
                                   ('self.open_result', 'self.connection_result')):
                return 'ERet'
            self.err(s, f'return value not recognised: {src}')
        if isinstance(s, ast.Raise):
            return 'ERaise'
        if isinstance(s, ast.If):
            t = s.test
            # if self.connection_result / disconnection_result: <resolve it>
            if u(t) in ('self.connection_result', 'self.disconnection_result'):
                if s.orelse or not self.only_nop(s.body):
                    self.err(s, f'block guarded by {u(t)} does more than resolving that future')
                return 'ENop'
            c = self.cond(t, ctx)
            return f'(EIf {c} {self.block(s.body, fn, ctx, depth)} {self.block(s.orelse, fn, ctx, depth)})'
        if isinstance(s, ast.Expr) and isinstance(s.value, ast.Await):
            if u(s.value.value) in ('self.disconnection_result', 'self.connection_result'):
                return 'ENop'
            self.err(s, f'await not recognised: {src}')
        if isinstance(s, ast.Assign) and len(s.targets) == 1:
            tgt, val = u(s.targets[0]), s.value
            if tgt == 'self.open_result':
                if 'create_future' in u(val):
                    return 'EOpenPend'
                if isinstance(val, ast.Constant) and val.value is None:
                    return 'ENop'          # follows set_result / set_exception, which clear it in the model
                self.err(s, f'assignment to open_result not recognised: {src}')
            if tgt in ('self.connection_result', 'self.disconnection_result'):
                return 'ENop'
            if tgt == 'self.open_pn':
                return 'ENop'
            if tgt == 'self.dlcs[pn.dlci]' and u(val) == 'dlc':
                return 'ECreateDlc'
            if isinstance(s.targets[0], ast.Name) or isinstance(s.targets[0], ast.Tuple):
                # local values: frames, MCC payloads, the handler looked up by getattr ...
                if tgt == 'handler':
                    if u(val) != "getattr(self, f'on_{frame.type.name}_frame'.lower())":
                        self.err(s, f'handler lookup not recognised: {src}')
                    return 'ENop'
                if tgt == 'dlc' and isinstance(val, ast.Call) and u(val.func) == 'DLC':
                    return 'ENop'
                if tgt == 'dlc' and u(val) in ('self.dlcs.get(frame.dlci)', 'self.dlcs.get(msc.dlci)'):
                    return 'ENop'
                allowed = ('RFCOMM_MCC_MSC(', 'RFCOMM_MCC_PN(', 'RFCOMM_Frame.make_mcc(', 'RFCOMM_Frame.from_bytes(',
                           'RFCOMM_Frame.parse_mcc(', 'RFCOMM_MCC_PN.from_bytes(', 'RFCOMM_MCC_MSC.from_bytes(',
                           'pn.dlci >> 1')
                if any(u(val).startswith(a) for a in allowed):
                    return 'ENop'
            self.err(s, f'assignment not recognised: {src}')
        if isinstance(s, ast.Expr) and isinstance(s.value, ast.Call):
            c = s.value
            f = u(c.func)
            if f.startswith('logger.'):
                return 'ENop'
            if f == 'self.emit' or f == 'dlc.on':
                return 'ENop'
            if f == 'self.change_state':
                st = self.state_const(c.args[0], ctx)
                return f'(ESetMux {st})' if ctx == 'Multiplexer' else f'(ESetDlc {st})'
            if f == 'self.send_frame':
                return self.frame(c.args[0], fn)
            if f == 'self.open_result.set_result':
                return 'EOpenOk'
            if f == 'self.open_result.set_exception':
                return 'EOpenFail'
            if f in ('self.connection_result.set_result', 'self.disconnection_result.set_result'):
                return 'ENop'
            if f == 'self.dlcs.pop' and u(c.args[0]) == 'dlc.dlci':
                return 'ERemoveDlc'
            if f == 'handler' and u(c) == 'handler(frame)':
                return 'EMuxHandler' if ctx == 'Multiplexer' else 'EDlcHandler'
            if f == 'dlc.on_frame':
                return self.inline('DLC', 'on_frame', depth)
            # calls into the other methods of the two classes
            if f.startswith('self.multiplexer.') and ctx == 'DLC':
                return self.inline('Multiplexer', f.split('.')[-1], depth)
            if f.startswith('dlc.') and ctx == 'Multiplexer':
                return self.inline('DLC', f.split('.')[-1], depth)
            if f.startswith('self.') and f.count('.') == 1 and f.split('.')[1] in self.cls[ctx]:
                return self.inline(ctx, f.split('.')[1], depth)
            self.err(s, f'call not recognised: {src}')
        self.err(s, f'statement not recognised: {src}')

    def inline(self, cls, name, depth):
        if depth > 5:
            raise TranslateError(f'call depth exceeded at {cls}.{name}')
        m = self.method(cls, name)
        return f'(EFn {self.block(m.body, m, cls, depth + 1)})'

    def top(self, cls, name):
        m = self.method(cls, name)
        # a coroutine may only suspend in its LAST statement (waiting for the result): no await
        # may sit between the state check and the state change / frame it guards
        if isinstance(m, ast.AsyncFunctionDef):
            for s in m.body[:-1]:
                for n in ast.walk(s):
                    if isinstance(n, (ast.Await, ast.AsyncFor, ast.AsyncWith)):
                        self.err(n, f'{cls}.{name}: suspension point before the last statement '
                                    f'(between the state check and the state change): {u(s)[:60]}')
        return self.block(m.body, m, cls, 0)


def translate(repo: str):
    path = os.path.join(repo, 'bumble', 'rfcomm.py')
    tree = ast.parse(open(path).read())
    sm = SM(tree, 'bumble/rfcomm.py')
    fields = [
        ('h_on_pdu', 'Multiplexer', 'on_pdu'),
        ('h_mux_sabm', 'Multiplexer', 'on_sabm_frame'), ('h_mux_ua', 'Multiplexer', 'on_ua_frame'),
        ('h_mux_dm', 'Multiplexer', 'on_dm_frame'), ('h_mux_disc', 'Multiplexer', 'on_disc_frame'),
        ('h_mux_uih', 'Multiplexer', 'on_uih_frame'),
        ('h_dlc_sabm', 'DLC', 'on_sabm_frame'), ('h_dlc_ua', 'DLC', 'on_ua_frame'),
        ('h_dlc_dm', 'DLC', 'on_dm_frame'), ('h_dlc_disc', 'DLC', 'on_disc_frame'),
        ('h_open_dlc', 'Multiplexer', 'open_dlc'), ('h_mux_connect', 'Multiplexer', 'connect'),
        ('h_mux_disconnect', 'Multiplexer', 'disconnect'), ('h_dlc_disconnect', 'DLC', 'disconnect'),
    ]
    out = ['(* GENERATED by tools/translate/c20_statemachine.py from bumble/rfcomm.py. Do not edit. *)',
           'From Coq Require Import List Bool.',
           'From BV Require Import Model.RfcommSm Model.RfcommSm2 Model.RfcommEff.',
           'Import ListNotations.', '']
    for fld, cls, name in fields:
        out.append(f'(* {cls}.{name} *)')
        out.append(f'Definition src_{fld} : eff :=\n  {sm.top(cls, name)}.')
        out.append('')
    out.append('Definition src_handlers : handlers :=\n  mkHandlers ' + ' '.join('src_' + f for f, _, _ in fields) + '.')
    out.append('')
    return '\n'.join(out)


if __name__ == '__main__':
    import sys
    print(translate(sys.argv[1] if len(sys.argv) > 1 else os.environ.get('BUMBLE_REPO', '/repo')))
