"""C03 translator: bumble/host.py -> coq/Gen/C03HostShape.v

Emits the shape of the command path of Host, i.e. of every statement of
_send_command / on_command_processed / on_hci_command_complete_event /
on_hci_command_status_event / flush / on_transport_lost that touches the command semaphore,
pending_command, pending_response, or sends / awaits / returns the command's response:
where the semaphore is acquired and released (and under which condition), where pending_* are
set and cleared, what is inside and outside the try block, what the finally block does.
Model/HostShape.v holds the shape Model/HostCmd.v was written against; Props/C03.v proves
them equal by vm_compute on every run, so an edit to the shape of this code breaks a proof
obligation even if no generated schedule exercises it.  Fail closed: a statement that mentions
one of the three attributes and is not recognised aborts the translation."""
from __future__ import annotations

import ast
import inspect

ATTRS = ('command_semaphore', 'pending_command', 'pending_response', 'transport_lost')
FUNCS = ['_send_command', 'on_command_processed', 'on_hci_command_complete_event',
         'on_hci_command_status_event', 'flush', 'on_transport_lost', 'set_packet_source']

CONDS = {
    'response is None or (response.num_hci_command_packets and self.command_semaphore.locked())': 'CRespNoneOrCreditLocked',
    'event.num_hci_command_packets and self.command_semaphore.locked()': 'CCreditLocked',
    'self.pending_response': 'CHasPendingResponse',
    'self.pending_command is None': 'CPendingCommandNone',
    'self.pending_command.op_code != event.command_opcode': 'COpcodeMismatch',
    'event.command_opcode == 0': 'COpcodeZero',
    'self.pending_response and (not self.pending_response.done())': 'CPendingNotDone',
    'self.transport_lost': 'CTransportLost',
    'self.ready': 'COther',
}


class ShapeError(Exception):
    pass


def _mentions(node) -> bool:
    for n in ast.walk(node):
        if isinstance(n, ast.Attribute) and n.attr in ATTRS:
            return True
    return False


def _u(node) -> str:
    return ast.unparse(node)


def _is_logger_call(node) -> bool:
    return (isinstance(node, ast.Expr) and isinstance(node.value, ast.Call)
            and isinstance(node.value.func, ast.Attribute) and isinstance(node.value.func.value, ast.Name)
            and node.value.func.value.id == 'logger')


def stmts(body, fn, params):
    out = []
    for s in body:
        r = stmt(s, fn, params)
        if r is not None:
            out.append(r)
    return out


def stmt(s, fn, params):
    where = f'{fn}:{getattr(s, "lineno", "?")}'
    if isinstance(s, ast.Expr) and isinstance(s.value, ast.Constant):
        return None
    if _is_logger_call(s):
        return None
    txt = _u(s)
    if isinstance(s, ast.Expr):
        if txt == 'await self.command_semaphore.acquire()':
            return 'HAcquire'
        if txt == 'self.command_semaphore.release()':
            return 'HRelease'
        if txt == f'self.send_hci_packet({params[0]})' and fn == '_send_command':
            return 'HSend'
        if txt == 'self.pending_response.set_result(event)':
            return 'HSetResult'
        if txt.startswith('self.pending_response.set_exception('):
            return 'HSetException'
        if _mentions(s) or isinstance(s.value, ast.Await):
            raise ShapeError(f'{where}: unrecognised statement `{txt[:80]}`')
        return None
    if isinstance(s, ast.Assert):
        if txt == 'assert self.pending_command is None':
            return 'HAssertCommandNone'
        if txt == 'assert self.pending_response is None':
            return 'HAssertResponseNone'
        if _mentions(s):
            raise ShapeError(f'{where}: unrecognised assert `{txt[:80]}`')
        return None
    if isinstance(s, (ast.Assign, ast.AnnAssign)):
        if txt == 'self.pending_response = asyncio.get_running_loop().create_future()':
            return 'HNewResponse'
        if txt == 'self.pending_response = None':
            return 'HClearResponse'
        if txt == f'self.pending_command = {params[0]}' and fn == '_send_command':
            return 'HSetCommand'
        if txt == 'self.pending_command = None':
            return 'HClearCommand'
        if txt == 'self.transport_lost = True':
            return 'HSetLost'
        if txt == 'self.transport_lost = False':
            return 'HClearLost'
        if txt == 'response = await asyncio.wait_for(self.pending_response, timeout=response_timeout)':
            return 'HAwaitResponse'
        if _mentions(s) or any(isinstance(n, ast.Await) for n in ast.walk(s)):
            raise ShapeError(f'{where}: unrecognised assignment `{txt[:80]}`')
        return None
    if isinstance(s, ast.Return):
        if txt == 'return self.on_command_processed(event)':
            return 'HCallProcessed'
        if s.value is not None and _mentions(s):
            raise ShapeError(f'{where}: unrecognised return `{txt[:80]}`')
        return 'HReturn'
    if isinstance(s, ast.Raise):
        return 'HRaise'
    if isinstance(s, ast.Try):
        if s.orelse:
            raise ShapeError(f'{where}: try/else')
        body = stmts(s.body, fn, params)
        handlers = [stmts(h.body, fn, params) for h in s.handlers]
        fin = stmts(s.finalbody, fn, params)
        if not body and not fin and not any(handlers):
            return None
        return ('HTry', body, handlers, fin)
    if isinstance(s, ast.If):
        key = _u(s.test)
        cond = CONDS.get(key)
        a = stmts(s.body, fn, params)
        b = stmts(s.orelse, fn, params)
        if cond is None:
            if _mentions(s.test):
                raise ShapeError(f'{where}: unrecognised condition `{key[:100]}`')
            if not a and not b:
                return None
            cond = 'COther'
        if cond == 'COther' and not a and not b:
            return None
        return ('HIf', cond, a, b)
    if isinstance(s, (ast.For, ast.While, ast.With, ast.AsyncWith, ast.AsyncFor)):
        inner = stmts(s.body, fn, params)
        if inner or _mentions(s):
            raise ShapeError(f'{where}: {type(s).__name__} around statements of the command path')
        return None
    if _mentions(s):
        raise ShapeError(f'{where}: unrecognised statement kind {type(s).__name__}')
    return None


def coq(x) -> str:
    if isinstance(x, str):
        return x
    if isinstance(x, list):
        return '[' + '; '.join(coq(y) for y in x) + ']'
    if x[0] == 'HTry':
        return f'(HTry {coq(x[1])} {coq(x[2])} {coq(x[3])})'
    if x[0] == 'HIf':
        return f'(HIf {x[1]} {coq(x[2])} {coq(x[3])})'
    raise ValueError(x)


def translate():
    import bumble.host as host
    src = inspect.getsource(host)
    tree = ast.parse(src)
    cls = next(n for n in tree.body if isinstance(n, ast.ClassDef) and n.name == 'Host')
    methods = {n.name: n for n in cls.body if isinstance(n, (ast.FunctionDef, ast.AsyncFunctionDef))}
    shapes = {}
    for fn in FUNCS:
        if fn not in methods:
            raise ShapeError(f'Host.{fn} not found')
        f = methods[fn]
        params = [a.arg for a in f.args.args][1:] or ['_']
        if f.decorator_list:
            raise ShapeError(f'Host.{fn} is decorated')
        is_async = isinstance(f, ast.AsyncFunctionDef)
        if is_async != (fn in ('_send_command', 'flush')):
            raise ShapeError(f'Host.{fn}: async-ness changed')
        shapes[fn] = stmts(f.body, fn, params)
    # every function of the module that touches the three attributes
    touchers = sorted({f.name for f in ast.walk(tree) if isinstance(f, (ast.FunctionDef, ast.AsyncFunctionDef))
                       and any(isinstance(n, ast.Attribute) and n.attr in ATTRS for n in ast.walk(f))})
    # the semaphore's initial number of permits
    permits = None
    for n in ast.walk(methods['__init__']):
        if isinstance(n, ast.Assign) and _u(n.targets[0]) == 'self.command_semaphore':
            v = n.value
            if (isinstance(v, ast.Call) and _u(v.func) == 'asyncio.Semaphore' and len(v.args) == 1
                    and isinstance(v.args[0], ast.Constant) and isinstance(v.args[0].value, int)):
                permits = v.args[0].value
    if permits is None:
        raise ShapeError('self.command_semaphore = asyncio.Semaphore(<int>) not found in Host.__init__')
    lines = [
        '(* GENERATED by tools/translate/c03_hostshape.py from bumble/host.py.  Do not edit. *)',
        'From Coq Require Import ZArith List String.',
        'From BV Require Import Model.HostShape.',
        'Import ListNotations.',
        'Open Scope Z_scope.',
        '',
    ]
    names = {'_send_command': 'send_command', 'on_command_processed': 'command_processed',
             'on_hci_command_complete_event': 'command_complete_event',
             'on_hci_command_status_event': 'command_status_event', 'flush': 'flush',
             'on_transport_lost': 'transport_lost', 'set_packet_source': 'set_packet_source'}
    for fn in FUNCS:
        lines.append(f'(* Host.{fn} *)')
        lines.append(f'Definition {names[fn]} : list hstmt := {coq(shapes[fn])}.')
        lines.append('')
    lines.append('(* functions of bumble/host.py that mention command_semaphore / pending_command / pending_response *)')
    lines.append('Definition touchers : list string := [' + '; '.join(f'"{t}"%string' for t in touchers) + '].')
    lines.append('')
    lines.append(f'Definition semaphore_permits : Z := {permits}.')
    lines.append('')
    return '\n'.join(lines), {'touchers': touchers, 'permits': permits,
                              'shapes': {fn: coq(shapes[fn]) for fn in FUNCS}}
