"""C05 translator: reads the anchored functions of the ACL / ISO data path from the current source
(AST, plus the values of the HCI_* integer constants they name) and writes coq/Gen/C05Shape.v:

  * per function a statement skeleton [sk] (control flow + canonical text of every expression,
    logging and docstrings dropped), pinned by `..._skeleton_matches_source` theorems;
  * the size / flag / sequence arithmetic as [px] terms with their atom tables, about which
    Proofs/AclSrc.v proves - for all values - that they compute what Model/Acl.v computes.

Fail closed: an unknown statement kind, a missing function, or an expression that is not where
it is expected raises, which the driver reports as a failed obligation."""
import ast
import os

BINOPS = {ast.Add: 'Add', ast.Sub: 'Sub', ast.BitOr: 'BOr', ast.BitAnd: 'BAnd', ast.LShift: 'Shl', ast.RShift: 'Shr'}
CMPOPS = {ast.Eq: 'CEq', ast.NotEq: 'CNe', ast.Lt: 'CLt', ast.LtE: 'CLe', ast.Gt: 'CGt', ast.GtE: 'CGe'}


def coq_str(s):
    return '"' + s.replace('"', '""') + '"'


def coq_list(xs):
    return '[' + '; '.join(xs) + ']'


# ----------------------------------------------------------------------------- locating code
def load(repo, rel):
    path = os.path.join(repo, rel)
    with open(path) as f:
        return ast.parse(f.read(), filename=path)


def find_class(tree, name):
    for n in tree.body:
        if isinstance(n, ast.ClassDef) and n.name == name:
            return n
    raise RuntimeError(f'class {name} not found')


def find_fn(cls, name):
    for n in cls.body:
        if isinstance(n, (ast.FunctionDef, ast.AsyncFunctionDef)) and n.name == name:
            return n
    raise RuntimeError(f'{cls.name}.{name} not found')


def is_logging(stmt):
    if isinstance(stmt, ast.Expr) and isinstance(stmt.value, ast.Call):
        f = stmt.value.func
        return isinstance(f, ast.Attribute) and isinstance(f.value, ast.Name) and f.value.id == 'logger'
    return False


def is_doc(stmt):
    return isinstance(stmt, ast.Expr) and isinstance(stmt.value, ast.Constant) and isinstance(stmt.value.value, str)


# ----------------------------------------------------------------------------- skeleton
def sk_list(stmts):
    return coq_list([sk(s) for s in stmts if not is_logging(s) and not is_doc(s)])


def sk(s):
    u = ast.unparse
    if isinstance(s, ast.Expr):
        return f'SExpr {coq_str(u(s.value))}'
    if isinstance(s, ast.Assign):
        return f'SAssign {coq_str(" = ".join(u(t) for t in s.targets))} {coq_str(u(s.value))}'
    if isinstance(s, ast.AnnAssign):
        return f'SAssign {coq_str(u(s.target))} {coq_str(u(s.value) if s.value else "")}'
    if isinstance(s, ast.AugAssign):
        return f'SAug {coq_str(u(s.target))} {coq_str(type(s.op).__name__)} {coq_str(u(s.value))}'
    if isinstance(s, ast.Return):
        return f'SReturn {coq_str(u(s.value) if s.value else "")}'
    if isinstance(s, ast.Assert):
        return f'SAssert {coq_str(u(s.test))}'
    if isinstance(s, ast.Raise):
        return f'SRaise {coq_str(u(s.exc) if s.exc else "")}'
    if isinstance(s, ast.If):
        return f'SIf {coq_str(u(s.test))} {sk_list(s.body)} {sk_list(s.orelse)}'
    if isinstance(s, ast.For):
        if s.orelse:
            raise RuntimeError('for/else not supported')
        return f'SFor {coq_str(u(s.target))} {coq_str(u(s.iter))} {sk_list(s.body)}'
    if isinstance(s, ast.While):
        if s.orelse:
            raise RuntimeError('while/else not supported')
        return f'SWhile {coq_str(u(s.test))} {sk_list(s.body)}'
    if isinstance(s, ast.Try):
        if s.orelse or s.finalbody:
            raise RuntimeError('try/else/finally not supported')
        hs = ['(' + coq_str(u(h.type) if h.type else '') + ', ' + sk_list(h.body) + ')' for h in s.handlers]
        return f'STry {sk_list(s.body)} {coq_list(hs)}'
    if isinstance(s, ast.Pass):
        return 'SExpr "pass"'
    raise RuntimeError(f'unsupported statement {type(s).__name__} at line {s.lineno}')


# ----------------------------------------------------------------------------- expressions
class Atoms:
    def __init__(self, constants):
        self.names = []
        self.constants = constants      # module whose integer constants may be named

    def px(self, n):
        if isinstance(n, ast.Constant) and isinstance(n.value, int) and not isinstance(n.value, bool):
            return f'(PNum {n.value})'
        name = None
        if isinstance(n, ast.Name):
            name = n.id
        elif isinstance(n, ast.Attribute) and isinstance(n.value, ast.Name) and n.value.id == 'hci':
            name = n.attr
        if name and name.startswith('HCI_') and name.isupper():
            v = getattr(self.constants, name, None)
            if not isinstance(v, int):
                raise RuntimeError(f'constant {name} is not an integer in bumble.hci')
            return f'(PNum {int(v)})'
        if isinstance(n, ast.BinOp) and type(n.op) in BINOPS:
            return f'(PBin {BINOPS[type(n.op)]} {self.px(n.left)} {self.px(n.right)})'
        if isinstance(n, ast.Compare) and len(n.ops) == 1:
            op, rhs = n.ops[0], n.comparators[0]
            if isinstance(op, ast.In) and isinstance(rhs, ast.Tuple):
                return f'(PIn {self.px(n.left)} {coq_list([self.px(e) for e in rhs.elts])})'
            if type(op) in CMPOPS:
                return f'(PCmp {CMPOPS[type(op)]} {self.px(n.left)} {self.px(rhs)})'
        if isinstance(n, ast.IfExp):
            return f'(PIf {self.px(n.test)} {self.px(n.body)} {self.px(n.orelse)})'
        if isinstance(n, ast.Call) and isinstance(n.func, ast.Name) and n.func.id == 'min' and len(n.args) == 2 \
                and not n.keywords:
            return f'(PMin {self.px(n.args[0])} {self.px(n.args[1])})'
        if isinstance(n, ast.UnaryOp) and isinstance(n.op, ast.Not):
            return f'(PNot {self.px(n.operand)})'
        text = ast.unparse(n)
        if text not in self.names:
            self.names.append(text)
        return f'(PVar {self.names.index(text)})'


def only(xs, what):
    xs = list(xs)
    if len(xs) != 1:
        raise RuntimeError(f'expected exactly one {what}, found {len(xs)}')
    return xs[0]


def assigns(fn, target):
    return [s for s in ast.walk(fn) if isinstance(s, ast.Assign) and len(s.targets) == 1
            and ast.unparse(s.targets[0]) == target]


def calls_named(node, suffix):
    return [c for c in ast.walk(node) if isinstance(c, ast.Call) and ast.unparse(c.func).endswith(suffix)]


def kw(call, name):
    return only([k.value for k in call.keywords if k.arg == name], f'keyword {name}')


def fragment_loop(fn, at, data_name):
    """for offset in range(a, b, c): x = data[lo:hi]; HCI_AclDataPacket(pb_flag=..., bc_flag=..., data_total_length=...)"""
    loop = only([s for s in ast.walk(fn) if isinstance(s, ast.For)], 'for loop')
    it = loop.iter
    if not (isinstance(it, ast.Call) and ast.unparse(it.func) == 'range' and len(it.args) == 3 and not it.keywords):
        raise RuntimeError(f'{fn.name}: the loop does not iterate over range(start, stop, step)')
    sl = only([s for s in ast.walk(loop) if isinstance(s, ast.Subscript) and isinstance(s.slice, ast.Slice)
               and ast.unparse(s.value) == data_name], f'slice of {data_name}')
    if sl.slice.step is not None or sl.slice.lower is None or sl.slice.upper is None:
        raise RuntimeError(f'{fn.name}: unexpected slice')
    pkt = only(calls_named(loop, 'HCI_AclDataPacket'), 'HCI_AclDataPacket(...)')
    return {
        'range_start': at.px(it.args[0]), 'range_stop': at.px(it.args[1]), 'range_step': at.px(it.args[2]),
        'slice_lo': at.px(sl.slice.lower), 'slice_hi': at.px(sl.slice.upper),
        'pb': at.px(kw(pkt, 'pb_flag')), 'bc': at.px(kw(pkt, 'bc_flag')), 'len': at.px(kw(pkt, 'data_total_length')),
        'loop_target': at.px(loop.target),
    }


def translate(repo):
    import importlib
    hci_mod = importlib.import_module('bumble.hci')
    if not os.path.realpath(hci_mod.__file__).startswith(os.path.realpath(repo)):
        raise RuntimeError(f'bumble.hci was imported from {hci_mod.__file__}, not from {repo}')
    host = load(repo, 'bumble/host.py')
    hci = load(repo, 'bumble/hci.py')
    l2cap = load(repo, 'bumble/l2cap.py')
    ctrl = load(repo, 'bumble/controller.py')
    link = load(repo, 'bumble/link.py')

    fns = {
        'host_send_acl_sdu': find_fn(find_class(host, 'Host'), 'send_acl_sdu'),
        'host_send_l2cap_pdu': find_fn(find_class(host, 'Host'), 'send_l2cap_pdu'),
        'host_send_iso_sdu': find_fn(find_class(host, 'Host'), 'send_iso_sdu'),
        'host_on_l2cap_pdu': find_fn(find_class(host, 'Host'), 'on_l2cap_pdu'),
        'host_conn_on_hci_acl_data_packet': find_fn(find_class(host, 'Connection'), 'on_hci_acl_data_packet'),
        'host_conn_on_acl_pdu': find_fn(find_class(host, 'Connection'), 'on_acl_pdu'),
        'asm_init': find_fn(find_class(hci, 'HCI_AclDataPacketAssembler'), '__init__'),
        'asm_feed_packet': find_fn(find_class(hci, 'HCI_AclDataPacketAssembler'), 'feed_packet'),
        'acl_from_bytes': find_fn(find_class(hci, 'HCI_AclDataPacket'), 'from_bytes'),
        'acl_to_bytes': find_fn(find_class(hci, 'HCI_AclDataPacket'), '__bytes__'),
        'iso_from_bytes': find_fn(find_class(hci, 'HCI_IsoDataPacket'), 'from_bytes'),
        'iso_to_bytes': find_fn(find_class(hci, 'HCI_IsoDataPacket'), '__bytes__'),
        'l2cap_from_bytes': find_fn(find_class(l2cap, 'L2CAP_PDU'), 'from_bytes'),
        'l2cap_to_bytes': find_fn(find_class(l2cap, 'L2CAP_PDU'), 'to_bytes'),
        'ctrl_conn_on_hci_acl_data_packet': find_fn(find_class(ctrl, 'Connection'), 'on_hci_acl_data_packet'),
        'ctrl_conn_on_acl_pdu': find_fn(find_class(ctrl, 'Connection'), 'on_acl_pdu'),
        'ctrl_on_hci_acl_data_packet': find_fn(find_class(ctrl, 'Controller'), 'on_hci_acl_data_packet'),
        'ctrl_on_link_acl_data': find_fn(find_class(ctrl, 'Controller'), 'on_link_acl_data'),
        'link_send_acl_data': find_fn(find_class(link, 'LocalLink'), 'send_acl_data'),
    }
    out = ['(* GENERATED by tools/translate/c05_shape.py from bumble/{host,hci,l2cap,controller,link}.py - do not edit *)',
           'From Coq Require Import ZArith List String.',
           'From BV Require Import Model.AclSrc.',
           'Import ListNotations.', 'Open Scope string_scope.', 'Open Scope Z_scope.', '']
    for name, fn in fns.items():
        out.append(f'Definition sk_{name} : list sk := {sk_list(fn.body)}.')
    out.append('')

    def emit(group, at, terms):
        out.append(f'Definition {group}_atoms : list string := {coq_list([coq_str(a) for a in at.names])}.')
        for k, v in terms.items():
            out.append(f'Definition {group}_{k} : px := {v}.')
        out.append('')

    # ---- Host.send_acl_sdu / Controller.on_link_acl_data: the fragment loop
    at = Atoms(hci_mod)
    emit('tx', at, fragment_loop(fns['host_send_acl_sdu'], at, 'sdu'))
    at = Atoms(hci_mod)
    emit('rl', at, fragment_loop(fns['ctrl_on_link_acl_data'], at, 'data'))

    # ---- feed_packet: the branch tests
    fp = fns['asm_feed_packet']
    tests = [s.test for s in ast.walk(fp) if isinstance(s, ast.If)]
    texts = [ast.unparse(t) for t in tests]

    def test_with(pred, what):
        return only([t for t in tests if pred(ast.unparse(t))], f'feed_packet test {what}')
    at = Atoms(hci_mod)
    terms = {
        'start_test': at.px(test_with(lambda u: ' in ' in u and 'pb_flag' in u, 'pb_flag in (...)')),
        'cont_test': at.px(test_with(lambda u: 'pb_flag ==' in u, 'pb_flag == CONTINUATION')),
        'short_test': at.px(test_with(lambda u: u.startswith('len(') and '<' in u, 'len(...) < 2')),
        'complete_test': at.px(test_with(lambda u: u.startswith('len(') and '==' in u, 'len(...) == ... + 4')),
        'overflow_test': at.px(test_with(lambda u: u.startswith('len(') and '>' in u, 'len(...) > ... + 4')),
    }
    emit('asm', at, terms)
    unp = only([c for c in calls_named(fp, 'unpack_from')], 'struct.unpack_from in feed_packet')
    out.append(f'Definition asm_unpack_args : list string := {coq_list([coq_str(ast.unparse(a)) for a in unp.args])}.')
    out.append(f'Definition asm_test_count : Z := {len(texts)}.')
    out.append('')

    # ---- HCI_AclDataPacket header
    at = Atoms(hci_mod)
    tb, fb = fns['acl_to_bytes'], fns['acl_from_bytes']
    emit('aclhdr', at, {
        'pack': at.px(only(assigns(tb, 'h'), 'h = ...').value),
        'handle': at.px(only(assigns(fb, 'connection_handle'), 'connection_handle = ...').value),
        'pb': at.px(only(assigns(fb, 'pb_flag'), 'pb_flag = ...').value),
        'bc': at.px(only(assigns(fb, 'bc_flag'), 'bc_flag = ...').value),
        'len_check': at.px(only([s.test for s in ast.walk(fb) if isinstance(s, ast.If)], 'length check')),
    })
    fmts = [ast.unparse(c.args[0]) for c in calls_named(tb, 'struct.pack')] + \
           [ast.unparse(c.args[0]) for c in calls_named(fb, 'unpack_from')]
    out.append(f'Definition aclhdr_formats : list string := {coq_list([coq_str(f) for f in fmts])}.')
    out.append('')

    # ---- L2CAP_PDU
    at = Atoms(hci_mod)
    lf, lt = fns['l2cap_from_bytes'], fns['l2cap_to_bytes']
    sl = only([s for s in ast.walk(lf) if isinstance(s, ast.Subscript) and isinstance(s.slice, ast.Slice)], 'payload slice')
    emit('l2', at, {
        'short_test': at.px(only([s.test for s in ast.walk(lf) if isinstance(s, ast.If)], 'length test')),
        'slice_lo': at.px(sl.slice.lower), 'slice_hi': at.px(sl.slice.upper),
    })
    fmts = [ast.unparse(c.args[0]) for c in calls_named(lf, 'unpack_from')] + \
           [ast.unparse(c.args[0]) for c in calls_named(lt, 'struct.pack')]
    out.append(f'Definition l2_formats : list string := {coq_list([coq_str(f) for f in fmts])}.')
    out.append('')

    # ---- Host.send_iso_sdu
    at = Atoms(hci_mod)
    fi = fns['host_send_iso_sdu']
    loop = only([s for s in ast.walk(fi) if isinstance(s, ast.While)], 'while loop')
    pkts = calls_named(loop, 'HCI_IsoDataPacket')
    if len(pkts) != 2:
        raise RuntimeError(f'send_iso_sdu: expected two HCI_IsoDataPacket(...) constructions, found {len(pkts)}')
    first = only([p for p in pkts if any(k.arg == 'packet_sequence_number' for k in p.keywords)], 'first-fragment packet')
    later = only([p for p in pkts if p is not first], 'later-fragment packet')
    seq_upd = only([s for s in ast.walk(fi) if isinstance(s, ast.Assign)
                    and ast.unparse(s.targets[0]).endswith('.packet_sequence_number')], 'sequence number update')
    emit('iso', at, {
        'while_test': at.px(loop.test),
        'is_first': at.px(only(assigns(loop, 'is_first_fragment'), 'is_first_fragment').value),
        'header_length': at.px(only(assigns(loop, 'header_length'), 'header_length').value),
        'assert_test': at.px(only([s.test for s in ast.walk(loop) if isinstance(s, ast.Assert)], 'assert')),
        'fragment_length': at.px(only(assigns(loop, 'fragment_length'), 'fragment_length').value),
        'is_last': at.px(only(assigns(loop, 'is_last_fragment'), 'is_last_fragment').value),
        'first_pb': at.px(kw(first, 'pb_flag')), 'first_len': at.px(kw(first, 'data_total_length')),
        'first_sdu_len': at.px(kw(first, 'iso_sdu_length')), 'first_psf': at.px(kw(first, 'packet_status_flag')),
        'later_pb': at.px(kw(later, 'pb_flag')), 'later_len': at.px(kw(later, 'data_total_length')),
        'seq_update': at.px(seq_upd.value),
    })

    # ---- HCI_IsoDataPacket header words
    at = Atoms(hci_mod)
    ib, ifb = fns['iso_to_bytes'], fns['iso_from_bytes']
    lists = [n for n in ast.walk(ib) if isinstance(n, ast.List)]
    hdr_list = only([l for l in lists if len(l.elts) == 3], 'header argument list')
    info_list = only([l for l in lists if len(l.elts) == 2], 'SDU info argument list')
    emit('isohdr', at, {
        'pack': at.px(hdr_list.elts[1]),
        'info_pack': at.px(info_list.elts[1]),
        'handle': at.px(only(assigns(ifb, 'connection_handle'), 'connection_handle').value),
        'pb': at.px(only(assigns(ifb, 'pb_flag'), 'pb_flag').value),
        'ts': at.px(only(assigns(ifb, 'ts_flag'), 'ts_flag').value),
        'sdu_len': at.px(only([a for a in assigns(ifb, 'iso_sdu_length') if not isinstance(a.value, ast.Constant)],
                              'iso_sdu_length = ...').value),
        'psf': at.px(only([a for a in assigns(ifb, 'packet_status_flag') if not isinstance(a.value, ast.Constant)],
                          'packet_status_flag = ...').value),
    })
    return '\n'.join(out) + '\n'


if __name__ == '__main__':
    import sys
    print(translate(sys.argv[1] if len(sys.argv) > 1 else os.environ.get('BUMBLE_REPO', '/repo')))
