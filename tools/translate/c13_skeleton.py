"""AST translator for C13 (fail closed): the property-relevant shape of the anchored functions of
bumble/smp.py and bumble/device.py, rendered as coq/Gen/C13Skeleton.v.

  * compute_peer_expected_distributions, distribute_keys  -> structured clauses that the Coq side
    interprets and proves equal to the model's `expected` / `distributed` (semantic obligation);
  * Session.on_pairing, Device.encrypt, Device.get_long_term_key, Session.get_long_term_key
    -> for every statement that files or reads a key: (what, guard path, value), normalised
    source text, which the Coq side compares with the reading the model was written from.

Anything the walkers do not recognise aborts the translation and names the construct."""
import ast
import inspect
import textwrap


class SkeletonError(Exception):
    pass


def _fn(obj):
    src = textwrap.dedent(inspect.getsource(obj))
    tree = ast.parse(src)
    fn = tree.body[0]
    if not isinstance(fn, (ast.FunctionDef, ast.AsyncFunctionDef)):
        raise SkeletonError(f'{obj}: not a function')
    return fn


def _u(node):
    return ast.unparse(node)


def _coq_string(s):
    return '"' + s.replace('"', '""') + '"'


# ----------------------------------------------------------------------------- expected / distributed
def _flag_test(test, var_names):
    """`<var> & KeyDistribution.X` (optionally `!= 0`) -> X; None when the test is something else."""
    t = test
    if isinstance(t, ast.Compare) and len(t.ops) == 1 and isinstance(t.ops[0], ast.NotEq) \
            and isinstance(t.comparators[0], ast.Constant) and t.comparators[0].value == 0:
        t = t.left
    if isinstance(t, ast.BinOp) and isinstance(t.op, ast.BitAnd) and _u(t.left) in var_names \
            and _u(t.right).startswith('KeyDistribution.'):
        return _u(t.right).split('.', 1)[1]
    return None


def _sent_commands(stmts, where, smp):
    """the SMP commands a block sends, in order (only sends and logging are allowed in it)"""
    out = []
    for st in stmts:
        if isinstance(st, ast.Expr) and isinstance(st.value, ast.Call):
            call = st.value
            f = _u(call.func)
            if f == 'self.send_command' and len(call.args) == 1 and isinstance(call.args[0], ast.Call):
                cls = getattr(smp, _u(call.args[0].func), None)
                if cls is None or not hasattr(cls, 'code'):
                    raise SkeletonError(f'{where}: unknown command {_u(call.args[0].func)}')
                out.append(int(cls.code))
                continue
            if f == 'self.send_identity_address_command':
                out.append(int(smp.SMP_Identity_Address_Information_Command.code))
                continue
            if f == 'self.peer_expected_distributions.append' and len(call.args) == 1:
                cls = getattr(smp, _u(call.args[0]), None)
                if cls is None or not hasattr(cls, 'code'):
                    raise SkeletonError(f'{where}: unknown command {_u(call.args[0])}')
                out.append(int(cls.code))
                continue
            if f.startswith('logger.'):
                continue
        raise SkeletonError(f'{where}: unrecognised statement `{_u(st)}`')
    return out


def expected_skeleton(smp):
    fn = _fn(smp.Session.compute_peer_expected_distributions)
    var = fn.args.args[1].arg
    clauses = []
    body = list(fn.body)
    if not (isinstance(body[0], ast.Assign) and _u(body[0]) == 'self.peer_expected_distributions = []'):
        raise SkeletonError('compute_peer_expected_distributions: does not start from an empty list')
    for st in body[1:]:
        if isinstance(st, ast.Expr) and isinstance(st.value, ast.Call) and _u(st.value.func).startswith('logger.'):
            continue
        if not isinstance(st, ast.If) or st.orelse:
            raise SkeletonError(f'compute_peer_expected_distributions: unrecognised `{_u(st)[:60]}`')
        flag = _flag_test(st.test, {var})
        if flag is not None:
            clauses.append((False, flag, _sent_commands(st.body, 'compute_peer_expected_distributions', smp)))
            continue
        if _u(st.test) == 'not self.sc and self.connection.transport == PhysicalTransport.LE':
            for inner in st.body:
                if not isinstance(inner, ast.If) or inner.orelse or _flag_test(inner.test, {var}) is None:
                    raise SkeletonError(f'compute_peer_expected_distributions: unrecognised `{_u(inner)[:60]}`')
                clauses.append((True, _flag_test(inner.test, {var}),
                                _sent_commands(inner.body, 'compute_peer_expected_distributions', smp)))
            continue
        raise SkeletonError(f'compute_peer_expected_distributions: unrecognised guard `{_u(st.test)}`')
    return clauses


def distribute_skeleton(smp):
    """per role: list of clauses
       ('enc', flag, cmds)      if BR_EDR and kd & flag: <derive>  elif not self.sc: if kd & flag: send cmds
       ('send', flag, cmds)     if kd & flag: send cmds
       ('link', flag, conds)    if kd & flag [and self.sc] [and transport == LE]: self.link_key = derive_link_key(self.ltk..)"""
    fn = _fn(smp.Session.distribute_keys)
    top = [st for st in fn.body if not (isinstance(st, ast.Expr) and isinstance(st.value, ast.Constant))]
    if len(top) != 1 or not isinstance(top[0], ast.If) or _u(top[0].test) != 'self.is_initiator':
        raise SkeletonError('distribute_keys: expected `if self.is_initiator: ... else: ...`')
    roles = {}
    for role, block, var in (('initiator', top[0].body, 'self.initiator_key_distribution'),
                             ('responder', top[0].orelse, 'self.responder_key_distribution')):
        clauses = []
        for st in block:
            if isinstance(st, ast.Assign) and _u(st).startswith('csrk = '):
                continue
            if not isinstance(st, ast.If):
                raise SkeletonError(f'distribute_keys[{role}]: unrecognised `{_u(st)[:60]}`')
            # CTKD / legacy LTK clause
            if isinstance(st.test, ast.BoolOp) and isinstance(st.test.op, ast.And) and len(st.test.values) == 2 \
                    and _u(st.test.values[0]) == 'self.connection.transport == PhysicalTransport.BR_EDR' \
                    and _flag_test(st.test.values[1], {var}) is not None:
                flag = _flag_test(st.test.values[1], {var})
                if len(st.body) != 1 or 'self.get_link_key_and_derive_ltk()' not in _u(st.body[0]):
                    raise SkeletonError(f'distribute_keys[{role}]: CTKD branch is `{_u(st.body[0])[:60]}`')
                if len(st.orelse) != 1 or not isinstance(st.orelse[0], ast.If) or _u(st.orelse[0].test) != 'not self.sc' \
                        or st.orelse[0].orelse or len(st.orelse[0].body) != 1:
                    raise SkeletonError(f'distribute_keys[{role}]: expected `elif not self.sc:` after the CTKD branch')
                inner = st.orelse[0].body[0]
                if not isinstance(inner, ast.If) or inner.orelse or _flag_test(inner.test, {var}) != flag:
                    raise SkeletonError(f'distribute_keys[{role}]: legacy LTK clause `{_u(inner)[:60]}`')
                clauses.append(('enc', flag, _sent_commands(inner.body, f'distribute_keys[{role}]', smp)))
                continue
            if st.orelse:
                raise SkeletonError(f'distribute_keys[{role}]: unexpected else in `{_u(st.test)}`')
            flag = _flag_test(st.test, {var})
            if flag is not None:
                if len(st.body) == 1 and _u(st.body[0]).startswith('self.link_key = self.derive_link_key(self.ltk'):
                    clauses.append(('link', flag, []))
                else:
                    clauses.append(('send', flag, _sent_commands(st.body, f'distribute_keys[{role}]', smp)))
                continue
            if isinstance(st.test, ast.BoolOp) and isinstance(st.test.op, ast.And) \
                    and _flag_test(st.test.values[0], {var}) is not None \
                    and len(st.body) == 1 and _u(st.body[0]).startswith('self.link_key = self.derive_link_key(self.ltk'):
                conds = []
                for v in st.test.values[1:]:
                    if _u(v) == 'self.sc':
                        conds.append('sc')
                    elif _u(v) == 'self.connection.transport == PhysicalTransport.LE':
                        conds.append('le')
                    else:
                        raise SkeletonError(f'distribute_keys[{role}]: link key condition `{_u(v)}`')
                clauses.append(('link', _flag_test(st.test.values[0], {var}), conds))
                continue
            raise SkeletonError(f'distribute_keys[{role}]: unrecognised guard `{_u(st.test)}`')
        roles[role] = clauses
    return roles


# ----------------------------------------------------------------------------- key filing / reading
def _walk(stmts, guards, env, out, targets, returns):
    """collect (what, guard path, value) for assignments to `targets` and for returns"""
    for st in stmts:
        if isinstance(st, ast.If):
            _walk(st.body, guards + [_u(st.test)], env, out, targets, returns)
            _walk(st.orelse, guards + [f'not ({_u(st.test)})'], env, out, targets, returns)
        elif isinstance(st, ast.Assign) and len(st.targets) == 1:
            name = _u(st.targets[0])
            value = st.value
            if isinstance(value, ast.Name) and value.id in env:
                value_src = env[value.id]
            else:
                value_src = _u(value)
            if isinstance(st.targets[0], ast.Name):
                env[name] = value_src
            if targets(name):
                guard = ['(' + env[g.split(' & ')[0]] + ') & ' + g.split(' & ', 1)[1]
                         if ' & ' in g and g.split(' & ')[0] in env else g for g in guards]
                out.append((name, ' ; '.join(guard), value_src))
        elif isinstance(st, ast.Return) and returns and st.value is not None:
            out.append(('return', ' ; '.join(guards), _u(st.value)))
        elif isinstance(st, (ast.With, ast.AsyncWith)):
            _walk(st.body, guards, env, out, targets, returns)
        elif isinstance(st, ast.Try):
            _walk(st.body, guards, env, out, targets, returns)
        elif isinstance(st, (ast.For, ast.While, ast.AsyncFor)):
            raise SkeletonError(f'unexpected loop `{_u(st)[:50]}`')


def filing_skeleton(smp, device):
    res = {}
    out = []
    _walk(_fn(smp.Session.on_pairing).body, [], {}, out,
          lambda n: n.startswith('keys.') or n == 'authenticated', False)
    res['on_pairing'] = [(n, g, v) for n, g, v in out if n != 'keys.address_type']
    out = []
    _walk(_fn(device.Device.encrypt).body, [], {}, out, lambda n: n in ('ltk', 'rand', 'ediv'), False)
    res['encrypt'] = out
    out = []
    _walk(_fn(device.Device.get_long_term_key).body, [], {}, out, lambda n: False, True)
    res['provider'] = out
    out = []
    _walk(_fn(smp.Session.get_long_term_key).body, [], {}, out, lambda n: False, True)
    res['session_provider'] = out
    return res


# ----------------------------------------------------------------------------- order of statements in the handlers
_SET = {'self.bonding', 'self.sc', 'self.ct2', 'self.preq', 'self.pres', 'self.peer_io_capability',
        'self.pairing_method', 'self.r', 'self.initiator_key_distribution', 'self.responder_key_distribution',
        '(self.initiator_key_distribution, self.responder_key_distribution)', 'accepted'}
_CALL = {'self.decide_pairing_method', 'self.compute_peer_expected_distributions',
         'self.send_pairing_response_command', 'self.send_public_key_command', 'self.send_pairing_confirm_command',
         'self.display_or_input_passkey', 'self.display_passkey', 'self.distribute_keys', 'self.send_pairing_failed',
         'self.manager.on_session_start', 'self.on_peer_key_distribution_complete',
         'self.pairing_config.delegate.accept', 'self.pairing_config.delegate.key_distribution_response'}


# the session table: Session.on_disconnection, on_pairing_failure, Manager.pair / on_smp_pdu / on_session_end
_SET_LIFE = {'self.completed', 'self.sessions[connection.handle]', 'session'}
_CALL_LIFE = {'self.manager.on_session_end', 'self.connection.remove_listener', 'self.manager.on_pairing_failure',
              'self.session_proxy', 'session.on_smp_command', 'session.pair', 'self.send_command',
              'self.sessions.get', 'self.on_smp_security_request_command', 'self.pairing_result.set_exception'}
_ACTIVE = {'set': _SET, 'call': _CALL}


def _calls_in(node):
    """interesting calls inside an expression, innermost first (evaluation order)"""
    found = []
    for sub in ast.walk(node):
        if isinstance(sub, ast.Call) and _u(sub.func) in _ACTIVE['call']:
            found.append((sub.lineno, sub.col_offset, f'{_u(sub.func)}({", ".join(_u(a) for a in sub.args)})'))
    return [t for _, _, t in sorted(found, reverse=True)]


def _order(stmts, depth, out):
    for st in stmts:
        if isinstance(st, ast.If):
            out.append((f'{depth}:if', _u(st.test)))
            _order(st.body, depth + 1, out)
            if st.orelse:
                out.append((f'{depth}:else', ''))
                _order(st.orelse, depth + 1, out)
        elif isinstance(st, ast.Assign) and len(st.targets) == 1:
            for c in _calls_in(st.value):
                out.append((f'{depth}:call', c))
            if _u(st.targets[0]) in _ACTIVE['set']:
                out.append((f'{depth}:set {_u(st.targets[0])}', _u(st.value)))
        elif isinstance(st, ast.Expr):
            for c in _calls_in(st.value):
                out.append((f'{depth}:call', c))
        elif isinstance(st, ast.Return):
            if st.value is not None:
                for c in _calls_in(st.value):
                    out.append((f'{depth}:call', c))
            out.append((f'{depth}:return', '' if st.value is None else _u(st.value)))
        elif isinstance(st, ast.Delete):
            out.append((f'{depth}:del', ', '.join(_u(t) for t in st.targets)))
        elif isinstance(st, ast.Try):
            out.append((f'{depth}:try', ''))
            _order(st.body, depth + 1, out)
            for hnd in st.handlers:
                out.append((f'{depth}:except', ''))
                _order(hnd.body, depth + 1, out)
        elif isinstance(st, (ast.For, ast.While, ast.AsyncFor, ast.With, ast.AsyncWith)):
            raise SkeletonError(f'handler: unexpected `{_u(st)[:50]}`')


def handler_order(smp):
    res = {}
    for name, fn in (('request_handler', smp.Session.on_smp_pairing_request_command_async),
                     ('response_handler', smp.Session.on_smp_pairing_response_command)):
        out = []
        _order(_fn(fn).body, 0, out)
        res[name] = out
    return res


def lifecycle_order(smp):
    res = {}
    _ACTIVE['set'], _ACTIVE['call'] = _SET_LIFE, _CALL_LIFE
    try:
        for name, fn in (('session_on_disconnection', smp.Session.on_disconnection),
                         ('session_on_pairing_failure', smp.Session.on_pairing_failure),
                         ('manager_on_session_end', smp.Manager.on_session_end),
                         ('manager_pair', smp.Manager.pair),
                         ('manager_on_smp_pdu', smp.Manager.on_smp_pdu)):
            out = []
            _order(_fn(fn).body, 0, out)
            res[name] = out
    finally:
        _ACTIVE['set'], _ACTIVE['call'] = _SET, _CALL
    return res


def render():
    from bumble import device, smp
    KD = {n: int(getattr(smp.KeyDistribution, n)) for n in ('ENC_KEY', 'ID_KEY', 'SIGN_KEY', 'LINK_KEY')}

    def bit(flag, where):
        if flag not in KD:
            raise SkeletonError(f'{where}: unknown KeyDistribution.{flag}')
        return KD[flag]

    def zlist(xs):
        return '[' + '; '.join(str(x) for x in xs) + ']'
    lines = ['(* GENERATED by tools/translate/c13_skeleton.py from bumble/smp.py, bumble/device.py -- do not edit. *)',
             'From Coq Require Import ZArith List Bool String.', 'Import ListNotations.',
             'Open Scope Z_scope.', 'Open Scope string_scope.', '',
             '(* compute_peer_expected_distributions: (only when "not self.sc and transport == LE", flag bit, commands) *)',
             'Definition expected_skeleton : list (bool * Z * list Z) := [']
    lines.append(';\n'.join(f'  ({str(g).lower()}, {bit(f, "expected")}, {zlist(c)})' for g, f, c in expected_skeleton(smp)))
    lines.append('].')
    lines.append('')
    lines.append('(* distribute_keys, per role *)')
    lines.append('Inductive dclause :=')
    lines.append('| DEnc (bit : Z) (cmds : list Z)      (* BR/EDR and bit: derive; elif not sc: if bit: send *)')
    lines.append('| DSend (bit : Z) (cmds : list Z)')
    lines.append('| DLink (bit : Z) (needs_sc needs_le : bool).')
    for role, clauses in distribute_skeleton(smp).items():
        items = []
        for kind, flag, arg in clauses:
            b = bit(flag, 'distribute_keys')
            if kind == 'enc':
                items.append(f'  DEnc {b} {zlist(arg)}')
            elif kind == 'send':
                items.append(f'  DSend {b} {zlist(arg)}')
            else:
                items.append(f'  DLink {b} {str("sc" in arg).lower()} {str("le" in arg).lower()}')
        lines.append(f'Definition distribute_skeleton_{role} : list dclause := [')
        lines.append(';\n'.join(items))
        lines.append('].')
    lines.append('')
    lines.append('(* statements that file or read a key: (target, guard path, value), normalised source *)')
    for name, rows in filing_skeleton(smp, device).items():
        lines.append(f'Definition {name}_source : list (string * string * string) := [')
        lines.append(';\n'.join(f'  ({_coq_string(n)}, {_coq_string(g)}, {_coq_string(v)})' for n, g, v in rows))
        lines.append('].')
    lines.append('')
    lines.append('(* the negotiation handlers: assignments of the negotiated fields, decisions, sends and tests, in')
    lines.append('   source order with their nesting depth *)')
    for name, rows in list(handler_order(smp).items()) + list(lifecycle_order(smp).items()):
        lines.append(f'Definition {name}_source : list (string * string) := [')
        lines.append(';\n'.join(f'  ({_coq_string(k)}, {_coq_string(v)})' for k, v in rows))
        lines.append('].')
    return '\n'.join(lines) + '\n'
