"""C06 translator: which link tables does Controller.allocate_connection_handle consult, and which
tables of Controller store links that carry a connection handle?  Read from the source (AST of
bumble/controller.py); anything not recognised raises (fail closed).

  handle tables  = class-level annotations `name: dict[K, V]` of Controller whose value type V is a
                   class of the module with a `handle` field and in which some method
                   `find_*_by_handle` of Controller looks a link up (every table in which a
                   connection handle can be resolved: advertising_sets, whose handle is an
                   advertising handle, is not among them)
  consulted      = attributes `self.<name>` read by allocate_connection_handle, directly or through
                   methods of Controller it calls (transitively)
"""
import ast
import os

ALLOWED_CALLS = {'set', 'cast', 'next', 'range', 'chain', 'list', 'iter', 'max', 'min', 'sorted', 'len', 'any', 'all'}


def _class(tree, name):
    for node in tree.body:
        if isinstance(node, ast.ClassDef) and node.name == name:
            return node
    raise ValueError(f'class {name} not found in bumble/controller.py')


def _has_handle_field(tree, cls_name):
    try:
        cls = _class(tree, cls_name)
    except ValueError:
        return False
    for node in cls.body:
        if isinstance(node, ast.AnnAssign) and isinstance(node.target, ast.Name) and node.target.id == 'handle':
            return True
    return False


def _value_type(annotation):
    """`dict[K, V]` -> 'V' (last component of a dotted name); None when it is not such a dict"""
    if not (isinstance(annotation, ast.Subscript) and isinstance(annotation.value, ast.Name)
            and annotation.value.id == 'dict'):
        return None
    sl = annotation.slice
    if not (isinstance(sl, ast.Tuple) and len(sl.elts) == 2):
        return None
    v = sl.elts[1]
    if isinstance(v, ast.Name):
        return v.id
    if isinstance(v, ast.Attribute):
        return v.attr
    return None


def tables(repo):
    path = os.path.join(repo, 'bumble', 'controller.py')
    with open(path) as f:
        tree = ast.parse(f.read())
    ctrl = _class(tree, 'Controller')
    dict_attrs = {}
    for node in ctrl.body:
        if isinstance(node, ast.AnnAssign) and isinstance(node.target, ast.Name):
            v = _value_type(node.annotation)
            if v is not None:
                dict_attrs[node.target.id] = v
    methods = {n.name: n for n in ctrl.body if isinstance(n, (ast.FunctionDef, ast.AsyncFunctionDef))}
    if 'allocate_connection_handle' not in methods:
        raise ValueError('Controller.allocate_connection_handle not found')
    finders = sorted(m for m in methods if m.startswith('find_') and m.endswith('_by_handle'))
    if not finders:
        raise ValueError('Controller has no find_*_by_handle method')
    resolvable = set()
    for m in finders:
        for node in ast.walk(methods[m]):
            if isinstance(node, ast.Attribute) and isinstance(node.value, ast.Name) and node.value.id == 'self' \
                    and node.attr in dict_attrs:
                resolvable.add(node.attr)
    handle_tables = sorted(name for name in resolvable if _has_handle_field(tree, dict_attrs[name]))
    if handle_tables != sorted(resolvable):
        raise ValueError(f'a table searched by handle holds values without a handle field: {sorted(resolvable)}')
    if not handle_tables:
        raise ValueError('no handle-bearing table found among the annotations of Controller')
    consulted = set()
    seen = set()

    def visit(fn_name):
        if fn_name in seen:
            return
        seen.add(fn_name)
        fn = methods[fn_name]
        for node in ast.walk(fn):
            if isinstance(node, ast.Attribute) and isinstance(node.value, ast.Name) and node.value.id == 'self':
                if node.attr in dict_attrs:
                    consulted.add(node.attr)
                elif node.attr in methods:
                    visit(node.attr)
                else:
                    raise ValueError(f'{fn_name}: reads self.{node.attr}, which is neither an annotated table '
                                     f'nor a method of Controller')
            elif isinstance(node, ast.Call):
                f = node.func
                if isinstance(f, ast.Name) and f.id not in ALLOWED_CALLS:
                    raise ValueError(f'{fn_name}: calls {f.id}(), not in the catalogue')
                if isinstance(f, ast.Attribute) and not (
                        (isinstance(f.value, ast.Name) and f.value.id in ('self', 'itertools'))
                        or f.attr in ('values', 'keys', 'items', 'get')):
                    raise ValueError(f'{fn_name}: calls .{f.attr}() on something unexpected')
    visit('allocate_connection_handle')
    return handle_tables, sorted(consulted)


def coq_text(repo):
    handle_tables, consulted = tables(repo)
    q = lambda xs: '[' + '; '.join(f'"{x}"' for x in xs) + ']'
    return ('(* GENERATED by tools/translate/c06_handles.py from bumble/controller.py -- do not edit *)\n'
            'From Coq Require Import String List.\nImport ListNotations.\nOpen Scope string_scope.\n\n'
            '(* tables of Controller whose values carry a connection handle *)\n'
            f'Definition code_handle_tables : list string := {q(handle_tables)}.\n\n'
            '(* tables consulted by Controller.allocate_connection_handle *)\n'
            f'Definition code_alloc_tables : list string := {q(consulted)}.\n')
