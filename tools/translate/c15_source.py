"""C15 translator: the shape of bumble/keys.py (PairingKeys / PairingKeys.Key field lists and their
to_dict / from_dict, JsonKeyStore.load / save / update / delete / delete_all / get / get_all,
get_resolving_keys, from_device) -> coq/Gen/C15Source.v.  Fail closed: every statement of the
anchored functions must be one the translator knows; anything else raises and names it."""
import ast
import dataclasses
import inspect
import textwrap


class Unrecognised(RuntimeError):
    pass


def _body(fn):
    src = textwrap.dedent(inspect.getsource(fn))
    tree = ast.parse(src)
    f = tree.body[0]
    if not isinstance(f, (ast.FunctionDef, ast.AsyncFunctionDef)):
        raise Unrecognised(f'{fn}: not a function')
    body = list(f.body)
    if body and isinstance(body[0], ast.Expr) and isinstance(body[0].value, ast.Constant) and isinstance(body[0].value.value, str):
        body = body[1:]            # docstring
    return f, body


def _norm(node):
    """structure of a statement / expression, without positions and without type annotations"""
    if isinstance(node, ast.AnnAssign):
        node = ast.Assign(targets=[node.target], value=node.value)
    d = ast.dump(node, annotate_fields=True, include_attributes=False)
    return d.replace('ctx=Load()', 'ctx').replace('ctx=Store()', 'ctx')


def _stmt(src):
    return _norm(ast.parse(textwrap.dedent(src)).body[0])


def _stmts(src):
    return [_norm(s) for s in ast.parse(textwrap.dedent(src)).body]


def _same(fn, expected_src, what):
    _, body = _body(fn)
    got = [_norm(s) for s in body]
    want = _stmts(expected_src)
    if got != want:
        for i, (g, w) in enumerate(zip(got + [None] * len(want), want + [None] * len(got))):
            if g != w:
                raise Unrecognised(f'{what}: statement {i} is not the one the model was read from: '
                                   f'{ast.unparse(body[i]) if i < len(body) else "<missing>"!r}')
        raise Unrecognised(f'{what}: different number of statements')


def _self_attr(node):
    if isinstance(node, ast.Attribute) and isinstance(node.value, ast.Name) and node.value.id == 'self':
        return node.attr
    return None


def _is_not_none_test(test):
    """`self.F is not None` -> F"""
    if isinstance(test, ast.Compare) and len(test.ops) == 1 and isinstance(test.ops[0], ast.IsNot) \
            and isinstance(test.comparators[0], ast.Constant) and test.comparators[0].value is None:
        return _self_attr(test.left)
    return None


# ----------------------------------------------------------------------------- PairingKeys
def pairingkeys_fields(keys):
    out = []
    for f in dataclasses.fields(keys.PairingKeys):
        t = f.type if isinstance(f.type, str) else getattr(f.type, '__name__', repr(f.type))
        if f.default is not None:
            raise Unrecognised(f'PairingKeys.{f.name}: default is not None')
        out.append((f.name, 1 if 'Key' in t else 0))
    return out


def to_dict_fields(keys):
    _, body = _body(keys.PairingKeys.to_dict)
    if _norm(body[0]) != _stmt('keys = {}') or _norm(body[-1]) != _stmt('return keys'):
        raise Unrecognised('PairingKeys.to_dict: does not start with `keys = {}` / end with `return keys`')
    out = []
    for st in body[1:-1]:
        ok = False
        if isinstance(st, ast.If) and not st.orelse and len(st.body) == 1:
            attr = _is_not_none_test(st.test)
            a = st.body[0]
            if attr and isinstance(a, ast.Assign) and len(a.targets) == 1:
                t = a.targets[0]
                if isinstance(t, ast.Subscript) and isinstance(t.value, ast.Name) and t.value.id == 'keys' \
                        and isinstance(t.slice, ast.Constant) and isinstance(t.slice.value, str):
                    name = t.slice.value
                    if _norm(a.value) == _norm(ast.parse(f'self.{attr}').body[0].value):
                        out.append((attr, name, 0))
                        ok = True
                    elif _norm(a.value) == _norm(ast.parse(f'self.{attr}.to_dict()').body[0].value):
                        out.append((attr, name, 1))
                        ok = True
        if not ok:
            raise Unrecognised(f'PairingKeys.to_dict: unrecognised statement {ast.unparse(st)!r}')
    return out


def from_dict_fields(keys):
    _, body = _body(keys.PairingKeys.from_dict)
    if len(body) != 1 or not isinstance(body[0], ast.Return) or not isinstance(body[0].value, ast.Call) \
            or _norm(body[0].value.func) != _norm(ast.parse('PairingKeys').body[0].value) or body[0].value.args:
        raise Unrecognised('PairingKeys.from_dict: not a single `return PairingKeys(kw=...)`')
    out = []
    for kw in body[0].value.keywords:
        v = kw.value
        name = None
        kind = None
        if isinstance(v, ast.Call) and len(v.args) == 2 and not v.keywords and isinstance(v.args[1], ast.Constant) \
                and _norm(v) == _norm(ast.parse(f'PairingKeys.key_from_dict(keys_dict, {v.args[1].value!r})').body[0].value):
            name, kind = v.args[1].value, 1
        elif isinstance(v, ast.Call) and len(v.args) == 1 and not v.keywords and isinstance(v.args[0], ast.Constant) \
                and _norm(v) == _norm(ast.parse(f'keys_dict.get({v.args[0].value!r})').body[0].value):
            name, kind = v.args[0].value, 0
        elif isinstance(v, ast.IfExp):
            for n in ast.walk(v.test):
                if isinstance(n, ast.Constant) and isinstance(n.value, str):
                    name = n.value
            want = ast.parse(f'hci.AddressType(t) if (t := keys_dict.get({name!r})) is not None else None').body[0].value
            if name is not None and _norm(v) == _norm(want):
                kind = 0
        if kind is None:
            raise Unrecognised(f'PairingKeys.from_dict: unrecognised argument {ast.unparse(kw)!r}')
        out.append((kw.arg, name, kind))
    _same(keys.PairingKeys.key_from_dict, '''
        key_dict = keys_dict.get(key_name)
        if key_dict is None:
            return None
        return PairingKeys.Key.from_dict(key_dict)
    ''', 'PairingKeys.key_from_dict')
    return out


def key_fields(keys):
    out = []
    for f in dataclasses.fields(keys.PairingKeys.Key):
        out.append(f.name)
    return out


def key_to_dict_fields(keys):
    _, body = _body(keys.PairingKeys.Key.to_dict)
    first = body[0]
    if not (isinstance(first, ast.Assign) and _norm(first.targets[0]) == _norm(ast.parse('key_dict').body[0].value)
            and isinstance(first.value, ast.Dict)) or _norm(body[-1]) != _stmt('return key_dict'):
        raise Unrecognised('Key.to_dict: does not start with `key_dict = {...}` / end with `return key_dict`')
    out = []

    def value_kind(name, v):
        if _norm(v) == _norm(ast.parse(f'self.{name}').body[0].value):
            return False
        if _norm(v) == _norm(ast.parse(f'self.{name}.hex()').body[0].value):
            return True
        raise Unrecognised(f'Key.to_dict: member {name!r} is not self.{name} or self.{name}.hex(): {ast.unparse(v)!r}')

    for k, v in zip(first.value.keys, first.value.values):
        if not (isinstance(k, ast.Constant) and isinstance(k.value, str)):
            raise Unrecognised('Key.to_dict: non-literal key')
        out.append((k.value, True, value_kind(k.value, v)))
    for st in body[1:-1]:
        ok = False
        if isinstance(st, ast.If) and not st.orelse and len(st.body) == 1:
            attr = _is_not_none_test(st.test)
            a = st.body[0]
            if attr and isinstance(a, ast.Assign) and _norm(a.targets[0]) == _norm(ast.parse(f'key_dict[{attr!r}]').body[0].value):
                out.append((attr, False, value_kind(attr, a.value)))
                ok = True
        if not ok:
            raise Unrecognised(f'Key.to_dict: unrecognised statement {ast.unparse(st)!r}')
    return out


def key_from_dict_default(keys):
    for default in (False, True):
        try:
            _same(keys.PairingKeys.Key.from_dict, f'''
                value = bytes.fromhex(key_dict['value'])
                authenticated = key_dict.get('authenticated', {default})
                ediv = key_dict.get('ediv')
                rand = key_dict.get('rand')
                if rand is not None:
                    rand = bytes.fromhex(rand)
                return cls(value, authenticated, ediv, rand)
            ''', 'Key.from_dict')
            return default
        except Unrecognised as e:
            last = e
    raise last


# ----------------------------------------------------------------------------- JsonKeyStore
def save_shape(keys):
    _, body = _body(keys.JsonKeyStore.save)
    shape = []
    suffix = None
    dump = None
    if len(body) != 4:
        raise Unrecognised(f'JsonKeyStore.save: {len(body)} statements, the model was read from 4')
    if _norm(body[0]) != _stmt('''
        if not self.directory_name.exists():
            self.directory_name.mkdir(parents=True, exist_ok=True)
    '''):
        raise Unrecognised(f'JsonKeyStore.save: unrecognised first statement {ast.unparse(body[0])!r}')
    shape.append(0)
    a = body[1]
    if isinstance(a, ast.Assign) and isinstance(a.value, ast.Call):
        for n in ast.walk(a.value):
            if isinstance(n, ast.Constant) and isinstance(n.value, str):
                suffix = n.value
    if suffix is None or _norm(a) != _stmt(f'temp_filename = self.filename.with_name(self.filename.name + {suffix!r})'):
        raise Unrecognised(f'JsonKeyStore.save: the temporary file is not self.filename.with_name(self.filename.name + SUFFIX): '
                           f'{ast.unparse(a)!r}')
    w = body[2]
    if not (isinstance(w, ast.With) and len(w.items) == 1 and len(w.body) == 1
            and _norm(w.items[0]) == _norm(ast.parse("with open(temp_filename, 'w', encoding='utf-8') as output: pass").body[0].items[0])):
        raise Unrecognised(f"JsonKeyStore.save: not `with open(temp_filename, 'w', encoding='utf-8') as output:`: {ast.unparse(w)[:80]!r}")
    shape.append(11)
    d = w.body[0]
    if not (isinstance(d, ast.Expr) and isinstance(d.value, ast.Call)
            and _norm(d.value.func) == _norm(ast.parse('json.dump').body[0].value)
            and [_norm(x) for x in d.value.args] == [_norm(ast.parse('db').body[0].value), _norm(ast.parse('output').body[0].value)]):
        raise Unrecognised(f'JsonKeyStore.save: the with body is not json.dump(db, output, ...): {ast.unparse(d)!r}')
    kws = {'sort_keys': False, 'indent': None, 'ensure_ascii': True}
    for kw in d.value.keywords:
        if kw.arg not in kws or not isinstance(kw.value, ast.Constant):
            raise Unrecognised(f'JsonKeyStore.save: json.dump argument {ast.unparse(kw)!r} is not modelled')
        kws[kw.arg] = kw.value.value
    if not isinstance(kws['indent'], int) or isinstance(kws['indent'], bool):
        raise Unrecognised('JsonKeyStore.save: json.dump indent is not an integer (the model prints the indented form)')
    shape += [21, 31]
    if _norm(body[3]) != _stmt('os.replace(temp_filename, self.filename)'):
        raise Unrecognised(f'JsonKeyStore.save: last statement is not os.replace(temp_filename, self.filename): {ast.unparse(body[3])!r}')
    shape.append(42)
    # the directory that save creates is the directory of the file
    f, ibody = _body(keys.JsonKeyStore.__init__)
    found = False
    for st in ibody:
        if isinstance(st, ast.If) and _norm(st.test) == _norm(ast.parse('filename').body[0].value):
            if [_norm(x) for x in st.body] != _stmts('''
                self.filename = pathlib.Path(filename).resolve()
                self.directory_name = self.filename.parent
            '''):
                raise Unrecognised('JsonKeyStore.__init__: with a filename, directory_name is not filename.parent')
            found = True
    if not found:
        raise Unrecognised('JsonKeyStore.__init__: `if filename:` not found')
    return shape, suffix, (bool(kws['sort_keys']), kws['indent'], bool(kws['ensure_ascii']))


def load_shape(keys):
    _, body = _body(keys.JsonKeyStore.load)
    if _norm(body[0]) != _stmt('''
        try:
            with open(self.filename, encoding='utf-8') as json_file:
                db = json.load(json_file)
        except FileNotFoundError:
            db = {}
    '''):
        raise Unrecognised(f'JsonKeyStore.load: unrecognised read of the file: {ast.unparse(body[0])[:120]!r}')
    conds = {_norm(ast.parse('self.namespace in db').body[0].value): 1}
    rets = {_stmt('return (db, db[self.namespace])'): 1, _stmt('return (db, next(iter(db.values())))'): 2,
            _stmt('return (db, key_map)'): 3}
    out = []
    adopt = None
    rest = body[1:]
    i = 0
    while i < len(rest) and isinstance(rest[i], ast.If):
        st = rest[i]
        if st.orelse or len(st.body) != 1 or _norm(st.body[0]) not in rets:
            raise Unrecognised(f'JsonKeyStore.load: unrecognised branch {ast.unparse(st)!r}')
        c = conds.get(_norm(st.test))
        if c is None:
            t = st.test
            n = None
            for x in ast.walk(t):
                if isinstance(x, ast.Constant) and isinstance(x.value, int) and not isinstance(x.value, bool):
                    n = x.value
            want = ast.parse(f'self.namespace == self.DEFAULT_NAMESPACE and len(db) == {n}').body[0].value
            if n is None or _norm(t) != _norm(want):
                raise Unrecognised(f'JsonKeyStore.load: unrecognised condition {ast.unparse(t)!r}')
            c = 2
            adopt = n
        out.append((c, rets[_norm(st.body[0])]))
        i += 1
    tail = [_norm(s) for s in rest[i:]]
    if tail != _stmts('''
        key_map = {}
        db[self.namespace] = key_map
        return (db, key_map)
    '''):
        raise Unrecognised('JsonKeyStore.load: unrecognised final branch: ' + '; '.join(ast.unparse(s) for s in rest[i:]))
    out.append((0, 3))
    if adopt is None:
        raise Unrecognised('JsonKeyStore.load: the default-namespace adoption branch was not found')
    return out, adopt


OP_STATEMENTS = {
    'db, key_map = await self.load()': 1,
    '_, key_map = await self.load()': 1,
    'await self.save(db)': 2,
    'key_map.setdefault(name, {}).update(keys.to_dict())': 10,
    'del key_map[name]': 11,
    'key_map.clear()': 12,
    'if name not in key_map:\n    return None': 20,
    'return PairingKeys.from_dict(key_map[name])': 21,
    'return [(name, PairingKeys.from_dict(keys)) for (name, keys) in key_map.items()]': 22,
}


def ops_shape(keys):
    table = {_stmt(k): v for k, v in OP_STATEMENTS.items()}
    out = []
    for name in ('update', 'delete', 'delete_all', 'get', 'get_all'):
        fn = keys.JsonKeyStore.__dict__.get(name)
        if fn is None:
            raise Unrecognised(f'JsonKeyStore.{name} is not defined by the class')
        f, body = _body(fn)
        if not isinstance(f, ast.AsyncFunctionDef):
            raise Unrecognised(f'JsonKeyStore.{name} is not a coroutine function')
        codes = []
        for st in body:
            c = table.get(_norm(st))
            if c is None:
                raise Unrecognised(f'JsonKeyStore.{name}: unrecognised statement {ast.unparse(st)!r}')
            codes.append(c)
        mutates = name in ('update', 'delete', 'delete_all')
        if mutates and ast.unparse(body[0]).startswith('_'):
            raise Unrecognised(f'JsonKeyStore.{name}: a mutator must keep the db that load returns')
        out.append((name, codes))
    return out


def others(keys):
    _same(keys.KeyStore.get_resolving_keys, '''
        all_keys = await self.get_all()
        resolving_keys = []
        for name, keys in all_keys:
            if keys.irk is not None:
                resolving_keys.append(
                    (
                        keys.irk.value,
                        hci.Address(
                            name,
                            (
                                keys.address_type
                                if keys.address_type is not None
                                else hci.Address.RANDOM_DEVICE_ADDRESS
                            ),
                        ),
                    )
                )
        return resolving_keys
    ''', 'KeyStore.get_resolving_keys')
    if 'get_resolving_keys' in keys.JsonKeyStore.__dict__:
        raise Unrecognised('JsonKeyStore overrides get_resolving_keys')
    _same(keys.JsonKeyStore.from_device.__func__, '''
        if not filename:
            if device.config.keystore is not None:
                params = device.config.keystore.split(':', 1)[1:]
                if params:
                    filename = params[0]
        if device.public_address not in (hci.Address.ANY, hci.Address.ANY_RANDOM):
            namespace = str(device.public_address)
        elif device.random_address != hci.Address.ANY_RANDOM:
            namespace = str(device.random_address)
        else:
            namespace = JsonKeyStore.DEFAULT_NAMESPACE
        return cls(namespace, filename)
    ''', 'JsonKeyStore.from_device')
    from bumble import hci
    return int(hci.Address.RANDOM_DEVICE_ADDRESS)


# ----------------------------------------------------------------------------- Coq text
def _cstr(s):
    return '[' + '; '.join(str(ord(c)) for c in s) + ']'


def _cbool(b):
    return 'true' if b else 'false'


def _clist(xs, f):
    return '[' + '; '.join(f(x) for x in xs) + ']'


def generate():
    from bumble import keys
    pk = pairingkeys_fields(keys)
    td = to_dict_fields(keys)
    fd = from_dict_fields(keys)
    for attr, name, _ in td:
        if attr != name:
            raise Unrecognised(f'PairingKeys.to_dict: member {name!r} holds attribute {attr!r}')
    for kwarg, name, _ in fd:
        if kwarg != name:
            raise Unrecognised(f'PairingKeys.from_dict: field {kwarg!r} is read from member {name!r}')
    kf = key_fields(keys)
    ktd = key_to_dict_fields(keys)
    kdef = key_from_dict_default(keys)
    shape, suffix, dump = save_shape(keys)
    load, adopt = load_shape(keys)
    ops = ops_shape(keys)
    rda = others(keys)
    pair = lambda p: f'({_cstr(p[0])}, {p[1]})'
    lines = [
        '(* GENERATED by tools/translate/c15_source.py from bumble/keys.py on every run; do not edit. *)',
        'From Coq Require Import ZArith List Bool.',
        'Import ListNotations.',
        'Open Scope Z_scope.',
        '',
        '(* dataclasses.fields(PairingKeys): (name, 1 if the field is a PairingKeys.Key) *)',
        f'Definition src_pairingkeys_fields : list (list Z * Z) := {_clist(pk, pair)}.',
        '(* members written by PairingKeys.to_dict, each under `if self.F is not None` *)',
        f'Definition src_to_dict_fields : list (list Z * Z) := {_clist([(n, k) for _, n, k in td], pair)}.',
        '(* members read by PairingKeys.from_dict *)',
        f'Definition src_from_dict_fields : list (list Z * Z) := {_clist([(n, k) for _, n, k in fd], pair)}.',
        '(* dataclasses.fields(PairingKeys.Key) *)',
        f'Definition src_key_fields : list (list Z) := {_clist(kf, _cstr)}.',
        '(* members written by PairingKeys.Key.to_dict: (name, (always written, .hex())) *)',
        'Definition src_key_to_dict_fields : list (list Z * (bool * bool)) := '
        + _clist(ktd, lambda t: f'({_cstr(t[0])}, ({_cbool(t[1])}, {_cbool(t[2])}))') + '.',
        "(* default of key_dict.get('authenticated', ...) in PairingKeys.Key.from_dict *)",
        f'Definition src_key_auth_default : bool := {_cbool(kdef)}.',
        '(* JsonKeyStore.save: guarded mkdir, open tmp, json.dump, end of with, os.replace(tmp, file) *)',
        f'Definition src_save_shape : list Z := {_clist(shape, str)}.',
        f'Definition src_tmp_suffix : list Z := {_cstr(suffix)}.',
        '(* json.dump arguments: (sort_keys, indent, ensure_ascii) *)',
        f'Definition src_dump_args : bool * Z * bool := ({_cbool(dump[0])}, {dump[1]}, {_cbool(dump[2])}).',
        '(* JsonKeyStore.load: (condition, result) per return *)',
        f'Definition src_load : list (Z * Z) := {_clist(load, lambda p: f"({p[0]}, {p[1]})")}.',
        f'Definition src_adopt_count : Z := {adopt}.',
        f'Definition src_default_namespace : list Z := {_cstr(keys.JsonKeyStore.DEFAULT_NAMESPACE)}.',
        '(* statements of the operations *)',
        'Definition src_ops : list (list Z * list Z) := '
        + _clist(ops, lambda p: f'({_cstr(p[0])}, {_clist(p[1], str)})') + '.',
        f'Definition src_random_device_address : Z := {rda}.',
        '',
    ]
    return '\n'.join(lines)
