"""C16 presence translator: which attributes of the teardown-relevant classes are
dictionaries keyed by a connection handle / a Connection / an ATT bearer, and does the class's
disconnection hook remove them?  Source -> coq/Gen/C16Cleanup.v.  Fail closed.

The recogniser is deliberately simple and explicit:

* it parses the module with `ast` (the working tree under $BUMBLE_REPO), finds the class, and
  collects every *container attribute*: `self.X = {}` / `dict(...)` / `defaultdict(...)` /
  `collections.defaultdict(...)` / `collections.deque(...)` / a dict literal or comprehension
  assigned in `__init__`, and class-level annotations `X: dict[...]` / `defaultdict[...]`;
* every container attribute must be classified: either it is in REGISTRIES below (connection
  keyed, with its key kind and the hook methods that must remove it), or in NOT_CONNECTION_KEYED
  (documented reason).  An attribute in neither list is an unrecognised shape -> exception;
* for a registry, "removed" means that one of the named hook methods of the class contains
  `self.X.pop(...)`, `del self.X[...]`, `self.X.clear()`, `self.X = ...`, or (for the packet
  deque) rebuilds it; found anywhere in the method body (any branch).  A registry whose hooks no
  longer remove it is emitted with `false`, which makes the Coq obligation
  `cleanup_obligation model_registries found_registries = true` fail.
* a class or hook method that disappeared is a translation failure.
"""
import ast
import os

# (module, class) -> {attr: (key kind, [hook methods])}
REGISTRIES = {
    ('controller', 'Controller'): {
        'le_connections': ('KAddress', ['on_le_disconnected', 'on_hci_disconnect_command']),
        'classic_connections': ('KAddress', ['on_classic_disconnected', 'on_hci_disconnect_command']),
    },
    ('host', 'Host'): {
        'connections': ('KHandle', ['on_hci_disconnection_complete_event']),
        'cis_links': ('KHandle', ['on_hci_disconnection_complete_event']),
        'sco_links': ('KHandle', ['on_hci_disconnection_complete_event']),
        'link_ts_flags': ('KHandle', ['on_hci_disconnection_complete_event']),
    },
    ('host', 'DataPacketQueue'): {
        '_connection_state': ('KHandle', ['flush']),
        '_drained_per_connection': ('KHandle', []),     # see UNUSED below
        '_packets': ('KHandle', ['flush']),
    },
    ('device', 'Device'): {
        'connections': ('KHandle', ['on_disconnection']),
        'sco_links': ('KHandle', ['on_disconnection']),
        'cis_links': ('KHandle', ['on_disconnection']),
    },
    ('gatt_server', 'Server'): {
        'subscribers': ('KBearer', ['on_disconnection']),
        'indication_semaphores': ('KBearer', ['on_disconnection']),
        'pending_confirmations': ('KBearer', ['on_disconnection']),
    },
    ('smp', 'Manager'): {
        'sessions': ('KHandle', ['on_session_end']),
    },
    ('l2cap', 'ChannelManager'): {
        'identifiers': ('KHandle', ['on_disconnection']),
        'channels': ('KHandle', ['on_disconnection']),
        'le_coc_channels': ('KHandle', ['on_disconnection']),
        'pending_credit_based_connections': ('KHandle', ['on_disconnection']),
        'le_coc_requests': ('KHandle', ['on_disconnection']),
    },
}

# a registry that is declared but never written anywhere in its class: it cannot hold anything,
# so "removed" holds vacuously; the translator checks that it is still never written
UNUSED = {('host', 'DataPacketQueue', '_drained_per_connection')}

# the host must call these so that the queue hook is part of the fan-out
HOST_FLUSH_CALLS = ('host', 'Host', 'on_hci_disconnection_complete_event', 'flush')

# container attributes that are NOT keyed by a connection (allow-list, with the reason)
NOT_CONNECTION_KEYED = {
    ('controller', 'Controller'): {
        'sco_links': 'SCO links by peer address: out of scope of C16 (no ACL teardown state), see docs',
        'classic_pending_commands': 'pending LMP exchanges by peer address, not by connection',
        'central_cis_links': 'CIS links by CIS handle (ISO, not modelled)',
        'peripheral_cis_links': 'CIS links by CIS handle (ISO, not modelled)',
        'advertising_sets': 'by advertising handle',
        'default_phy': 'PHY preferences by name',
    },
    ('host', 'Host'): {
        'hci_metadata': 'transport metadata',
        'bis_links': 'broadcast ISO streams, not connections',
        'bigs': 'broadcast groups',
    },
    ('host', 'DataPacketQueue'): {},
    ('device', 'Device'): {
        'advertisement_accumulators': 'by advertiser address',
        'pending_connections': 'outgoing BR/EDR connections that are not established yet, by address',
        '_pending_cis': 'CIS being set up, by CIS handle',
        'bigs': 'broadcast groups', 'bis_links': 'broadcast streams', 'big_syncs': 'broadcast syncs',
        'classic_pending_accepts': 'accept() futures by peer address (before a connection exists)',
        'extended_advertising_sets': 'by advertising handle',
        'connecting_extended_advertising_sets':
            'advertising set waiting for its LE Connection Complete, by handle; consumed by on_le_connection',
    },
    ('gatt_server', 'Server'): {
        'attributes_by_handle': 'by ATT attribute handle',
    },
    ('smp', 'Manager'): {},
    ('l2cap', 'ChannelManager'): {
        'fixed_channels': 'handlers by CID',
        'servers': 'by PSM', 'le_coc_servers': 'by PSM',
    },
}

CONTAINER_CALLS = {'dict', 'defaultdict', 'deque', 'OrderedDict'}
CONTAINER_ANNOTATIONS = {'dict', 'Dict', 'defaultdict', 'DefaultDict', 'deque', 'OrderedDict'}


class TranslationError(Exception):
    pass


def _is_container_value(node):
    if isinstance(node, (ast.Dict, ast.DictComp)):
        return True
    if isinstance(node, ast.Call):
        f = node.func
        name = f.id if isinstance(f, ast.Name) else f.attr if isinstance(f, ast.Attribute) else None
        return name in CONTAINER_CALLS
    return False


def _annotation_head(node):
    if isinstance(node, ast.Subscript):
        node = node.value
    if isinstance(node, ast.Attribute):
        return node.attr
    if isinstance(node, ast.Name):
        return node.id
    if isinstance(node, ast.Constant) and isinstance(node.value, str):
        return node.value.split('[')[0].split('.')[-1]
    return None


def _self_attr(node):
    """'X' when node is `self.X`"""
    if isinstance(node, ast.Attribute) and isinstance(node.value, ast.Name) and node.value.id == 'self':
        return node.attr
    return None


def container_attributes(cls):
    found = {}
    for item in cls.body:
        if isinstance(item, ast.AnnAssign) and isinstance(item.target, ast.Name):
            if _annotation_head(item.annotation) in CONTAINER_ANNOTATIONS:
                found[item.target.id] = 'annotation'
        if isinstance(item, ast.FunctionDef) and item.name == '__init__':
            for node in ast.walk(item):
                targets = []
                if isinstance(node, ast.Assign):
                    targets, value = node.targets, node.value
                elif isinstance(node, ast.AnnAssign) and node.value is not None:
                    targets, value = [node.target], node.value
                    if _self_attr(node.target) and _annotation_head(node.annotation) in CONTAINER_ANNOTATIONS:
                        found[_self_attr(node.target)] = 'init'
                for t in targets:
                    a = _self_attr(t)
                    if a and _is_container_value(value):
                        found[a] = 'init'
    return found


def removes(func, attr):
    """does the method body remove entries of self.<attr> somewhere?"""
    for node in ast.walk(func):
        if isinstance(node, ast.Call) and isinstance(node.func, ast.Attribute) \
                and node.func.attr in ('pop', 'clear', 'popitem') and _self_attr(node.func.value) == attr:
            return True
        if isinstance(node, ast.Delete):
            for t in node.targets:
                if isinstance(t, ast.Subscript) and _self_attr(t.value) == attr:
                    return True
        if isinstance(node, (ast.Assign, ast.AugAssign)):
            targets = node.targets if isinstance(node, ast.Assign) else [node.target]
            if any(_self_attr(t) == attr for t in targets):
                return True
    return False


def writes(cls, attr):
    """is self.<attr> ever subscripted / mutated outside __init__ (used for UNUSED registries)?"""
    for item in cls.body:
        if isinstance(item, (ast.FunctionDef, ast.AsyncFunctionDef)) and item.name != '__init__':
            for node in ast.walk(item):
                if _self_attr(node) == attr:
                    return True
    return False


def calls_method(func, name):
    for node in ast.walk(func):
        if isinstance(node, ast.Call) and isinstance(node.func, ast.Attribute) and node.func.attr == name:
            return True
    return False


def scan(repo):
    """-> list of (registry name, key kind, removed: bool), sorted"""
    out = []
    trees = {}
    for (module, clsname), regs in sorted(REGISTRIES.items()):
        path = os.path.join(repo, 'bumble', module + '.py')
        if module not in trees:
            with open(path) as f:
                trees[module] = ast.parse(f.read(), path)
        cls = next((n for n in trees[module].body if isinstance(n, ast.ClassDef) and n.name == clsname), None)
        if cls is None:
            raise TranslationError(f'class {module}.{clsname} not found')
        methods = {n.name: n for n in cls.body if isinstance(n, (ast.FunctionDef, ast.AsyncFunctionDef))}
        attrs = container_attributes(cls)
        allowed = NOT_CONNECTION_KEYED.get((module, clsname), {})
        for a in sorted(attrs):
            if a not in regs and a not in allowed:
                raise TranslationError(
                    f'{module}.{clsname}.{a}: container attribute that is neither a known connection-keyed '
                    f'registry nor on the allow-list of non-connection containers; classify it in '
                    f'tools/translate/c16_registries.py (and give it a cleanup in Model/Teardown.v)')
        for a, (kind, hooks) in sorted(regs.items()):
            if a not in attrs:
                raise TranslationError(f'{module}.{clsname}.{a}: registry not found as a container attribute')
            if (module, clsname, a) in UNUSED:
                removed = not writes(cls, a)
            else:
                for hname in hooks:
                    if hname not in methods:
                        raise TranslationError(f'{module}.{clsname}.{hname}: disconnection hook not found')
                # every hook named for the registry must remove it (each one is a separate path
                # on which the connection goes away)
                removed = all(removes(methods[hname], a) for hname in hooks)
            out.append((f'{module}.{clsname}.{a}', kind, removed))
    # the queue hook is reached from the host's fan-out
    module, clsname, meth, callee = HOST_FLUSH_CALLS
    cls = next(n for n in trees[module].body if isinstance(n, ast.ClassDef) and n.name == clsname)
    func = next(n for n in cls.body if isinstance(n, ast.FunctionDef) and n.name == meth)
    if not calls_method(func, callee):
        out = [(n, k, r and not n.startswith('host.DataPacketQueue.')) for n, k, r in out]
    return out


def unclassified(repo):
    """container attributes the recogniser cannot classify (used by the harness's directed
    search to watch them generically)"""
    out = []
    for (module, clsname), regs in sorted(REGISTRIES.items()):
        path = os.path.join(repo, 'bumble', module + '.py')
        with open(path) as f:
            tree = ast.parse(f.read(), path)
        cls = next((n for n in tree.body if isinstance(n, ast.ClassDef) and n.name == clsname), None)
        if cls is None:
            continue
        allowed = NOT_CONNECTION_KEYED.get((module, clsname), {})
        for a in sorted(container_attributes(cls)):
            if a not in regs and a not in allowed:
                out.append((module, clsname, a))
    return out


def removers():
    """(registry, "module.Class.method") for every hook that must remove the registry"""
    out = []
    for (module, clsname), regs in sorted(REGISTRIES.items()):
        for a, (kind, hooks) in sorted(regs.items()):
            for hname in hooks:
                out.append((f'{module}.{clsname}.{a}', f'{module}.{clsname}.{hname}'))
    return out


def render(found):
    lines = [
        '(* GENERATED by tools/translate/c16_registries.py from the bumble sources on every run of',
        '   ./check C16.  Do not edit.  (registry, key kind, removed by its disconnection hook) *)',
        'From Coq Require Import List String.',
        'From BV Require Import Model.Teardown.',
        'Import ListNotations.',
        'Open Scope string_scope.',
        '',
        'Definition found_registries : list found := [',
    ]
    rows = [f'  ("{n}", {k}, {"true" if r else "false"})' for n, k, r in found]
    lines.append(';\n'.join(rows))
    lines.append('].')
    lines.append('')
    lines.append('(* (registry, the method whose body removes its entries when the connection goes away) *)')
    lines.append('Definition found_removers : list (string * string) := [')
    lines.append(';\n'.join(f'  ("{r}", "{m}")' for r, m in removers()))
    lines.append('].')
    return '\n'.join(lines) + '\n'


# ============================================================================= shapes
# The teardown-relevant functions, reduced to the ordered list of the effects the model is
# about (which table is popped, which event is emitted, which future is cancelled, which
# listener is registered, which sub-hook is called), each prefixed by the control structure
# it sits in (with the text of every `if` test).  Regenerated on every run; the Coq side
# (Model/Teardown.v expected_shapes) must be equal, and the fan-out order of the model is
# DERIVED from these lists (derive_chain).
SHAPE_FUNCTIONS = [
    ('host', 'Host', 'on_hci_disconnection_complete_event'),
    ('host', 'Host', 'on_transport_lost'),
    ('host', 'Host', '_send_command'),            # the HCI command gate: acquired, released on every exit path
    ('host', 'DataPacketQueue', 'flush'),
    ('device', 'Device', 'host'),                 # the setter: order in which listeners are registered
    ('device', 'Device', 'on_disconnection'),
    ('device', 'Device', 'on_flush'),
    ('device', 'Device', 'disconnect'),
    ('l2cap', 'ChannelManager', 'on_disconnection'),
    ('gatt_server', 'Server', 'on_disconnection'),
    ('gatt_server', 'Server', 'register_eatt'),
    ('gatt_client', 'Client', '__init__'),
    ('gatt_client', 'Client', 'on_disconnection'),
    ('smp', 'Session', '__init__'),               # which listeners a session registers on the connection
    ('smp', 'Session', 'on_pairing_failure'),     # ... and that a failed session does not remove them early
    ('smp', 'Session', 'on_disconnection'),
    ('smp', 'Manager', 'on_session_end'),
    ('sdp', 'Client', 'on_channel_close'),
    ('rfcomm', 'Multiplexer', 'on_l2cap_channel_close'),
    ('utils', None, 'cancel_on_event'),
]

EFFECT_METHODS = {
    'emit', 'pop', 'clear', 'popitem', 'flush', 'abort', 'cancel', 'set_result', 'set_exception', 'on', 'once',
    'remove_listener', 'on_disconnection', 'on_session_end', 'on_hci_disconnection_complete_event',
    'add_done_callback', 'set', '_check_queue', 'acquire', 'release',
}


def _txt(node):
    return ' '.join(ast.unparse(node).split())


def _effects_of_expr(node, path, out):
    for sub in ast.walk(node):
        if isinstance(sub, ast.Call) and isinstance(sub.func, ast.Attribute) and sub.func.attr in EFFECT_METHODS:
            recv = _txt(sub.func.value)
            arg = ''
            if sub.args:
                a = sub.args[0]
                if isinstance(a, ast.Constant) and isinstance(a.value, str):
                    arg = repr(a.value)
                elif isinstance(a, (ast.Attribute, ast.Name)):
                    arg = _txt(a)
            out.append(f'{path}{recv}.{sub.func.attr}({arg})')
        elif isinstance(sub, (ast.Lambda,)):
            pass


def _shape_stmts(stmts, path, out):
    for st in stmts:
        if isinstance(st, (ast.FunctionDef, ast.AsyncFunctionDef)):
            _shape_stmts(st.body, f'{path}def {st.name}>', out)
        elif isinstance(st, ast.If):
            out.append(f'{path}if[{_txt(st.test)}]')
            _effects_of_expr(st.test, path + 'test>', out)
            _shape_stmts(st.body, path + 'then>', out)
            if st.orelse:
                _shape_stmts(st.orelse, path + 'else>', out)
        elif isinstance(st, (ast.For, ast.AsyncFor)):
            out.append(f'{path}for[{_txt(st.target)} in {_txt(st.iter)}]')
            _effects_of_expr(st.iter, path + 'iter>', out)
            _shape_stmts(st.body, path + 'for>', out)
        elif isinstance(st, ast.While):
            out.append(f'{path}while[{_txt(st.test)}]')
            _shape_stmts(st.body, path + 'while>', out)
        elif isinstance(st, ast.Try):
            _shape_stmts(st.body, path + 'try>', out)
            for hd in st.handlers:
                cls = _txt(hd.type) if hd.type is not None else ''
                out.append(f'{path}except[{cls}]')
                _shape_stmts(hd.body, f'{path}except[{cls}]>', out)
            _shape_stmts(st.finalbody, path + 'finally>', out)
        elif isinstance(st, (ast.With, ast.AsyncWith)):
            for item in st.items:
                _effects_of_expr(item.context_expr, path, out)
            _shape_stmts(st.body, path, out)
        elif isinstance(st, ast.Delete):
            for t in st.targets:
                out.append(f'{path}del {_txt(t)}')
        elif isinstance(st, ast.Return):
            if st.value is not None:
                _effects_of_expr(st.value, path, out)
            out.append(f'{path}return')
        elif isinstance(st, ast.Raise):
            out.append(f'{path}raise')
        elif isinstance(st, (ast.Assign, ast.AnnAssign, ast.AugAssign)):
            value = st.value
            if value is not None:
                _effects_of_expr(value, path, out)
            targets = st.targets if isinstance(st, ast.Assign) else [st.target]
            for t in targets:
                if isinstance(t, ast.Attribute):
                    out.append(f'{path}set {_txt(t)}')
        elif isinstance(st, ast.Expr):
            if isinstance(st.value, ast.Constant):
                continue        # docstring
            _effects_of_expr(st.value, path, out)
        else:
            _effects_of_expr(st, path, out)


def shapes(repo):
    out = []
    trees = {}
    for module, clsname, fname in SHAPE_FUNCTIONS:
        if module not in trees:
            path = os.path.join(repo, 'bumble', module + '.py')
            with open(path) as f:
                trees[module] = ast.parse(f.read(), path)
        body = trees[module].body
        if clsname is not None:
            cls = next((n for n in body if isinstance(n, ast.ClassDef) and n.name == clsname), None)
            if cls is None:
                raise TranslationError(f'class {module}.{clsname} not found')
            body = cls.body
        funcs = [n for n in body if isinstance(n, (ast.FunctionDef, ast.AsyncFunctionDef)) and n.name == fname]
        if fname == 'host':   # property + setter: take the setter
            funcs = [n for n in funcs if any(isinstance(d, ast.Attribute) and d.attr == 'setter'
                                             for d in n.decorator_list)]
        if len(funcs) != 1:
            raise TranslationError(f'{module}.{clsname}.{fname}: expected exactly one definition, found {len(funcs)}')
        toks = []
        _shape_stmts(funcs[0].body, '', toks)
        if fname == '__init__':
            # of a constructor only the listener registrations matter (and the branch they sit in)
            toks = [t for t in toks if '.on(' in t or '.once(' in t]
        name = f'{module}.{clsname}.{fname}' if clsname else f'{module}.{fname}'
        out.append((name, toks))
    return out


def _coq_str(s):
    if any(ord(c) > 126 or ord(c) < 32 for c in s):
        raise TranslationError(f'non-ASCII text in a shape token: {s!r}')
    return '"' + s.replace('"', '""') + '"'


def render_shapes(sh):
    lines = [
        '(* GENERATED by tools/translate/c16_registries.py (shapes) on every run of ./check C16. Do not edit. *)',
        'From Coq Require Import List String.',
        'Import ListNotations.',
        'Open Scope string_scope.',
        '',
        'Definition source_shapes : list (string * list string) := [',
    ]
    rows = []
    for name, toks in sh:
        body = ';\n     '.join(_coq_str(t) for t in toks)
        rows.append(f'  ({_coq_str(name)},\n    [{body}])')
    lines.append(';\n'.join(rows))
    lines.append('].')
    return '\n'.join(lines) + '\n'
