"""C18 translator: the SHAPE of the hand-modelled bit-field codecs, read from the source AST
-> coq/Gen/C18Shapes.v   (fail closed)

For every listed parse / serialise function the expressions that compute each field (or each
output octet) are normalised to a disjunction of terms

    ((source >> shr) & mask) << shl          source = data[i] | a field / local | a constant

and emitted as Coq tuples (kind, index, shr, mask, shl) with kind 0 = constant (index = value),
1 = input octet data[index], 2 = field number index (position in the function's field list);
mask = -1 means "no mask".  Model/CodecsShapes.v holds the layouts the models were written from and
an interpreter; Proofs/CodecsShapes.v proves that the model functions ARE that interpreter on
those layouts (complete evaluation of the octet domains), and Props/C18.v checks on every run that
the layouts extracted here equal them (`C18_*_matches_source`).  An edit that changes a shift, a
mask, an octet index, the order of the disjuncts' operands, a threshold or a stride changes the
generated file and breaks the obligation whether or not a generated input exercises it; anything
the normaliser does not recognise aborts the translation.
"""
from __future__ import annotations

import ast
import inspect
import textwrap


class ShapeError(Exception):
    pass


def _fn_ast(fn):
    src = textwrap.dedent(inspect.getsource(fn))
    tree = ast.parse(src)
    node = tree.body[0]
    if not isinstance(node, (ast.FunctionDef, ast.AsyncFunctionDef)):
        raise ShapeError(f'{fn.__qualname__}: not a function definition')
    return node


class Norm:
    """normaliser of one function's expressions"""

    def __init__(self, where, data_name, fields, consts, locals_ok=()):
        self.where = where
        self.data_name = data_name
        self.fields = list(fields)
        self.consts = dict(consts)
        self.locals_ok = set(locals_ok)

    def fail(self, node, why):
        raise ShapeError(f'{self.where}: {why}: {ast.unparse(node)}')

    def const(self, node):
        if isinstance(node, ast.Constant) and isinstance(node.value, int) and not isinstance(node.value, bool):
            return node.value
        return None

    def terms(self, node):
        """-> list of [kind, index, shr, mask, shl]"""
        if isinstance(node, ast.BinOp) and isinstance(node.op, ast.BitOr):
            return self.terms(node.left) + self.terms(node.right)
        if isinstance(node, ast.Call) and len(node.args) == 1 and not node.keywords:
            return self.terms(node.args[0])          # an enum / flag class around the expression
        return [self.term(node)]

    def term(self, node):
        if isinstance(node, ast.BinOp) and isinstance(node.op, ast.LShift):
            k = self.const(node.right)
            if k is None:
                self.fail(node, 'shift by a non-constant')
            t = self.term(node.left)
            if t[4] != 0:
                self.fail(node, 'nested left shifts')
            t[4] = k
            return t
        if isinstance(node, ast.BinOp) and isinstance(node.op, ast.BitAnd):
            m = self.const(node.right)
            if m is None:
                self.fail(node, 'mask is not a constant on the right')
            t = self.term(node.left)
            if t[4] != 0 or t[3] != -1:
                self.fail(node, 'mask applied after a left shift or a second mask')
            t[3] = m
            return t
        if isinstance(node, ast.BinOp) and isinstance(node.op, ast.RShift):
            k = self.const(node.right)
            if k is None:
                self.fail(node, 'shift by a non-constant')
            t = self.term(node.left)
            if t[4] != 0 or t[3] != -1 or t[2] != 0:
                self.fail(node, 'right shift after another operator')
            t[2] = k
            return t
        c = self.const(node)
        if c is not None:
            return [0, c, 0, -1, 0]
        if isinstance(node, ast.Subscript) and isinstance(node.value, ast.Name) and node.value.id == self.data_name:
            i = self.const(node.slice)
            if i is None or i < 0:
                self.fail(node, 'octet index is not a non-negative constant')
            return [1, i, 0, -1, 0]
        name = None
        if isinstance(node, ast.Attribute) and isinstance(node.value, ast.Name):
            name = node.attr          # self.x, message.x
        elif isinstance(node, ast.Name):
            name = node.id
        if name is not None:
            if name in self.consts:
                return [0, int(self.consts[name]), 0, -1, 0]
            if name in self.fields:
                return [2, self.fields.index(name), 0, -1, 0]
            self.fail(node, f'unknown name {name}')
        # a single-argument constructor call around the expression (enum classes, bool)
        if isinstance(node, ast.Call) and len(node.args) == 1 and not node.keywords:
            return self.term(node.args[0])
        self.fail(node, 'expression form not recognised')


def _return_call_kwargs(fn_node, where):
    rets = [n for n in ast.walk(fn_node) if isinstance(n, ast.Return)]
    if len(rets) != 1 or not isinstance(rets[0].value, ast.Call):
        raise ShapeError(f'{where}: expected exactly one `return <Class>(...)`')
    call = rets[0].value
    if call.args:
        raise ShapeError(f'{where}: positional arguments in the returned constructor call')
    return {k.arg: k.value for k in call.keywords}


def _bytes_list(fn_node, where):
    """the elements of the single `bytes([...])` the function returns"""
    rets = [n for n in ast.walk(fn_node) if isinstance(n, ast.Return)]
    if len(rets) != 1:
        raise ShapeError(f'{where}: expected exactly one return')
    v = rets[0].value
    if not (isinstance(v, ast.Call) and isinstance(v.func, ast.Name) and v.func.id == 'bytes' and len(v.args) == 1
            and isinstance(v.args[0], ast.List)):
        raise ShapeError(f'{where}: expected `return bytes([...])`')
    return v.args[0].elts


def _assignments(fn_node, where, names):
    """{name: value expr} for simple `name = expr` / `self.name = expr` statements (first occurrence, top level or nested)"""
    out = {}
    for n in ast.walk(fn_node):
        if isinstance(n, ast.Assign) and len(n.targets) == 1:
            t = n.targets[0]
            key = t.id if isinstance(t, ast.Name) else (t.attr if isinstance(t, ast.Attribute) and isinstance(t.value, ast.Name) and t.value.id == 'self' else None)
            if key in names and key not in out:
                out[key] = n.value
    missing = [k for k in names if k not in out]
    if missing:
        raise ShapeError(f'{where}: no assignment to {missing}')
    return out


def _coq_terms(ts):
    return '[' + '; '.join('(' + ', '.join(str(x) if x >= 0 else f'({x})' for x in t) + ')' for t in ts) + ']'


def _coq_shape(name, rows):
    return f'Definition {name} : list (list (Z * Z * Z * Z * Z)) :=\n  [' + ';\n   '.join(_coq_terms(r) for r in rows) + '].\n'


def generate() -> str:
    from bumble import l2cap, rfcomm, avdtp, avctp, rtp
    out = ['(* GENERATED by tools/translate/c18_shapes.py from the source AST of bumble/{l2cap,rfcomm,avdtp,avctp,rtp}.py - do not edit *)',
           'From Coq Require Import ZArith List.', 'Import ListNotations.', 'Open Scope Z_scope.', '']

    def parse_shape(name, fn, fields, data='data', consts=None):
        node = _fn_ast(fn)
        kw = _return_call_kwargs(node, fn.__qualname__)
        if sorted(kw) != sorted(fields):
            raise ShapeError(f'{fn.__qualname__}: constructor keywords {sorted(kw)} differ from the modelled fields {sorted(fields)}')
        nz = Norm(fn.__qualname__, data, [], consts or {})
        out.append(_coq_shape(name, [nz.terms(kw[f]) for f in fields]))

    def ser_shape(name, fn, fields, consts=None, n_octets=None, outer_mask=False):
        node = _fn_ast(fn)
        elts = _bytes_list(node, fn.__qualname__)
        if n_octets is not None and len(elts) != n_octets:
            raise ShapeError(f'{fn.__qualname__}: {len(elts)} octets instead of {n_octets}')
        nz = Norm(fn.__qualname__, '<none>', fields, consts or {})
        if outer_mask:
            # every octet is written as `<expr> & <const>`: the outermost mask is recorded per octet
            masks = []
            inner = []
            for e in elts:
                if not (isinstance(e, ast.BinOp) and isinstance(e.op, ast.BitAnd) and nz.const(e.right) is not None):
                    raise ShapeError(f'{fn.__qualname__}: octet without an outer mask: {ast.unparse(e)}')
                masks.append(nz.const(e.right))
                inner.append(e.left)
            elts = inner
            out.append(f'Definition {name}_outer : list Z := [' + '; '.join(map(str, masks)) + '].')
        out.append(_coq_shape(name, [nz.terms(e) for e in elts]))

    def assign_shape(name, fn, targets, data, fields=(), consts=None):
        node = _fn_ast(fn)
        asg = _assignments(node, fn.__qualname__, targets)
        nz = Norm(fn.__qualname__, data, list(fields), consts or {})
        out.append(_coq_shape(name, [nz.terms(asg[t]) for t in targets]))

    I, S = l2cap.InformationEnhancedControlField, l2cap.SupervisoryEnhancedControlField
    parse_shape('ertm_i_parse_src', I.from_bytes.__func__, ['tx_seq', 'sar', 'req_seq', 'final'])
    ser_shape('ertm_i_ser_src', I.__bytes__, ['tx_seq', 'sar', 'req_seq', 'final'], {'frame_type': int(I.frame_type)}, 2)
    parse_shape('ertm_s_parse_src', S.from_bytes.__func__, ['supervision_function', 'poll', 'req_seq', 'final'])
    ser_shape('ertm_s_ser_src', S.__bytes__, ['supervision_function', 'poll', 'req_seq', 'final'], {'frame_type': int(S.frame_type)}, 2)

    MSC, PN = rfcomm.RFCOMM_MCC_MSC, rfcomm.RFCOMM_MCC_PN
    parse_shape('msc_parse_src', MSC.from_bytes, ['dlci', 'fc', 'rtc', 'rtr', 'ic', 'dv'])
    ser_shape('msc_ser_src', MSC.__bytes__, ['dlci', 'fc', 'rtc', 'rtr', 'ic', 'dv'], None, 2)
    pn_fields = ['dlci', 'cl', 'priority', 'ack_timer', 'max_frame_size', 'max_retransmissions', 'initial_credits']
    parse_shape('pn_parse_src', PN.from_bytes, pn_fields)
    ser_shape('pn_ser_src', PN.__bytes__, pn_fields, None, 8)
    F = rfcomm.RFCOMM_Frame
    assign_shape('rfcomm_header_parse_src', F.from_bytes, ['dlci', 'c_r', 'frame_type', 'p_f'], 'data')
    assign_shape('rfcomm_header_ser_src', F.__init__, ['address', 'control'], '<none>', ['dlci', 'c_r', 'frame_type', 'p_f'])
    # the length indicator: threshold and the two forms
    node = _fn_ast(F.__init__)
    ifs = [n for n in ast.walk(node) if isinstance(n, ast.If) and isinstance(n.test, ast.Compare)
           and isinstance(n.test.left, ast.Name) and n.test.left.id == 'length']
    if len(ifs) != 1 or len(ifs[0].test.ops) != 1 or not isinstance(ifs[0].test.ops[0], ast.Gt):
        raise ShapeError('RFCOMM_Frame.__init__: expected exactly one `if length > <const>`')
    thr = ifs[0].test.comparators[0]
    if not (isinstance(thr, ast.Constant) and isinstance(thr.value, int)):
        raise ShapeError('RFCOMM_Frame.__init__: length threshold is not a constant')

    def branch_bytes(stmts, which):
        for st in stmts:
            if isinstance(st, ast.Assign) and isinstance(st.value, ast.Call) and getattr(st.value.func, 'id', None) == 'bytes' \
                    and isinstance(st.value.args[0], ast.List):
                return st.value.args[0].elts
        raise ShapeError(f'RFCOMM_Frame.__init__: no bytes([...]) in the {which} branch')
    nz = Norm('RFCOMM_Frame.__init__', '<none>', ['length'], {})
    out.append(f'Definition rfcomm_length_threshold_src : Z := {thr.value}.')
    out.append(_coq_shape('rfcomm_length2_src', [nz.terms(e) for e in branch_bytes(ifs[0].body, 'two-octet')]))
    out.append(_coq_shape('rfcomm_length1_src', [nz.terms(e) for e in branch_bytes(ifs[0].orelse, 'one-octet')]))

    EP = avdtp.EndPointInfo
    parse_shape('epi_parse_src', EP.from_bytes.__func__, ['seid', 'in_use', 'media_type', 'tsep'], data='payload')
    ser_shape('epi_ser_src', EP.__bytes__, ['seid', 'in_use', 'media_type', 'tsep'], None, 2)
    assign_shape('avdtp_b0_parse_src', avdtp.MessageAssembler.on_pdu, ['transaction_label', 'packet_type', 'message_type'], 'pdu')
    assign_shape('avdtp_b0_ser_src', avdtp.Protocol.send_message, ['first_header_byte'], '<none>',
                 ['transaction_label', 'packet_type', 'message_type'])
    assign_shape('avctp_b0_parse_src', avctp.MessageAssembler.on_pdu, ['transaction_label', 'packet_type', 'c_r', 'ipid'], 'pdu')

    MP = rtp.MediaPacket
    assign_shape('rtp_header_parse_src', MP.from_bytes,
                 ['version', 'padding', 'extension', 'csrc_count', 'marker', 'payload_type'], 'data')
    # CSRC entry i is read at <base> + i * <stride>
    node = _fn_ast(MP.from_bytes)
    comps = [n for n in ast.walk(node) if isinstance(n, ast.ListComp)]
    if len(comps) != 1:
        raise ShapeError('MediaPacket.from_bytes: expected one list comprehension (the CSRC list)')
    calls = [n for n in ast.walk(comps[0].elt) if isinstance(n, ast.Call) and getattr(n.func, 'attr', None) == 'unpack_from']
    if len(calls) != 1 or len(calls[0].args) != 3:
        raise ShapeError('MediaPacket.from_bytes: CSRC entries are not read with struct.unpack_from(fmt, data, offset)')
    fmt, _, off = calls[0].args
    if not (isinstance(fmt, ast.Constant) and fmt.value == '>I'):
        raise ShapeError('MediaPacket.from_bytes: CSRC format is not >I')
    ok = (isinstance(off, ast.BinOp) and isinstance(off.op, ast.Add) and isinstance(off.left, ast.Constant)
          and isinstance(off.right, ast.BinOp) and isinstance(off.right.op, ast.Mult)
          and isinstance(off.right.left, ast.Name) and isinstance(off.right.right, ast.Constant))
    if not ok:
        raise ShapeError(f'MediaPacket.from_bytes: CSRC offset expression not of the form <base> + i * <stride>: {ast.unparse(off)}')
    out.append(f'Definition rtp_csrc_base_src : Z := {off.left.value}.')
    out.append(f'Definition rtp_csrc_stride_src : Z := {off.right.right.value}.')
    out.append('')
    from bumble import a2dp
    SB, AA = a2dp.SbcMediaCodecInformation, a2dp.AacMediaCodecInformation
    sbc_f = ['sampling_frequency', 'channel_mode', 'block_length', 'subbands', 'allocation_method',
             'minimum_bitpool_value', 'maximum_bitpool_value']
    aac_f = ['object_type', 'sampling_frequency', 'channels', 'vbr', 'bitrate']
    assign_shape('sbc_parse_src', SB.from_bytes.__func__, sbc_f, 'data')
    ser_shape('sbc_ser_src', SB.__bytes__, sbc_f, None, 4)
    assign_shape('aac_parse_src', AA.from_bytes.__func__, aac_f, 'data')
    ser_shape('aac_ser_src', AA.__bytes__, aac_f, None, 6, outer_mask=True)
    out.extend(_sdp_tables())
    out.append(_sdp_list_exits())
    out.append('')
    return '\n'.join(out)


def _sdp_list_exits():
    """the exit paths of DataElementParser._list_from_bytes in source order:
    (0 = return | 1 = raise, 1 if after `self.depth += 1`, 1 if after `self.depth -= 1`).
    The nesting counter must be restored on every return that follows the increment."""
    from bumble import sdp
    node = _fn_ast(sdp.DataElementParser._list_from_bytes)
    incs = decs = 0
    exits = []

    def is_depth_aug(st, op):
        return (isinstance(st, ast.AugAssign) and isinstance(st.op, op) and isinstance(st.target, ast.Attribute)
                and isinstance(st.target.value, ast.Name) and st.target.value.id == 'self' and st.target.attr == 'depth'
                and isinstance(st.value, ast.Constant) and st.value.value == 1)

    def walk(stmts):
        nonlocal incs, decs
        for st in stmts:
            if is_depth_aug(st, ast.Add):
                incs += 1
            elif is_depth_aug(st, ast.Sub):
                decs += 1
            elif isinstance(st, ast.Return):
                exits.append((0, int(incs > 0), int(decs > 0)))
            elif isinstance(st, ast.Raise):
                exits.append((1, int(incs > 0), int(decs > 0)))
            elif isinstance(st, (ast.If, ast.While, ast.For)):
                walk(st.body)
                walk(st.orelse)
            elif isinstance(st, (ast.Try, ast.With, ast.Match)):
                raise ShapeError('DataElementParser._list_from_bytes: try / with / match statements are not modelled')
            else:
                for sub in ast.walk(st):
                    if isinstance(sub, ast.Attribute) and sub.attr == 'depth' and isinstance(sub.ctx, ast.Store):
                        raise ShapeError(f'DataElementParser._list_from_bytes: the nesting counter is written by {ast.unparse(st)}')
    walk(node.body)
    if incs != 1 or decs != 1:
        raise ShapeError(f'DataElementParser._list_from_bytes: {incs} increments and {decs} decrements of self.depth')
    if not isinstance(node.body[-1], ast.Return):
        raise ShapeError('DataElementParser._list_from_bytes: does not end with a return')
    return ('Definition sdp_list_exits_src : list (Z * Z * Z) := ['
            + '; '.join('(' + ', '.join(map(str, e)) + ')' for e in exits) + '].')


def _sdp_tables():
    """the size-index tables of sdp.DataElement.__bytes__ and DataElementParser.parse_next:
    which comparison on the data size selects which size index and how wide the size field is,
    and which size index announces which value size / how the size field is read"""
    from bumble import sdp
    ser = _fn_ast(sdp.DataElement.__bytes__)
    fixed, var = [], []
    for n in ast.walk(ser):
        if not (isinstance(n, ast.If) and isinstance(n.test, ast.Compare) and isinstance(n.test.left, ast.Name)
                and n.test.left.id == 'size' and len(n.test.ops) == 1 and isinstance(n.test.comparators[0], ast.Constant)):
            continue
        idx = [st.value.value for st in n.body if isinstance(st, ast.Assign) and getattr(st.targets[0], 'id', None) == 'size_index'
               and isinstance(st.value, ast.Constant)]
        if not idx:
            continue            # the NIL / BOOLEAN sanity checks (they raise)
        op = n.test.ops[0]
        c = n.test.comparators[0].value
        sb = [st.value for st in n.body if isinstance(st, ast.Assign) and getattr(st.targets[0], 'id', None) == 'size_bytes']
        if sb:
            if not isinstance(op, ast.LtE):
                raise ShapeError('DataElement.__bytes__: variable-size threshold is not `size <= const`')
            txt = ast.unparse(sb[0])
            width = {"bytes([size])": 1, "struct.pack('>H', size)": 2, "struct.pack('>I', size)": 4}.get(txt)
            if width is None:
                raise ShapeError(f'DataElement.__bytes__: size field written as {txt}')
            var.append((c, idx[0], width))
        else:
            if isinstance(op, ast.LtE):
                fixed.append((0, c, idx[0]))
            elif isinstance(op, ast.Eq):
                fixed.append((1, c, idx[0]))
            else:
                raise ShapeError('DataElement.__bytes__: fixed-size test is neither <= nor ==')
    fixed.sort(key=lambda r: r[2])
    var.sort(key=lambda r: r[1])
    par = _fn_ast(sdp.DataElementParser.parse_next)
    matches = [n for n in ast.walk(par) if isinstance(n, ast.Match) and ast.unparse(n.subject) == 'size_index']
    if len(matches) != 1:
        raise ShapeError('DataElementParser.parse_next: expected one `match size_index`')
    psz, pvar = [], []
    for c in matches[0].cases:
        if isinstance(c.pattern, ast.MatchAs) and c.pattern.pattern is None:
            continue            # `case _: raise UnreachableError`
        if not (isinstance(c.pattern, ast.MatchValue) and isinstance(c.pattern.value, ast.Constant)):
            raise ShapeError('DataElementParser.parse_next: size_index case is not a constant')
        k = c.pattern.value.value
        body = [ast.unparse(st) for st in c.body]
        if k == 0:
            want = ['if element_type == DataElement.NIL:\n    value_size = 0\nelse:\n    value_size = 1']
            if body != want:
                raise ShapeError(f'DataElementParser.parse_next: size_index 0 is handled as {body}')
            continue
        if len(body) == 1 and body[0].startswith('value_size = ') and body[0][13:].isdigit():
            psz.append((k, int(body[0][13:])))
            continue
        reads = {"value_size = self.data[self.offset]": 1, "value_size = struct.unpack_from('>H', self.data, self.offset)[0]": 2,
                 "value_size = struct.unpack_from('>I', self.data, self.offset)[0]": 4}
        if len(body) == 2 and body[0] in reads and body[1] == f'self.offset += {reads[body[0]]}':
            pvar.append((k, reads[body[0]]))
            continue
        raise ShapeError(f'DataElementParser.parse_next: size_index {k} is handled as {body}')

    def rows(name, rs, n):
        ty = ' * '.join(['Z'] * n)
        return f'Definition {name} : list ({ty}) := [' + '; '.join('(' + ', '.join(map(str, r)) + ')' for r in rs) + '].'
    return [rows('sdp_fixed_index_src', fixed, 3), rows('sdp_var_index_src', var, 3),
            rows('sdp_parse_fixed_src', sorted(psz), 2), rows('sdp_parse_var_src', sorted(pvar), 2)]
