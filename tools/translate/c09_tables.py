"""C09 translator: CID range constants and the per-connection cleanup of
ChannelManager.on_disconnection -> coq/Gen/C09Tables.v.  Fail closed."""
import ast
import inspect
import textwrap


def _key_mentions_handle(node):
    return 'handle' in ast.unparse(node)


def per_connection_tables(l2cap):
    """attributes of ChannelManager that the module indexes by a connection handle:
    self.X[...handle...], self.X.get/setdefault/pop(...handle..., ...), also through
    self.manager.X inside the channel classes"""
    src = inspect.getsource(l2cap)
    tree = ast.parse(src)
    init = None
    for n in ast.walk(tree):
        if isinstance(n, ast.ClassDef) and n.name == 'ChannelManager':
            for f in n.body:
                if isinstance(f, ast.FunctionDef) and f.name == '__init__':
                    init = f
    if init is None:
        raise RuntimeError('ChannelManager.__init__ not found')
    dict_attrs = set()
    for n in ast.walk(init):
        if isinstance(n, ast.Assign) and len(n.targets) == 1 and isinstance(n.targets[0], ast.Attribute) \
                and isinstance(n.targets[0].value, ast.Name) and n.targets[0].value.id == 'self' \
                and isinstance(n.value, ast.Dict) and not n.value.keys:
            dict_attrs.add(n.targets[0].attr)

    def owner_attr(node):
        # self.X or self.manager.X
        if isinstance(node, ast.Attribute):
            v = node.value
            if isinstance(v, ast.Name) and v.id == 'self':
                return node.attr
            if isinstance(v, ast.Attribute) and v.attr == 'manager' and isinstance(v.value, ast.Name) and v.value.id == 'self':
                return node.attr
        return None

    found = set()
    for n in ast.walk(tree):
        if isinstance(n, ast.Subscript):
            a = owner_attr(n.value)
            if a in dict_attrs and _key_mentions_handle(n.slice):
                found.add(a)
        if isinstance(n, ast.Call) and isinstance(n.func, ast.Attribute) and n.func.attr in ('get', 'setdefault', 'pop') and n.args:
            a = owner_attr(n.func.value)
            if a in dict_attrs and _key_mentions_handle(n.args[0]):
                found.add(a)
    return sorted(found)


def disconnection_pops(l2cap):
    """tables that ChannelManager.on_disconnection removes for the connection handle, at the top
    level of the function (not under a condition)"""
    fn = l2cap.ChannelManager.on_disconnection
    tree = ast.parse(textwrap.dedent(inspect.getsource(fn)))
    f = tree.body[0]
    if not isinstance(f, ast.FunctionDef) or len(f.args.args) < 2:
        raise RuntimeError('on_disconnection: unexpected shape')
    handle_arg = f.args.args[1].arg
    pops = []

    def pop_of(call):
        if isinstance(call, ast.Call) and isinstance(call.func, ast.Attribute) and call.func.attr == 'pop' \
                and isinstance(call.func.value, ast.Attribute) and isinstance(call.func.value.value, ast.Name) \
                and call.func.value.value.id == 'self' and call.args \
                and isinstance(call.args[0], ast.Name) and call.args[0].id == handle_arg:
            return call.func.value.attr
        return None

    for st in f.body:
        # self.X.pop(handle, ...)   |   if v := self.X.pop(handle, None): ...
        cand = None
        if isinstance(st, ast.Expr):
            cand = pop_of(st.value)
        elif isinstance(st, ast.If) and isinstance(st.test, ast.NamedExpr):
            cand = pop_of(st.test.value)
        elif isinstance(st, ast.Assign):
            cand = pop_of(st.value)
        if cand:
            pops.append(cand)
    return sorted(set(pops))


# ----------------------------------------------------------------------------- next_identifier
def identifier_function(l2cap):
    """ChannelManager.next_identifier as a Coq function of the identifier last used on the
    connection.  Accepted shape (anything else fails closed):
        identifier = <arith over self.identifiers.setdefault|get(connection.handle, D)>
        [if identifier == C: identifier = C2]*
        self.identifiers[connection.handle] = identifier
        return identifier
    arithmetic: + - * % over int constants and the table lookup (Python % with a positive
    modulus on non-negative values is Z.modulo)."""
    fn = l2cap.ChannelManager.__dict__.get('next_identifier')
    if fn is None:
        raise RuntimeError('ChannelManager.next_identifier not found')
    f = ast.parse(textwrap.dedent(inspect.getsource(fn))).body[0]
    body = [st for st in f.body if not (isinstance(st, ast.Expr) and isinstance(st.value, ast.Constant))]
    default = []

    def expr(e):
        if isinstance(e, ast.Constant) and isinstance(e.value, int) and not isinstance(e.value, bool):
            return f'({e.value})' if e.value < 0 else str(e.value)
        if isinstance(e, ast.Name) and e.id == 'identifier':
            return 'identifier'
        if isinstance(e, ast.Call) and isinstance(e.func, ast.Attribute) and e.func.attr in ('setdefault', 'get') \
                and ast.unparse(e.func.value) == 'self.identifiers' and len(e.args) == 2 \
                and ast.unparse(e.args[0]) == 'connection.handle' and isinstance(e.args[1], ast.Constant) \
                and isinstance(e.args[1].value, int):
            default.append(e.args[1].value)
            return 'last'
        if isinstance(e, ast.BinOp) and type(e.op) in (ast.Add, ast.Sub, ast.Mult, ast.Mod):
            if isinstance(e.op, ast.Mod) and not (isinstance(e.right, ast.Constant) and isinstance(e.right.value, int)
                                                  and e.right.value > 0):
                raise RuntimeError('next_identifier: modulus is not a positive constant')
            op = {ast.Add: '+', ast.Sub: '-', ast.Mult: '*', ast.Mod: 'mod'}[type(e.op)]
            return f'({expr(e.left)} {op} {expr(e.right)})'
        raise RuntimeError('next_identifier: expression not understood: ' + ast.unparse(e))

    if len(body) < 3:
        raise RuntimeError('next_identifier: unexpected shape')
    first, *mid, store, ret = body
    if not (isinstance(first, ast.Assign) and len(first.targets) == 1 and ast.unparse(first.targets[0]) == 'identifier'):
        raise RuntimeError('next_identifier: first statement is not `identifier = ...`')
    lines = [f'  let identifier := {expr(first.value)} in']
    for st in mid:
        ok = (isinstance(st, ast.If) and not st.orelse and len(st.body) == 1
              and isinstance(st.test, ast.Compare) and len(st.test.ops) == 1 and isinstance(st.test.ops[0], ast.Eq)
              and ast.unparse(st.test.left) == 'identifier' and isinstance(st.test.comparators[0], ast.Constant)
              and isinstance(st.body[0], ast.Assign) and ast.unparse(st.body[0].targets[0]) == 'identifier')
        if not ok:
            raise RuntimeError('next_identifier: statement not understood: ' + ast.unparse(st))
        lines.append(f'  let identifier := if Z.eqb identifier {expr(st.test.comparators[0])} '
                     f'then {expr(st.body[0].value)} else identifier in')
    if ast.unparse(store) != 'self.identifiers[connection.handle] = identifier':
        raise RuntimeError('next_identifier: the identifier is not stored: ' + ast.unparse(store))
    if ast.unparse(ret) != 'return identifier':
        raise RuntimeError('next_identifier: does not return the identifier: ' + ast.unparse(ret))
    if len(set(default)) != 1:
        raise RuntimeError('next_identifier: the last identifier is not read exactly once with one default')
    text = ('(* ChannelManager.next_identifier: the identifier handed out after `last` *)\n'
            f'Definition id_default : Z := {default[0]}.\n'
            'Definition next_identifier_of_source (last : Z) : Z :=\n' + '\n'.join(lines) + '\n  identifier.\n')
    return text


def generate(l2cap):
    consts = {
        'le_cid_lo': l2cap.L2CAP_LE_U_DYNAMIC_CID_RANGE_START,
        'le_cid_hi': l2cap.L2CAP_LE_U_DYNAMIC_CID_RANGE_END,
        'bredr_cid_lo': l2cap.L2CAP_ACL_U_DYNAMIC_CID_RANGE_START,
        'bredr_cid_hi': l2cap.L2CAP_ACL_U_DYNAMIC_CID_RANGE_END,
    }
    for k, v in consts.items():
        if not isinstance(v, int):
            raise RuntimeError(f'{k}: not an int: {v!r}')
    tables = per_connection_tables(l2cap)
    pops = disconnection_pops(l2cap)
    if not tables:
        raise RuntimeError('no per-connection table recognised in ChannelManager')

    def strs(xs):
        return '[' + '; '.join(f'"{x}"%string' for x in xs) + ']'
    lines = ['(* GENERATED by tools/translate/c09_tables.py from bumble/l2cap.py - do not edit *)',
             'From Coq Require Import ZArith List String.', 'Import ListNotations.', 'Open Scope Z_scope.', '']
    for k, v in consts.items():
        lines.append(f'Definition {k} : Z := {v}.')
    lines += ['',
              '(* dictionaries of ChannelManager that are indexed by a connection handle *)',
              f'Definition per_connection_tables : list string := {strs(tables)}.',
              '(* dictionaries that ChannelManager.on_disconnection removes for the lost connection *)',
              f'Definition disconnection_pops : list string := {strs(pops)}.', '']
    return '\n'.join(lines), consts, tables, pops


# ----------------------------------------------------------------------------- effect skeletons
# For every anchored function the ordered sequence of the effects the model is a reading of:
# state changes, table updates, futures completed, frames sent, calls between the classes, and
# the control structure (with the source text of every test).  Compared in Coq with the skeleton
# the model was written against (Proofs/ChanMgrSkeleton.v): an edit that changes the shape of
# this code breaks the obligation C09_skeleton_matches_source even if no generated history
# happens to exercise it.
SKELETON_FUNCTIONS = [
    ('ChannelManager', ['find_free_br_edr_cid', 'find_free_le_cid', 'find_free_le_cids', 'next_identifier',
                        'on_disconnection', 'on_channel_closed',
                        'on_l2cap_connection_request', 'on_l2cap_connection_response',
                        'on_l2cap_configure_request', 'on_l2cap_configure_response',
                        'on_l2cap_disconnection_request', 'on_l2cap_disconnection_response',
                        'on_l2cap_le_credit_based_connection_request', 'on_l2cap_le_credit_based_connection_response',
                        'on_l2cap_credit_based_connection_request', 'on_l2cap_credit_based_connection_response',
                        'on_l2cap_le_flow_control_credit',
                        'create_le_credit_based_channel', 'create_classic_channel',
                        'create_enhanced_credit_based_channels']),
    ('ClassicChannel', ['connect', '_disconnect_sync', '_abort_connection_result', 'disconnect', 'abort',
                        'on_connection_request', 'on_connection_response', 'on_configure_response',
                        'on_disconnection_request', 'on_disconnection_response']),
    (None, ['_credit_based_parameters_acceptable']),        # module level: the limits a response's MTU / MPS must meet
    ('LeCreditBasedChannel', ['connect', 'disconnect', 'abort', 'on_connection_response',
                              'on_enhanced_connection_response', 'on_disconnection_request',
                              'on_disconnection_response', 'flush_output', 'write']),
]
_TABLES = {'channels', 'le_coc_channels', 'le_coc_requests', 'pending_credit_based_connections', 'identifiers'}
_ALIASES = {'connection_channels': 'channels', 'classic_connection_channels': 'channels',
            'le_connection_channels': 'le_coc_channels', 'requests': 'le_coc_requests',
            'pending_connections': 'pending_credit_based_connections',
            'pending_credit_based_connections': 'pending_credit_based_connections'}
_FUTURES = {'connection_result', 'disconnection_result', 'future'}


def _table_of(node):
    """the ChannelManager table an expression denotes (directly or through a local alias)"""
    if isinstance(node, ast.Attribute) and node.attr in _TABLES:
        return node.attr
    if isinstance(node, ast.Name) and node.id in _ALIASES:
        return _ALIASES[node.id]
    if isinstance(node, ast.Call) and isinstance(node.func, ast.Attribute) and node.func.attr in ('setdefault', 'get'):
        return _table_of(node.func.value)
    return None


# functions that are pure arithmetic over CIDs / identifiers: every simple statement is kept verbatim
# (bounds, modulus, comparison operators, the value returned)
_VERBATIM = {'find_free_br_edr_cid', 'find_free_le_cid', 'find_free_le_cids', 'next_identifier',
             '_credit_based_parameters_acceptable'}


class _Skel(ast.NodeVisitor):
    def __init__(self, verbatim=False):
        self.out = []
        self.verbatim = verbatim

    def stmt(self, n):
        if self.verbatim:
            self.emit('stmt ' + ast.unparse(n))

    def emit(self, s):
        self.out.append(s)

    # control structure
    def visit_If(self, n):
        self.emit('if ' + ast.unparse(n.test))
        self.scan_expr(n.test)
        for s in n.body:
            self.visit(s)
        if n.orelse:
            self.emit('else')
            for s in n.orelse:
                self.visit(s)
        self.emit('endif')

    def visit_For(self, n):
        self.emit('for ' + ast.unparse(n.target) + ' in ' + ast.unparse(n.iter))
        for s in n.body:
            self.visit(s)
        if n.orelse:
            self.emit('forelse')
            for s in n.orelse:
                self.visit(s)
        self.emit('endfor')

    def visit_While(self, n):
        self.emit('while ' + ast.unparse(n.test))
        for s in n.body:
            self.visit(s)
        self.emit('endwhile')

    def visit_Try(self, n):
        self.emit('try')
        for s in n.body:
            self.visit(s)
        for h in n.handlers:
            self.emit('except ' + (ast.unparse(h.type) if h.type else ''))
            for s in h.body:
                self.visit(s)
        if n.finalbody:
            self.emit('finally')
            for s in n.finalbody:
                self.visit(s)
        self.emit('endtry')

    def visit_Return(self, n):
        self.stmt(n)
        if n.value is not None:
            self.scan_expr(n.value)
        self.emit('return')

    def visit_Raise(self, n):
        self.emit('raise ' + (ast.unparse(n.exc).split('(')[0] if n.exc else ''))

    def visit_Assign(self, n):
        self.stmt(n)
        self.scan_expr(n.value)
        for t in n.targets:
            if isinstance(t, ast.Subscript) and _table_of(t.value):
                self.emit('tab ' + _table_of(t.value) + ' set ' + ast.unparse(t.slice))
            elif isinstance(t, ast.Attribute) and isinstance(t.value, ast.Name) and t.value.id == 'self' \
                    and t.attr in ('connection_result', 'disconnection_result', 'destination_cid', 'state',
                                   'connected', 'out_sdu'):
                self.emit('self.' + t.attr + ' = ' + (ast.unparse(n.value) if isinstance(n.value, (ast.Constant, ast.Name, ast.Attribute)) else '...'))
            elif isinstance(t, ast.Attribute) and _table_of(t):
                self.emit('tab ' + t.attr + ' assign')
            elif ast.unparse(t) in ('result', 'response.result'):
                # the result a response is processed with (D17g rewrites it)
                self.emit('set ' + ast.unparse(t) + ' = ' + ast.unparse(n.value))

    def visit_AugAssign(self, n):
        self.stmt(n)
        self.scan_expr(n.value)

    def visit_Delete(self, n):
        for t in n.targets:
            if isinstance(t, ast.Subscript) and _table_of(t.value):
                self.emit('tab ' + _table_of(t.value) + ' del ' + ast.unparse(t.slice))

    def visit_Expr(self, n):
        self.stmt(n)
        self.scan_expr(n.value)

    def visit_AnnAssign(self, n):
        self.stmt(n)
        if n.value is not None:
            self.scan_expr(n.value)

    def generic_visit(self, n):
        for c in ast.iter_child_nodes(n):
            if isinstance(c, ast.stmt):
                self.visit(c)

    # effects inside expressions, in evaluation order (innermost first)
    def scan_expr(self, e):
        for c in ast.iter_child_nodes(e):
            if isinstance(c, ast.expr):
                self.scan_expr(c)
        if isinstance(e, ast.Await):
            self.emit('await ' + ast.unparse(e.value).split('(')[0])
        if isinstance(e, ast.NamedExpr) and isinstance(e.value, ast.Call):
            pass
        if not isinstance(e, ast.Call) or not isinstance(e.func, ast.Attribute):
            return
        f = e.func
        name = f.attr
        recv = ast.unparse(f.value)
        if name == '_change_state':
            self.emit('state ' + ast.unparse(e.args[0]).split('.')[-1])
        elif name == 'on_channel_closed':
            self.emit('on_channel_closed')
        elif name in ('set_result', 'set_exception', 'cancel', 'done') and recv.split('.')[-1] in _FUTURES:
            self.emit('future ' + recv.split('.')[-1] + ' ' + name)
        elif name == 'send_control_frame':
            arg = e.args[-1]
            self.emit('send ' + (ast.unparse(arg.func) if isinstance(arg, ast.Call) else ast.unparse(arg)))
        elif name in ('pop', 'setdefault', 'get', 'clear', 'values', 'items') and _table_of(f.value):
            self.emit('tab ' + _table_of(f.value) + ' ' + name + ' ' + ', '.join(ast.unparse(a) for a in e.args))
        elif name in ('abort', 'flush_output', 'process_output', '_disconnect_sync', '_abort_connection_result',
                      'send_configure_request', 'next_identifier', 'on_connection', 'on_connection_request',
                      'on_connection_response', 'on_enhanced_connection_response', 'on_configure_request',
                      'on_configure_response', 'on_disconnection_request', 'on_disconnection_response',
                      'on_credits', 'connect', 'find_channel', 'find_le_coc_channel', 'find_free_le_cid',
                      'find_free_le_cids', 'find_free_br_edr_cid', 'cancel_on_disconnection', 'create_future',
                      'emit'):
            if name == 'emit' and e.args:
                extra = ' ' + ast.unparse(e.args[0])
            elif name in ('find_channel', 'find_le_coc_channel'):
                extra = ' ' + ', '.join(ast.unparse(a) for a in e.args)      # which CID the channel is looked up by
            else:
                extra = ''
            self.emit('call ' + name + extra)
        elif recv.endswith('drained') and name in ('set', 'clear', 'wait'):
            self.emit('drained ' + name)


def skeleton(l2cap):
    out = []
    for cls_name, methods in SKELETON_FUNCTIONS:
        cls = getattr(l2cap, cls_name) if cls_name else l2cap
        for mname in methods:
            fn = cls.__dict__.get(mname)
            if fn is None:
                raise RuntimeError(f'{cls_name}.{mname} not found')
            fn = getattr(fn, '__func__', fn)
            tree = ast.parse(textwrap.dedent(inspect.getsource(fn)))
            f = tree.body[0]
            if not isinstance(f, (ast.FunctionDef, ast.AsyncFunctionDef)):
                raise RuntimeError(f'{cls_name}.{mname}: not a function')
            sk = _Skel(verbatim=mname in _VERBATIM)
            for st in f.body:
                sk.visit(st)
            out.append((f'{cls_name}.{mname}' if cls_name else mname, sk.out))
    return out


def _coq_str(s):
    return '"' + s.replace('"', '""') + '"'


def skeleton_coq(sk, name):
    rows = []
    for fn, toks in sk:
        rows.append('  (' + _coq_str(fn) + ',\n   [' + ';\n    '.join(_coq_str(t) for t in toks) + '])')
    return (f'Definition {name} : list (string * list string) :=\n [\n' + ';\n'.join(rows) + '\n ].\n')
