"""C19 translator (AST + introspection), fail-closed: from the CURRENT source of the anchored functions of
bumble/sdp.py, bumble/avdtp.py and bumble/avctp.py it regenerates coq/Gen/C19Shape.v with

  A. the size / count / bit-field arithmetic as Coq functions (`g_*`), translated expression by expression
     (a construct outside the small vocabulary aborts the check, naming it);
  B. constants read from the modules (watchdog, continuation state, packet type / state / error codes);
  C. for the AVDTP stream procedures on both ends, the guard (states in which the procedure goes ahead) and
     the states it moves to, read from the `if self.state ...` tests and the change_state() calls;
  D. a control-flow / effect skeleton of every anchored function: its statements in order (logging,
     docstrings and type-only statements dropped), each normalised with ast.unparse and hashed; the text is
     kept as a comment next to the hash.

Props/C19.v proves `..._matches_source` statements over these definitions (the model's arithmetic equals the
source's on every argument, the model's stream table equals the source's guards, the skeleton is the one the
model was read from)."""
import ast
import hashlib
import os


class TranslateError(Exception):
    pass


def _fail(msg):
    raise TranslateError(msg)


# ----------------------------------------------------------------------------- locating code
class Source:
    def __init__(self, repo, rel):
        self.rel = rel
        path = os.path.join(repo, rel)
        with open(path) as f:
            self.text = f.read()
        self.tree = ast.parse(self.text)

    def cls(self, name):
        for n in self.tree.body:
            if isinstance(n, ast.ClassDef) and n.name == name:
                return n
        _fail(f'{self.rel}: class {name} not found')

    def func(self, cls, name):
        body = self.cls(cls).body if cls else self.tree.body
        for n in body:
            if isinstance(n, (ast.FunctionDef, ast.AsyncFunctionDef)) and n.name == name:
                return n
        _fail(f'{self.rel}: {cls}.{name} not found')

    def module_const(self, name):
        for n in self.tree.body:
            if isinstance(n, ast.Assign) and len(n.targets) == 1 and isinstance(n.targets[0], ast.Name) \
                    and n.targets[0].id == name:
                return n.value
        _fail(f'{self.rel}: module constant {name} not found')

    def class_const(self, cls, name):
        for n in self.cls(cls).body:
            if isinstance(n, ast.Assign) and len(n.targets) == 1 and isinstance(n.targets[0], ast.Name) \
                    and n.targets[0].id == name:
                return n.value
        _fail(f'{self.rel}: {cls}.{name} not found')


def _walk_stmts(fn):
    """all statements of a function, nested ones included, in source order"""
    out = []

    def go(stmts):
        for s in stmts:
            out.append(s)
            for field in ('body', 'orelse', 'finalbody'):
                sub = getattr(s, field, None)
                if isinstance(sub, list) and sub and isinstance(sub[0], ast.stmt):
                    go(sub)
            if isinstance(s, ast.Try):
                for h in s.handlers:
                    go(h.body)
    go(fn.body)
    return out


def _assign_value(fn, target, which=0):
    """value of the which-th assignment `target = ...` in fn (target given as source text)"""
    hits = [s.value for s in _walk_stmts(fn)
            if isinstance(s, ast.Assign) and len(s.targets) == 1 and ast.unparse(s.targets[0]) == target]
    if len(hits) <= which:
        _fail(f'{fn.name}: assignment #{which} to {target!r} not found ({len(hits)} found)')
    return hits[which]


def _if_tests(fn):
    return [s.test for s in _walk_stmts(fn) if isinstance(s, ast.If)]


def _find_test(fn, containing):
    hits = [t for t in _if_tests(fn) if containing in ast.unparse(t)]
    if len(hits) != 1:
        _fail(f'{fn.name}: expected exactly one `if` test containing {containing!r}, found {len(hits)}')
    return hits[0]


def _subexprs(fn, cls):
    return [n for n in ast.walk(fn) if isinstance(n, cls)]


# ----------------------------------------------------------------------------- expressions -> Coq
BINOPS = {ast.Sub: '({} - {})', ast.Add: '({} + {})', ast.Mult: '({} * {})', ast.FloorDiv: '({} / {})',
          ast.RShift: '(Z.shiftr {} {})', ast.LShift: '(Z.shiftl {} {})', ast.BitAnd: '(Z.land {} {})',
          ast.BitOr: '(Z.lor {} {})'}
CMPOPS = {ast.Gt: '({1} <? {0})', ast.Lt: '({0} <? {1})', ast.GtE: '({1} <=? {0})', ast.LtE: '({0} <=? {1})',
          ast.Eq: '({0} =? {1})', ast.NotEq: '(negb ({0} =? {1}))'}


def coq_expr(node, env, where):
    """Python expression -> Coq term over Z / bool.  env: source text of a sub-expression -> Coq variable."""
    text = ast.unparse(node)
    if text in env:
        return env[text]
    if isinstance(node, ast.Constant) and isinstance(node.value, int) and not isinstance(node.value, bool):
        return str(node.value) if node.value >= 0 else f'({node.value})'
    if isinstance(node, ast.BinOp) and type(node.op) in BINOPS:
        return BINOPS[type(node.op)].format(coq_expr(node.left, env, where), coq_expr(node.right, env, where))
    if isinstance(node, ast.Call) and isinstance(node.func, ast.Name) and node.func.id == 'min' and len(node.args) == 2:
        return f'(Z.min {coq_expr(node.args[0], env, where)} {coq_expr(node.args[1], env, where)})'
    if isinstance(node, ast.Compare) and len(node.ops) == 1 and type(node.ops[0]) in CMPOPS:
        return CMPOPS[type(node.ops[0])].format(coq_expr(node.left, env, where), coq_expr(node.comparators[0], env, where))
    if isinstance(node, ast.BoolOp):
        parts = [coq_expr(v, env, where) for v in node.values]
        op = ' && ' if isinstance(node.op, ast.And) else ' || '
        return '(' + op.join(parts) + ')'
    _fail(f'{where}: expression `{text}` is outside the translator\'s vocabulary ({type(node).__name__})')


def _def(name, params, ty, body):
    ps = ' '.join(f'({p} : Z)' for p in params)
    return f'Definition {name} {ps} : {ty} := {body}.'


def _int_const(node, where):
    if isinstance(node, ast.Constant) and isinstance(node.value, int):
        return node.value
    _fail(f'{where}: expected an integer literal, found `{ast.unparse(node)}`')


def _bytes_literal(node, where):
    """bytes([a, b, ...]) -> [a, b, ...]"""
    if isinstance(node, ast.Call) and ast.unparse(node.func) == 'bytes' and len(node.args) == 1 \
            and isinstance(node.args[0], ast.List):
        return [_int_const(e, where) for e in node.args[0].elts]
    _fail(f'{where}: expected bytes([...]), found `{ast.unparse(node)}`')


def _slice_bounds(node, where):
    """x[a:b] -> (text of x, a or None, b or None)"""
    if isinstance(node, ast.Subscript) and isinstance(node.slice, ast.Slice) and node.slice.step is None:
        return ast.unparse(node.value), node.slice.lower, node.slice.upper
    _fail(f'{where}: expected a slice, found `{ast.unparse(node)}`')


# ----------------------------------------------------------------------------- skeletons
def _is_logging(stmt):
    if isinstance(stmt, ast.Expr) and isinstance(stmt.value, ast.Call):
        f = ast.unparse(stmt.value.func)
        return f.startswith('logger.')
    return False


def _is_docstring(stmt):
    return isinstance(stmt, ast.Expr) and isinstance(stmt.value, ast.Constant) and isinstance(stmt.value.value, str)


def skeleton(fn):
    """ordered list of normalised statement texts; compound statements contribute their header and
    explicit Else / End markers"""
    out = []

    def go(stmts):
        for s in stmts:
            if _is_logging(s) or _is_docstring(s):
                continue
            if isinstance(s, ast.If):
                out.append(f'If {ast.unparse(s.test)}')
                go(s.body)
                if s.orelse:
                    out.append('Else')
                    go(s.orelse)
                out.append('End')
            elif isinstance(s, (ast.While,)):
                out.append(f'While {ast.unparse(s.test)}')
                go(s.body)
                out.append('End')
            elif isinstance(s, (ast.For, ast.AsyncFor)):
                out.append(f'For {ast.unparse(s.target)} in {ast.unparse(s.iter)}')
                go(s.body)
                out.append('End')
            elif isinstance(s, ast.Try):
                out.append('Try')
                go(s.body)
                for h in s.handlers:
                    out.append(f'Except {ast.unparse(h.type) if h.type else ""}')
                    go(h.body)
                if s.finalbody:
                    out.append('Finally')
                    go(s.finalbody)
                out.append('End')
            elif isinstance(s, (ast.With, ast.AsyncWith)):
                out.append('With ' + ', '.join(ast.unparse(i) for i in s.items))
                go(s.body)
                out.append('End')
            elif isinstance(s, (ast.FunctionDef, ast.AsyncFunctionDef)):
                out.append(f'Def {s.name}')
                go(s.body)
                out.append('End')
            elif isinstance(s, ast.Match):
                _fail(f'{fn.name}: match statement in an anchored function')
            else:
                out.append(' '.join(ast.unparse(s).split()))
    args = ', '.join(a.arg for a in fn.args.args)
    out.append(f'{"async " if isinstance(fn, ast.AsyncFunctionDef) else ""}def {fn.name}({args})')
    go(fn.body)
    return out


def _h(text):
    return int.from_bytes(hashlib.sha256(text.encode()).digest()[:6], 'big')


def _coq_comment(text):
    return text.replace('(*', '( *').replace('*)', '* )').replace('"', "'")


def skel_def(name, lines):
    """one hash per function over its normalised statements; the statements are kept as a comment"""
    body = '\n'.join(f'   {_coq_comment(l)}' for l in lines)
    return f'(*\n{body}\n*)\nDefinition {name} : Z := {_h(chr(10).join(lines))}.'


# ----------------------------------------------------------------------------- stream guards
STATE_CODES = ['IDLE', 'CONFIGURED', 'OPEN', 'STREAMING', 'CLOSING', 'ABORTING']


def _state_code(node, where):
    t = ast.unparse(node)
    if t.startswith('State.') and t[6:] in STATE_CODES:
        return STATE_CODES.index(t[6:])
    _fail(f'{where}: expected State.X, found `{t}`')


def _guard_allowed(test, where):
    """`self.state != State.X` -> [X];  `self.state not in (A, B)` -> [A, B];  `self.state == State.X` (refusal in X)
    -> every state but X"""
    if isinstance(test, ast.Compare) and ast.unparse(test.left) == 'self.state' and len(test.ops) == 1:
        op, rhs = test.ops[0], test.comparators[0]
        if isinstance(op, ast.NotEq):
            return [_state_code(rhs, where)]
        if isinstance(op, ast.NotIn) and isinstance(rhs, ast.Tuple):
            return sorted(_state_code(e, where) for e in rhs.elts)
        if isinstance(op, ast.Eq):
            x = _state_code(rhs, where)
            return [i for i in range(len(STATE_CODES)) if i != x]
    _fail(f'{where}: state guard `{ast.unparse(test)}` not understood')


def stream_entry(fn, where, first_is_guard=True):
    """(allowed states or None when the procedure has no guard, change_state targets in source order)"""
    tests = [s for s in fn.body if isinstance(s, ast.If) and 'self.state' in ast.unparse(s.test)]
    allowed = None
    if first_is_guard:
        if not tests:
            _fail(f'{where}: no state guard found')
        # the guard proper is the last top-level state test before the first await / change_state
        # (Stream.start has an auto-open test first)
        guards = []
        for s in tests:
            body0 = s.body[0]
            if isinstance(body0, (ast.Raise, ast.Return)):
                guards.append(s)
        if len(guards) != 1:
            _fail(f'{where}: expected exactly one refusing state guard, found {len(guards)}')
        allowed = _guard_allowed(guards[0].test, where)
    targets = []
    for n in ast.walk(fn):
        if isinstance(n, ast.Call) and ast.unparse(n.func) == 'self.change_state' and len(n.args) == 1:
            targets.append((n.lineno, n.col_offset, _state_code(n.args[0], where)))
    targets = [t for _, _, t in sorted(targets)]
    return allowed, targets


def _zlist(xs):
    return '[' + '; '.join(str(x) for x in xs) + ']'


# ----------------------------------------------------------------------------- main
def translate(repo):
    from bumble import avctp, avdtp, sdp
    out = ['(* GENERATED by tools/translate/c19_shape.py from bumble/sdp.py, bumble/avdtp.py, bumble/avctp.py.',
           '   Do not edit: rewritten on every run of ./check C19. *)',
           'From Coq Require Import ZArith List Bool.', 'Import ListNotations.', 'Open Scope Z_scope.', '']
    info = {}
    S = Source(repo, 'bumble/sdp.py')
    A = Source(repo, 'bumble/avdtp.py')
    C = Source(repo, 'bumble/avctp.py')

    # ---------------------------------------------------------------- SDP arithmetic
    out.append('(* ---- bumble/sdp.py ---- *)')
    fn = S.func('Server', 'on_sdp_service_search_request')
    e = _assign_value(fn, 'maximum_service_record_count')
    out.append(_def('g_sdp_search_per', ['mtu'], 'Z', coq_expr(e, {'self.channel.peer_mtu': 'mtu'}, fn.name)))
    # the two slices of the handle list use that count
    rem = _slice_bounds(_assign_value(fn, 'service_record_handles_remaining'), fn.name)
    now = _slice_bounds(_assign_value(fn, 'service_record_handles', 1), fn.name)
    if not (rem[0] == 'service_record_handles' and rem[2] is None and ast.unparse(rem[1]) == 'maximum_service_record_count'
            and now[0] == 'service_record_handles' and now[1] is None and ast.unparse(now[2]) == 'maximum_service_record_count'):
        _fail(f'{fn.name}: the handle list is no longer cut at maximum_service_record_count')
    sub = _slice_bounds(_assign_value(fn, 'service_record_handles_subset'), fn.name)
    if not (sub[1] is None and ast.unparse(sub[2]) == 'request.maximum_service_record_count'):
        _fail(f'{fn.name}: the subset is no longer service_record_handles[:request.maximum_service_record_count]')
    for name, g in (('on_sdp_service_attribute_request', 'g_sdp_attr_budget'),
                    ('on_sdp_service_search_attribute_request', 'g_sdp_sattr_budget')):
        fn = S.func('Server', name)
        e = _assign_value(fn, 'maximum_attribute_byte_count')
        out.append(_def(g, ['mb', 'mtu'], 'Z',
                        coq_expr(e, {'request.maximum_attribute_byte_count': 'mb', 'self.channel.peer_mtu': 'mtu'}, name)))
    fn = S.func('Server', 'get_next_response_payload')
    t = _find_test(fn, 'len(self.current_response)')
    out.append(_def('g_sdp_more', ['len', 'mx'], 'bool', coq_expr(t, {'len(self.current_response)': 'len', 'maximum_size': 'mx'}, fn.name)))
    p = _slice_bounds(_assign_value(fn, 'payload', 0), fn.name)
    r = _slice_bounds(_assign_value(fn, 'self.current_response', 0), fn.name)
    if not (p[0] == 'self.current_response' and p[1] is None and r[0] == 'self.current_response' and r[2] is None):
        _fail(f'{fn.name}: payload / remainder slices changed shape')
    out.append(_def('g_sdp_payload_end', ['mx'], 'Z', coq_expr(p[2], {'maximum_size': 'mx'}, fn.name)))
    out.append(_def('g_sdp_rest_start', ['mx'], 'Z', coq_expr(r[1], {'maximum_size': 'mx'}, fn.name)))
    fn = S.func('Server', 'check_continuation')
    t = _find_test(fn, 'len(continuation_state)')
    out.append(_def('g_sdp_is_continuation', ['len'], 'bool', coq_expr(t, {'len(continuation_state)': 'len'}, fn.name)))
    fn = S.func('Server', 'get_service_attributes')
    t = _find_test(fn, 'attribute_id.value_size')
    out.append(_def('g_sdp_is_range', ['vs'], 'bool', coq_expr(t, {'attribute_id.value_size': 'vs'}, fn.name)))
    out.append(_def('g_sdp_id_lo', ['v'], 'Z', coq_expr(_assign_value(fn, 'id_range_start', 0), {'attribute_id.value': 'v'}, fn.name)))
    out.append(_def('g_sdp_id_hi', ['v'], 'Z', coq_expr(_assign_value(fn, 'id_range_end', 0), {'attribute_id.value': 'v'}, fn.name)))
    comps = _subexprs(fn, ast.ListComp)
    if len(comps) != 1 or len(comps[0].generators) != 1 or len(comps[0].generators[0].ifs) != 1:
        _fail(f'{fn.name}: attribute selection comprehension changed shape')
    out.append(_def('g_sdp_in_range', ['id', 'lo', 'hi'], 'bool',
                    coq_expr(comps[0].generators[0].ifs[0],
                             {'attribute.id': 'id', 'id_range_start': 'lo', 'id_range_end': 'hi'}, fn.name)))
    # on_channel_close: the saved entry of the closing channel is dropped unconditionally, and the served state
    # (channel, current_response) is reset exactly when the closing channel is the one being served
    fn = S.func('Server', 'on_channel_close')
    body = [st for st in fn.body if not _is_logging(st) and not _is_docstring(st)]
    pop_uncond = int(len(body) >= 1 and isinstance(body[0], ast.Expr)
                     and ast.unparse(body[0].value) == 'self.pending_responses.pop(channel, None)')
    ifs = [st for st in body if isinstance(st, ast.If)]
    guard_current = int(len(ifs) == 1 and ast.unparse(ifs[0].test) == 'channel is self.channel' and not ifs[0].orelse)
    resets = [ast.unparse(x) for x in ifs[0].body] if len(ifs) == 1 else []
    out.append(f"Definition g_sdp_close_shape : list Z := {_zlist([pop_uncond, guard_current, int('self.channel = None' in resets), int('self.current_response = None' in resets), len(body)])}."
               '   (* pop unconditional, guard is `channel is self.channel`, resets channel, resets current_response, statements *)')
    # client loops: request constants and the termination test
    consts = {}
    for meth, kw in (('search_services', 'maximum_service_record_count'), ('search_attributes', 'maximum_attribute_byte_count'),
                     ('get_attributes', 'maximum_attribute_byte_count')):
        fn = S.func('Client', meth)
        vals = [k.value for n in ast.walk(fn) if isinstance(n, ast.Call) for k in n.keywords if k.arg == kw]
        if len(vals) != 1:
            _fail(f'Client.{meth}: keyword {kw} not found exactly once')
        consts[f'g_sdp_client_{meth}_max'] = _int_const(vals[0], meth)
        if _bytes_literal(_assign_value(fn, 'continuation_state', 0), meth) != [0]:
            _fail(f'Client.{meth}: initial continuation state is not bytes([0])')
        if ast.unparse(_assign_value(fn, 'watchdog', 0)) != 'SDP_CONTINUATION_WATCHDOG':
            _fail(f'Client.{meth}: watchdog is not initialised from SDP_CONTINUATION_WATCHDOG')
        t = _find_test(fn, 'len(continuation_state)')
        if meth == 'search_services':
            out.append(_def('g_sdp_client_done', ['len', 'b0'], 'bool',
                            coq_expr(t, {'len(continuation_state)': 'len', 'continuation_state[0]': 'b0'}, meth)))
        elif coq_expr(t, {'len(continuation_state)': 'len', 'continuation_state[0]': 'b0'}, meth) != \
                coq_expr(_find_test(S.func('Client', 'search_services'), 'len(continuation_state)'),
                         {'len(continuation_state)': 'len', 'continuation_state[0]': 'b0'}, meth):
            _fail(f'Client.{meth}: termination test differs from search_services')
    consts['g_sdp_watchdog'] = _int_const(S.module_const('SDP_CONTINUATION_WATCHDOG'), 'SDP_CONTINUATION_WATCHDOG')
    if consts['g_sdp_watchdog'] != sdp.SDP_CONTINUATION_WATCHDOG:
        _fail('SDP_CONTINUATION_WATCHDOG: source and module disagree')
    for k, v in consts.items():
        out.append(f'Definition {k} : Z := {v}.')
    out.append(f"Definition g_sdp_continuation_state : list Z := {_zlist(_bytes_literal(S.class_const('Server', 'CONTINUATION_STATE'), 'CONTINUATION_STATE'))}.")
    # error codes sent by each function (in source order) and their values
    def codes(cls, meth):
        fn_ = S.func(cls, meth)
        found = [(n.lineno, n.col_offset, n.attr) for n in ast.walk(fn_)
                 if isinstance(n, ast.Attribute) and ast.unparse(n.value) == 'ErrorCode']
        return [int(getattr(sdp.ErrorCode, a)) for _, _, a in sorted(found)]
    for meth in ('check_continuation', 'on_sdp_service_search_request', 'on_sdp_service_attribute_request',
                 'on_sdp_service_search_attribute_request', 'on_pdu'):
        out.append(f'Definition g_sdp_errors_{meth} : list Z := {_zlist(codes("Server", meth))}.')
    out.append(f'Definition g_sdp_pdu_ids : list Z := {_zlist([int(x) for x in sdp.PduId])}.')

    # ---------------------------------------------------------------- AVDTP arithmetic
    out += ['', '(* ---- bumble/avdtp.py ---- *)']
    fn = A.func('Protocol', 'send_message')
    env = {'self.l2cap_channel.peer_mtu': 'mtu', 'len(payload)': 'len', 'max_fragment_size': 'F',
           'transaction_label': 'label', 'packet_type': 'pt', 'message.message_type': 'mt'}
    out.append(_def('g_avdtp_fragment_size', ['mtu'], 'Z', coq_expr(_assign_value(fn, 'max_fragment_size'), env, fn.name)))
    out.append(_def('g_avdtp_single', ['len', 'mtu'], 'bool', coq_expr(_find_test(fn, 'len(payload) + 2'), env, fn.name)))
    out.append(_def('g_avdtp_packet_count', ['F', 'len'], 'Z', coq_expr(_assign_value(fn, 'packet_count'), env, fn.name)))
    out.append(_def('g_avdtp_header', ['label', 'pt', 'mt'], 'Z', coq_expr(_assign_value(fn, 'first_header_byte'), env, fn.name)))
    ifexps = _subexprs(fn, ast.IfExp)
    if len(ifexps) != 1 or 'CONTINUE_PACKET' not in ast.unparse(ifexps[0].body) or 'END_PACKET' not in ast.unparse(ifexps[0].orelse):
        _fail('send_message: the CONTINUE / END choice changed shape')
    out.append(_def('g_avdtp_continue', ['len', 'F'], 'bool', coq_expr(ifexps[0].test, env, fn.name)))
    # the packet payload is payload[:F] and the remainder payload[F:]
    writes = [n for n in ast.walk(fn) if isinstance(n, ast.Call) and ast.unparse(n.func) == 'self.l2cap_channel.write']
    if sorted(ast.unparse(w.args[0]) for w in writes) != ['header + payload', 'header + payload[:max_fragment_size]']:
        _fail(f'send_message: writes are {[ast.unparse(w.args[0]) for w in writes]}')
    if ast.unparse(_assign_value(fn, 'payload', 1)) != 'payload[max_fragment_size:]':
        _fail('send_message: the remainder is no longer payload[max_fragment_size:]')
    hdrs = [ast.unparse(_assign_value(fn, 'header', i)) for i in range(3)]
    if hdrs != ['bytes([first_header_byte, message.signal_identifier])',
                'bytes([first_header_byte, message.signal_identifier, packet_count])', 'bytes([first_header_byte])']:
        _fail(f'send_message: packet headers changed: {hdrs}')
    out.append(f'Definition g_avdtp_packet_types : list Z := {_zlist([int(x) for x in avdtp.Protocol.PacketType])}.')
    out.append(f'Definition g_avdtp_state_codes : list Z := {_zlist([int(getattr(avdtp.State, n)) for n in STATE_CODES])}.')

    fn = A.func('MessageAssembler', 'on_pdu')
    env = {'pdu[0]': 'b0', 'pdu[1]': 'b1', 'len(pdu)': 'len', 'self.packet_count': 'cnt', 'self.number_of_signal_packets': 'nsp'}
    out.append(_def('g_avdtp_label', ['b0'], 'Z', coq_expr(_assign_value(fn, 'transaction_label'), env, fn.name)))
    pt = _assign_value(fn, 'packet_type')
    mt = _assign_value(fn, 'message_type')
    if not (isinstance(pt, ast.Call) and ast.unparse(pt.func) == 'Protocol.PacketType' and isinstance(mt, ast.Call)
            and ast.unparse(mt.func) == 'Message.MessageType'):
        _fail('MessageAssembler.on_pdu: packet / message type decoding changed shape')
    out.append(_def('g_avdtp_packet_type', ['b0'], 'Z', coq_expr(pt.args[0], env, fn.name)))
    out.append(_def('g_avdtp_message_type', ['b0'], 'Z', coq_expr(mt.args[0], env, fn.name)))
    sig = _assign_value(fn, 'self.signal_identifier')
    if not (isinstance(sig, ast.Call) and ast.unparse(sig.func) == 'SignalIdentifier'):
        _fail('MessageAssembler.on_pdu: signal identifier decoding changed shape')
    out.append(_def('g_avdtp_signal', ['b1'], 'Z', coq_expr(sig.args[0], env, fn.name)))
    lens = [t for t in _if_tests(fn) if 'len(pdu)' in ast.unparse(t)]
    if len(lens) != 2:
        _fail(f'MessageAssembler.on_pdu: expected two length guards, found {len(lens)}')
    out.append(_def('g_avdtp_too_short', ['len'], 'bool', coq_expr(lens[0], env, fn.name)))
    second = lens[1]
    if not (isinstance(second, ast.BoolOp) and isinstance(second.op, ast.And) and 'START_PACKET' in ast.unparse(second.values[0])):
        _fail('MessageAssembler.on_pdu: START length guard changed shape')
    out.append(_def('g_avdtp_start_too_short', ['len'], 'bool', coq_expr(second.values[1], env, fn.name)))
    out.append(_def('g_avdtp_end_bad', ['cnt', 'nsp'], 'bool', coq_expr(_find_test(fn, 'self.packet_count != self.number_of_signal_packets'), env, fn.name)))
    out.append(_def('g_avdtp_continue_bad', ['cnt', 'nsp'], 'bool', coq_expr(_find_test(fn, 'self.packet_count > self.number_of_signal_packets'), env, fn.name)))
    offs = []
    for tgt, which in (('self.message', 0), ('self.message', 1)):
        b = _slice_bounds(_assign_value(fn, tgt, which), fn.name)
        if b[0] != 'pdu' or b[2] is not None:
            _fail('MessageAssembler.on_pdu: message slice changed shape')
        offs.append(_int_const(b[1], fn.name))
    tail = _assign_value(fn, 'self.message', 2)
    if ast.unparse(tail) != "(self.message or b'') + pdu[1:]":
        _fail(f'MessageAssembler.on_pdu: continuation append is `{ast.unparse(tail)}`')
    out.append(f'Definition g_avdtp_body_offsets : list Z := {_zlist(offs + [1])}.   (* SINGLE, START, CONTINUE/END *)')
    if ast.unparse(_assign_value(fn, 'self.packet_count', 0)) != '1':
        _fail('MessageAssembler.on_pdu: packet_count is not restarted at 1')
    if ast.unparse(_assign_value(fn, 'self.number_of_signal_packets', 0)) != 'pdu[2]':
        _fail('MessageAssembler.on_pdu: number_of_signal_packets is not pdu[2]')

    # ---------------------------------------------------------------- AVCTP arithmetic
    out += ['', '(* ---- bumble/avctp.py ---- *)']
    fn = C.func('MessageAssembler', 'on_pdu')
    env = {'pdu[0]': 'b0', 'self.packets_received': 'rcv', 'self.number_of_packets': 'nop', 'c_r': 'cr', 'ipid': 'ipid',
           'pid_offset': 'off'}
    out.append(_def('g_avctp_label', ['b0'], 'Z', coq_expr(_assign_value(fn, 'transaction_label'), env, fn.name)))
    pt = _assign_value(fn, 'packet_type')
    if not (isinstance(pt, ast.Call) and ast.unparse(pt.func) == 'Protocol.PacketType'):
        _fail('avctp on_pdu: packet type decoding changed shape')
    out.append(_def('g_avctp_packet_type', ['b0'], 'Z', coq_expr(pt.args[0], env, fn.name)))
    out.append(_def('g_avctp_cr', ['b0'], 'Z', coq_expr(_assign_value(fn, 'c_r'), env, fn.name)))
    out.append(_def('g_avctp_ipid', ['b0'], 'Z', coq_expr(_assign_value(fn, 'ipid'), env, fn.name)))
    out.append(_def('g_avctp_invalid_ipid', ['cr', 'ipid'], 'bool', coq_expr(_find_test(fn, 'ipid != 0'), env, fn.name)))
    out.append(_def('g_avctp_too_many', ['rcv', 'nop'], 'bool', coq_expr(_find_test(fn, 'self.packets_received > self.number_of_packets'), env, fn.name)))
    out.append(_def('g_avctp_premature_end', ['rcv', 'nop'], 'bool', coq_expr(_find_test(fn, 'self.packets_received != self.number_of_packets'), env, fn.name)))
    offsets = [_int_const(_assign_value(fn, 'pid_offset', i), fn.name) for i in range(2)]
    out.append(f'Definition g_avctp_pid_offsets : list Z := {_zlist(offsets)}.   (* SINGLE / CONTINUE / END, START *)')
    unpack = [n for n in ast.walk(fn) if isinstance(n, ast.Call) and ast.unparse(n.func) == 'struct.unpack_from']
    if len(unpack) != 1 or [ast.unparse(a) for a in unpack[0].args] != ["'>H'", 'pdu', 'pid_offset']:
        _fail('avctp on_pdu: the PID is no longer read with struct.unpack_from(">H", pdu, pid_offset)')
    aug = [s for s in _walk_stmts(fn) if isinstance(s, ast.AugAssign) and ast.unparse(s.target) == 'self.payload']
    if len(aug) != 1:
        _fail('avctp on_pdu: payload append changed shape')
    b = _slice_bounds(aug[0].value, fn.name)
    out.append(_def('g_avctp_body_start', ['off'], 'Z', coq_expr(b[1], env, fn.name)))
    if ast.unparse(_assign_value(fn, 'self.packets_received', 0)) != '1':
        _fail('avctp on_pdu: packets_received is not restarted at 1')
    if ast.unparse(_assign_value(fn, 'self.number_of_packets', 0)) != 'pdu[1]':
        _fail('avctp on_pdu: number_of_packets is not pdu[1]')
    out.append(f'Definition g_avctp_packet_types : list Z := {_zlist([int(x) for x in avctp.Protocol.PacketType])}.')

    # ---------------------------------------------------------------- AVDTP stream procedures
    out += ['', '(* ---- AVDTP stream procedures: (states in which the procedure goes ahead, change_state targets) ---- *)']
    initiator = ['configure', 'open', 'start', 'stop', 'close', 'abort']
    acceptor = ['on_set_configuration_command', 'on_open_command', 'on_start_command', 'on_suspend_command',
                'on_close_command', 'on_abort_command', 'on_get_configuration_command', 'on_reconfigure_command']
    rows = []
    for m in initiator:
        allowed, targets = stream_entry(A.func('Stream', m), f'Stream.{m}')
        rows.append(f'  ({_zlist(allowed)}, {_zlist(targets)})')
    out.append('Definition g_stream_initiator : list (list Z * list Z) := [\n' + ';\n'.join(rows) + '\n].'
               '   (* configure, open, start, stop, close, abort *)')
    rows = []
    for m in acceptor:
        allowed, targets = stream_entry(A.func('Stream', m), f'Stream.{m}', first_is_guard=(m != 'on_abort_command'))
        rows.append(f'  ({_zlist(allowed if allowed is not None else list(range(6)))}, {_zlist(targets)})')
    out.append('Definition g_stream_acceptor : list (list Z * list Z) := [\n' + ';\n'.join(rows) + '\n].'
               '   (* set_configuration, open, start, suspend, close, abort, get_configuration, reconfigure *)')
    # Stream.start opens first when CONFIGURED
    st = A.func('Stream', 'start')
    auto = [s for s in st.body if isinstance(s, ast.If) and ast.unparse(s.test) == 'self.state == State.CONFIGURED']
    if len(auto) != 1 or ast.unparse(auto[0].body[0]) != 'await self.open()':
        _fail('Stream.start: the auto-open on CONFIGURED changed shape')

    # ---------------------------------------------------------------- skeletons
    out += ['', '(* ---- statement skeletons (hash of each normalised statement; text in the comment) ---- *)']
    skels = [
        ('sdp_match_services', S.func('Server', 'match_services')),
        ('sdp_on_connection', S.func('Server', 'on_connection')),
        ('sdp_select_channel', S.func('Server', 'select_channel')),
        ('sdp_on_channel_pdu', S.func('Server', 'on_channel_pdu')),
        ('sdp_on_channel_close', S.func('Server', 'on_channel_close')),
        ('sdp_check_continuation', S.func('Server', 'check_continuation')),
        ('sdp_get_next_response_payload', S.func('Server', 'get_next_response_payload')),
        ('sdp_get_service_attributes', S.func('Server', 'get_service_attributes')),
        ('sdp_on_search', S.func('Server', 'on_sdp_service_search_request')),
        ('sdp_on_attribute', S.func('Server', 'on_sdp_service_attribute_request')),
        ('sdp_on_search_attribute', S.func('Server', 'on_sdp_service_search_attribute_request')),
        ('sdp_is_uuid_in_value', S.func('ServiceAttribute', 'is_uuid_in_value')),
        ('sdp_list_from_data_elements', S.func('ServiceAttribute', 'list_from_data_elements')),
        ('sdp_client_on_pdu', S.func('Client', 'on_pdu')),
        ('sdp_client_search_services', S.func('Client', 'search_services')),
        ('sdp_client_search_attributes', S.func('Client', 'search_attributes')),
        ('sdp_client_get_attributes', S.func('Client', 'get_attributes')),
        ('avdtp_asm_reset', A.func('MessageAssembler', 'reset')),
        ('avdtp_asm_on_pdu', A.func('MessageAssembler', 'on_pdu')),
        ('avdtp_asm_on_message_complete', A.func('MessageAssembler', 'on_message_complete')),
        ('avdtp_send_message', A.func('Protocol', 'send_message')),
        ('avctp_asm_reset', C.func('MessageAssembler', 'reset')),
        ('avctp_asm_on_pdu', C.func('MessageAssembler', 'on_pdu')),
        ('avctp_asm_on_message_complete', C.func('MessageAssembler', 'on_message_complete')),
    ]
    for m in initiator + acceptor + ['on_l2cap_connection', 'on_l2cap_channel_close']:
        skels.append((f'avdtp_stream_{m}', A.func('Stream', m)))
    for m in ['on_set_configuration_command', 'on_open_command', 'on_start_command', 'on_suspend_command',
              'on_close_command', 'on_abort_command', 'on_get_configuration_command', 'on_reconfigure_command',
              'on_delayreport_command', 'on_l2cap_connection']:
        skels.append((f'avdtp_protocol_{m}', A.func('Protocol', m)))
    names = []
    texts = {}
    for name, fn in skels:
        lines = skeleton(fn)
        texts[name] = lines
        out.append(skel_def('g_skel_' + name, lines))
        names.append(name)
    out.append('Definition g_skeletons : list Z := [' + '; '.join('g_skel_' + n for n in names) + '].')
    out.append('')
    info['skeleton_functions'] = len(names)
    info['skeleton_statements'] = sum(len(v) for v in texts.values())
    info['names'] = names
    info['texts'] = texts
    return '\n'.join(out), info
