"""C08 translator 2: the SHAPE of the anchored functions of bumble/l2cap.py and bumble/utils.py
-> coq/Gen/C08Shape.v

For every function the hand-written models Model/Ertm.v, Model/L2capConfig.v and Model/Crc16.v
were read from, the current source is parsed (ast) and reduced to a skeleton: the ordered list of
its control-flow tests, assignments, returns / raises and non-logging calls, each unparsed to
canonical text (ast.unparse: whitespace, parentheses and comments are normalised away; logging
calls, docstrings, `pass` and message strings are dropped).  The skeleton therefore contains every
constant, comparison operator and bound of the sequence / window / segmentation arithmetic, the
order in which _update_ack_seq, _process_output, on_sdu, _send_s_frame ... are called on each
branch, the state each handler moves to and the options each request carries.

Props/C08.v proves `C08_shape_matches_source`: the regenerated skeletons equal the recorded
reading Model/L2capShape.v (the text the models were written against).  An edit to the shape of
one of these functions breaks that obligation even if no generated input exercises the edit; the
failing theorem names the function and the first differing line.

Fail closed: a listed function that cannot be found, or a statement kind the reducer does not
know, aborts the check.
"""
from __future__ import annotations

import ast
import importlib
import inspect

# (module, qualified name).  Deliberately NOT listed: ClassicChannel.on_disconnection_request /
# _response and the ChannelManager routing / create_classic_channel - the models read them, but they
# belong to property C09 (channel tables, waiters), whose repairs reshape them; they stay tied by
# the exhaustive set-up correspondence only.
FUNCTIONS = [
    ('bumble.utils', 'crc_16'),
    ('bumble.l2cap', 'L2CAP_PDU.from_bytes'),
    ('bumble.l2cap', 'L2CAP_PDU.to_bytes'),
    ('bumble.l2cap', 'EnhancedControlField.from_bytes'),
    ('bumble.l2cap', 'InformationEnhancedControlField.from_bytes'),
    ('bumble.l2cap', 'InformationEnhancedControlField.__bytes__'),
    ('bumble.l2cap', 'SupervisoryEnhancedControlField.from_bytes'),
    ('bumble.l2cap', 'SupervisoryEnhancedControlField.__bytes__'),
    ('bumble.l2cap', 'Processor.send_sdu'),
    ('bumble.l2cap', 'Processor.on_pdu'),
    ('bumble.l2cap', 'EnhancedRetransmissionProcessor._PendingPdu.__bytes__'),
    ('bumble.l2cap', 'EnhancedRetransmissionProcessor.__init__'),
    ('bumble.l2cap', 'EnhancedRetransmissionProcessor._monitor'),
    ('bumble.l2cap', 'EnhancedRetransmissionProcessor._receiver_ready_poll'),
    ('bumble.l2cap', 'EnhancedRetransmissionProcessor._start_monitor'),
    ('bumble.l2cap', 'EnhancedRetransmissionProcessor._start_receiver_ready_poll'),
    ('bumble.l2cap', 'EnhancedRetransmissionProcessor._send_receiver_ready_poll'),
    ('bumble.l2cap', 'EnhancedRetransmissionProcessor._get_next_tx_seq'),
    ('bumble.l2cap', 'EnhancedRetransmissionProcessor.send_sdu'),
    ('bumble.l2cap', 'EnhancedRetransmissionProcessor.on_pdu'),
    ('bumble.l2cap', 'EnhancedRetransmissionProcessor._process_output'),
    ('bumble.l2cap', 'EnhancedRetransmissionProcessor._send_i_frame'),
    ('bumble.l2cap', 'EnhancedRetransmissionProcessor._send_s_frame'),
    ('bumble.l2cap', 'EnhancedRetransmissionProcessor._update_ack_seq'),
    ('bumble.l2cap', 'ClassicChannel.__init__'),
    ('bumble.l2cap', 'ClassicChannel.write'),
    ('bumble.l2cap', 'ClassicChannel.send_pdu'),
    ('bumble.l2cap', 'ClassicChannel.on_pdu'),
    ('bumble.l2cap', 'ClassicChannel.on_sdu'),
    ('bumble.l2cap', 'ClassicChannel.connect'),
    ('bumble.l2cap', 'ClassicChannel._disconnect_sync'),
    ('bumble.l2cap', 'ClassicChannel._abort_connection_result'),
    ('bumble.l2cap', 'ClassicChannel.send_configure_request'),
    ('bumble.l2cap', 'ClassicChannel.on_connection_request'),
    ('bumble.l2cap', 'ClassicChannel.on_connection_response'),
    ('bumble.l2cap', 'ClassicChannel.on_configure_request'),
    ('bumble.l2cap', 'ClassicChannel.on_configure_response'),
    ('bumble.l2cap', 'ChannelManager.make_mode_processor'),
]


class _Blank(ast.NodeTransformer):
    """Message strings (anything with a space) and f-strings carry no behaviour."""

    def visit_JoinedStr(self, node):
        return ast.Constant(value='_')

    def visit_Constant(self, node):
        if isinstance(node.value, str) and (' ' in node.value or len(node.value) > 24):
            return ast.Constant(value='_')
        return node


def _u(node) -> str:
    return ast.unparse(_Blank().visit(ast.fix_missing_locations(node))) if node is not None else ''


def _is_logging(call) -> bool:
    f = call.func
    while isinstance(f, ast.Attribute):
        f = f.value
    return isinstance(f, ast.Name) and f.id in ('logger', 'logging')


def _reduce(stmts, out, where):
    for st in stmts:
        if isinstance(st, ast.Pass):
            continue
        if isinstance(st, ast.Expr):
            v = st.value
            if isinstance(v, ast.Constant) and isinstance(v.value, str):
                continue  # docstring
            if isinstance(v, ast.Call):
                if _is_logging(v):
                    continue
                out.append('call ' + _u(v))
            elif isinstance(v, ast.Await):
                out.append('await ' + _u(v.value))
            else:
                out.append('expr ' + _u(v))
        elif isinstance(st, ast.Assign):
            out.append('set ' + ', '.join(_u(t) for t in st.targets) + ' = ' + _u(st.value))
        elif isinstance(st, ast.AugAssign):
            out.append('set ' + _u(st.target) + ' ' + type(st.op).__name__ + '= ' + _u(st.value))
        elif isinstance(st, ast.AnnAssign):
            if st.value is not None:
                out.append('set ' + _u(st.target) + ' = ' + _u(st.value))
        elif isinstance(st, ast.Return):
            out.append('return ' + _u(st.value))
        elif isinstance(st, ast.Raise):
            exc = st.exc
            name = _u(exc.func) if isinstance(exc, ast.Call) else _u(exc)
            out.append('raise ' + name)
        elif isinstance(st, ast.Delete):
            out.append('del ' + ', '.join(_u(t) for t in st.targets))
        elif isinstance(st, ast.If):
            out.append('if ' + _u(st.test))
            _reduce(st.body, out, where)
            if st.orelse:
                out.append('else')
                _reduce(st.orelse, out, where)
            out.append('end')
        elif isinstance(st, (ast.For, ast.AsyncFor)):
            out.append('for ' + _u(st.target) + ' in ' + _u(st.iter))
            _reduce(st.body, out, where)
            if st.orelse:
                out.append('else')
                _reduce(st.orelse, out, where)
            out.append('end')
        elif isinstance(st, ast.While):
            out.append('while ' + _u(st.test))
            _reduce(st.body, out, where)
            out.append('end')
        elif isinstance(st, ast.Match):
            out.append('match ' + _u(st.subject))
            for case in st.cases:
                out.append('case ' + _u(case.pattern) + (' if ' + _u(case.guard) if case.guard else ''))
                _reduce(case.body, out, where)
            out.append('end')
        elif isinstance(st, ast.Try):
            out.append('try')
            _reduce(st.body, out, where)
            for h in st.handlers:
                out.append('except ' + _u(h.type))
                _reduce(h.body, out, where)
            if st.orelse:
                out.append('else')
                _reduce(st.orelse, out, where)
            if st.finalbody:
                out.append('finally')
                _reduce(st.finalbody, out, where)
            out.append('end')
        elif isinstance(st, (ast.With, ast.AsyncWith)):
            out.append('with ' + ', '.join(_u(i.context_expr) for i in st.items))
            _reduce(st.body, out, where)
            out.append('end')
        elif isinstance(st, (ast.Break, ast.Continue)):
            out.append(type(st).__name__.lower())
        elif isinstance(st, (ast.FunctionDef, ast.AsyncFunctionDef)):
            out.append('def ' + st.name + '(' + _u(st.args) + ')')
            _reduce(st.body, out, where)
            out.append('end')
        else:
            raise ValueError(f'c08_shape: {where}: statement kind {type(st).__name__} is not handled')


def _find(tree, qual):
    node = tree
    for part in qual.split('.'):
        found = None
        for child in getattr(node, 'body', []):
            if isinstance(child, (ast.ClassDef, ast.FunctionDef, ast.AsyncFunctionDef)) and child.name == part:
                found = child
        if found is None:
            raise ValueError(f'c08_shape: {qual} not found in the source (at {part})')
        node = found
    if not isinstance(node, (ast.FunctionDef, ast.AsyncFunctionDef)):
        raise ValueError(f'c08_shape: {qual} is not a function')
    return node


def skeletons():
    trees = {}
    out = []
    for mod, qual in FUNCTIONS:
        if mod not in trees:
            m = importlib.import_module(mod)
            trees[mod] = ast.parse(inspect.getsource(m))
        fn = _find(trees[mod], qual)
        lines = ['def(' + ', '.join(a.arg + ('=' + _u(d) if d is not None else '')
                                    for a, d in _args_with_defaults(fn.args)) + ')']
        _reduce(fn.body, lines, qual)
        out.append((qual, lines))
    return out


def _args_with_defaults(args):
    pos = list(args.posonlyargs) + list(args.args)
    defaults = [None] * (len(pos) - len(args.defaults)) + list(args.defaults)
    res = list(zip(pos, defaults))
    res += list(zip(args.kwonlyargs, args.kw_defaults))
    return res


def coq_string(s: str) -> str:
    if any(ord(c) > 126 or ord(c) < 32 for c in s):
        raise ValueError(f'c08_shape: non-printable / non-ASCII character in {s!r}')
    return '"' + s.replace('"', '""') + '"'


def render(name: str, skel, comment: str) -> str:
    out = [comment, 'From Coq Require Import List String.', 'Import ListNotations.', 'Open Scope string_scope.', '',
           f'Definition {name} : list (string * list string) :=', '  [']
    items = []
    for qual, lines in skel:
        items.append('   (' + coq_string(qual) + ',\n    [' + ';\n     '.join(coq_string(l) for l in lines) + '])')
    out.append(';\n'.join(items))
    out.append('  ].')
    out.append('')
    return '\n'.join(out)


def generate() -> str:
    return render('src_shape', skeletons(),
                  '(* GENERATED by tools/translate/c08_shape.py from bumble/l2cap.py, bumble/utils.py - do not edit *)')


if __name__ == '__main__':
    # prints the text of coq/Model/L2capShape.v for the tree on PYTHONPATH (used once, by hand,
    # to record the reading; afterwards the file is maintained by hand together with the models)
    print(render('model_shape', skeletons(),
                 '(* The reading of bumble/l2cap.py and bumble/utils.py that Model/Ertm.v, Model/L2capConfig.v and\n'
                 '   Model/Crc16.v were written against: one skeleton per function (see tools/translate/c08_shape.py\n'
                 '   for the reduction).  Props/C08.v proves that the skeletons regenerated from the current source\n'
                 '   equal these.  When one differs, re-read the function, update the model and its proofs, and only\n'
                 '   then this file.  No proofs here. *)'))
