"""C18 translator: the SOURCE TEXT of every custom field parser / serializer of the PDU registries
-> coq/Gen/C18FieldSrc.v   (fail closed)

For every field of every class of L2CAP_Control_Frame.classes, ATT_PDU.pdu_classes,
SMP_Command.smp_classes, SDP_PDU.subclasses, avdtp.Message.subclasses and the avrcp
Command / Response / Event registries whose spec is a parser / serializer pair (lambdas or named
callables other than SpecableEnum / SpecableFlag.type_spec), the normalised source
(ast.unparse of the lambda / function, docstring and comments dropped) of the parser, of the
serializer, and of every function of the same module they call by name, keyed by
"<module>:<qualified name or lambda position-independent id>".  Model/CodecsFieldSrc.v records the
texts the field-codec models (Model/CodecsXfields.v) were written from; Props/C18.v checks equality
on every run (`C18_field_codecs_match_source`).  Replacing a lambda by a method, or changing a
method's body, changes the text and breaks the obligation whether or not a generated input notices.
"""
from __future__ import annotations

import ast
import functools
import inspect
import sys
import textwrap

from translate import c18_registries as R


class SrcError(Exception):
    pass


_MOD_AST = {}


def _module_ast(mod):
    if mod.__name__ not in _MOD_AST:
        _MOD_AST[mod.__name__] = ast.parse(inspect.getsource(mod))
    return _MOD_AST[mod.__name__]


def _strip_doc(fn_node):
    if fn_node.body and isinstance(fn_node.body[0], ast.Expr) and isinstance(getattr(fn_node.body[0], 'value', None), ast.Constant) \
            and isinstance(fn_node.body[0].value.value, str):
        fn_node.body = fn_node.body[1:] or [ast.Pass()]
    return fn_node


def _lambda_node(fn):
    mod = sys.modules[fn.__module__]
    code = fn.__code__
    want_args = list(code.co_varnames[:code.co_argcount])
    cands = [n for n in ast.walk(_module_ast(mod)) if isinstance(n, ast.Lambda) and n.lineno == code.co_firstlineno
             and [a.arg for a in n.args.args] == want_args]
    texts = sorted({ast.unparse(n) for n in cands})
    if len(texts) != 1:
        raise SrcError(f'{fn.__module__}: cannot locate the lambda at line {code.co_firstlineno} unambiguously ({len(texts)} candidates)')
    return cands[0]


def _callable_text(f):
    """-> (normalised text, AST node)"""
    if isinstance(f, functools.partial):
        t, node = _callable_text(f.func)
        kw = ', '.join(f'{k}={v!r}' for k, v in sorted(f.keywords.items()))
        return f'partial({t}; {kw})', node
    f = getattr(f, '__func__', f)
    if getattr(f, '__name__', '') == '<lambda>':
        node = _lambda_node(f)
        return ast.unparse(node), node
    src = textwrap.dedent(inspect.getsource(f))
    node = ast.parse(src).body[0]
    if not isinstance(node, (ast.FunctionDef, ast.AsyncFunctionDef)):
        raise SrcError(f'{f!r}: not a function')
    node.decorator_list = []
    return ast.unparse(_strip_doc(node)), node


def _called(node, mod):
    """functions of the same module called by name inside node: Name(...) and Class.method(...)"""
    out = {}
    for n in ast.walk(node):
        if not isinstance(n, ast.Call):
            continue
        f = n.func
        target = None
        if isinstance(f, ast.Name) and hasattr(mod, f.id):
            target = (f.id, getattr(mod, f.id))
        elif isinstance(f, ast.Attribute) and isinstance(f.value, ast.Name) and hasattr(mod, f.value.id) \
                and inspect.isclass(getattr(mod, f.value.id)) and hasattr(getattr(mod, f.value.id), f.attr):
            target = (f'{f.value.id}.{f.attr}', getattr(getattr(mod, f.value.id), f.attr))
        elif isinstance(f, ast.Attribute) and isinstance(f.value, ast.Name) and f.value.id == 'cls':
            continue
        if target and (inspect.isfunction(getattr(target[1], '__func__', target[1])) and
                       getattr(getattr(target[1], '__func__', target[1]), '__module__', None) == mod.__name__):
            out[target[0]] = target[1]
    return out


def collect():
    """{key: text} for every custom field codec of the registries"""
    out = {}
    for e in R.registries():
        cls = e.cls
        mod = sys.modules[cls.__module__]
        flat = []
        for f in cls.fields:
            flat.extend(f if isinstance(f, list) else [f])
        for name, spec in flat:
            pairs = []
            if isinstance(spec, dict) and spec.get('parser') is not None:
                q = R._qual(spec['parser'])
                if q.endswith('type_spec.<locals>.<lambda>'):
                    continue
                pairs = [('parser', spec['parser']), ('serializer', spec.get('serializer'))]
            elif callable(spec):
                pairs = [('parser', spec)]
            for role, fn in pairs:
                if fn is None:
                    raise SrcError(f'{cls.__name__}.{name}: parser without serializer')
                text, node = _callable_text(fn)
                out[f'{mod.__name__}:{cls.__name__}.{name}.{role}'] = text
                fmod = sys.modules.get(getattr(getattr(fn, 'func', fn), '__module__', mod.__name__), mod)
                for cname, cfn in sorted(_called(node, fmod).items()):
                    ctext, cnode = _callable_text(cfn)
                    out[f'{fmod.__name__}:{cname}'] = ctext
                    for c2, f2 in sorted(_called(cnode, fmod).items()):
                        out.setdefault(f'{fmod.__name__}:{c2}', _callable_text(f2)[0])
    # the SDP data element parser and serialiser themselves (their control flow carries the nesting
    # counter; Model/CodecsSdp.v and Model/CodecsSdpState.v were written from these texts)
    from bumble import sdp
    for key, fn in (('bumble.sdp:DataElementParser._list_from_bytes', sdp.DataElementParser._list_from_bytes),
                    ('bumble.sdp:DataElementParser.parse_next', sdp.DataElementParser.parse_next),
                    ('bumble.sdp:DataElementParser.__init__', sdp.DataElementParser.__init__),
                    ('bumble.sdp:DataElement.__bytes__', sdp.DataElement.__bytes__)):
        out[key] = _callable_text(fn)[0]
    return dict(sorted(out.items()))


def coq_string(s):
    if any(ord(c) > 126 or (ord(c) < 32 and c != '\n') for c in s):
        raise SrcError('non-printable character in a source text')
    return '"' + s.replace('"', '""') + '"'


def generate(defname='field_codec_sources_src'):
    items = collect()
    out = ['(* GENERATED by tools/translate/c18_fieldsrc.py from bumble/{l2cap,att,smp,sdp,avdtp,avrcp,core,hci}.py - do not edit *)',
           'From Coq Require Import List String.', 'Import ListNotations.', 'Local Open Scope string_scope.', '',
           f'Definition {defname} : list (string * string) := [']
    out.append(';\n'.join(f'  ({coq_string(k)},\n   {coq_string(v)})' for k, v in items.items()))
    out.append('].')
    out.append('')
    return '\n'.join(out)
