"""C18 translator: the SOURCE TEXT of every custom field parser / serializer of the PDU registries
-> coq/Gen/C18FieldSrc.v   (fail closed)

For every field of every class of L2CAP_Control_Frame.classes, ATT_PDU.pdu_classes,
SMP_Command.smp_classes, SDP_PDU.subclasses, avdtp.Message.subclasses and the avrcp
Command / Response / Event registries whose spec is a parser / serializer pair (lambdas or named
callables other than SpecableEnum / SpecableFlag.type_spec), the normalised source
(ast.unparse of the lambda / function, docstring and comments dropped) of the parser, of the
serializer, and of every function of the same module they call by name, keyed by
"<module>:<qualified name or lambda position-independent id>".  Model/CodecsFieldSrc.v records the
texts the field-codec models (Model/CodecsXfields.v) were written from; Props/C18.v checks equality
on every run (`C18_field_codecs_match_source`).  Replacing a lambda by a method, or changing a
method's body, changes the text and breaks the obligation whether or not a generated input notices.
"""
from __future__ import annotations

import ast
import functools
import inspect
import sys
import textwrap

from translate import c18_registries as R


class SrcError(Exception):
    pass


_MOD_AST = {}


def _module_ast(mod):
    if mod.__name__ not in _MOD_AST:
        _MOD_AST[mod.__name__] = ast.parse(inspect.getsource(mod))
    return _MOD_AST[mod.__name__]


def _strip_doc(fn_node):
    if fn_node.body and isinstance(fn_node.body[0], ast.Expr) and isinstance(getattr(fn_node.body[0], 'value', None), ast.Constant) \
            and isinstance(fn_node.body[0].value.value, str):
        fn_node.body = fn_node.body[1:] or [ast.Pass()]
    return fn_node


def _lambda_node(fn):
    mod = sys.modules[fn.__module__]
    code = fn.__code__
    want_args = list(code.co_varnames[:code.co_argcount])
    cands = [n for n in ast.walk(_module_ast(mod)) if isinstance(n, ast.Lambda) and n.lineno == code.co_firstlineno
             and [a.arg for a in n.args.args] == want_args]
    texts = sorted({ast.unparse(n) for n in cands})
    if len(texts) != 1:
        raise SrcError(f'{fn.__module__}: cannot locate the lambda at line {code.co_firstlineno} unambiguously ({len(texts)} candidates)')
    return cands[0]


def _callable_text(f):
    """-> (normalised text, AST node)"""
    if isinstance(f, functools.partial):
        t, node = _callable_text(f.func)
        kw = ', '.join(f'{k}={v!r}' for k, v in sorted(f.keywords.items()))
        return f'partial({t}; {kw})', node
    f = getattr(f, '__func__', f)
    if getattr(f, '__name__', '') == '<lambda>':
        node = _lambda_node(f)
        return ast.unparse(node), node
    src = textwrap.dedent(inspect.getsource(f))
    node = ast.parse(src).body[0]
    if not isinstance(node, (ast.FunctionDef, ast.AsyncFunctionDef)):
        raise SrcError(f'{f!r}: not a function')
    node.decorator_list = []
    return ast.unparse(_strip_doc(node)), node


def _called(node, mod):
    """functions of the same module called by name inside node: Name(...) and Class.method(...)"""
    out = {}
    for n in ast.walk(node):
        if not isinstance(n, ast.Call):
            continue
        f = n.func
        target = None
        if isinstance(f, ast.Name) and hasattr(mod, f.id):
            target = (f.id, getattr(mod, f.id))
        elif isinstance(f, ast.Attribute) and isinstance(f.value, ast.Name) and hasattr(mod, f.value.id) \
                and inspect.isclass(getattr(mod, f.value.id)) and hasattr(getattr(mod, f.value.id), f.attr):
            target = (f'{f.value.id}.{f.attr}', getattr(getattr(mod, f.value.id), f.attr))
        elif isinstance(f, ast.Attribute) and isinstance(f.value, ast.Name) and f.value.id == 'cls':
            continue
        if target and (inspect.isfunction(getattr(target[1], '__func__', target[1])) and
                       getattr(getattr(target[1], '__func__', target[1]), '__module__', None) == mod.__name__):
            out[target[0]] = target[1]
    return out


def collect():
    """{key: text} for every custom field codec of the registries"""
    out = {}
    for e in R.registries():
        cls = e.cls
        mod = sys.modules[cls.__module__]
        flat = []
        for f in cls.fields:
            flat.extend(f if isinstance(f, list) else [f])
        for name, spec in flat:
            pairs = []
            if isinstance(spec, dict) and spec.get('parser') is not None:
                q = R._qual(spec['parser'])
                if q.endswith('type_spec.<locals>.<lambda>'):
                    continue
                pairs = [('parser', spec['parser']), ('serializer', spec.get('serializer'))]
            elif callable(spec):
                pairs = [('parser', spec)]
            for role, fn in pairs:
                if fn is None:
                    raise SrcError(f'{cls.__name__}.{name}: parser without serializer')
                text, node = _callable_text(fn)
                out[f'{mod.__name__}:{cls.__name__}.{name}.{role}'] = text
                fmod = sys.modules.get(getattr(getattr(fn, 'func', fn), '__module__', mod.__name__), mod)
                for cname, cfn in sorted(_called(node, fmod).items()):
                    ctext, cnode = _callable_text(cfn)
                    out[f'{fmod.__name__}:{cname}'] = ctext
                    for c2, f2 in sorted(_called(cnode, fmod).items()):
                        out.setdefault(f'{fmod.__name__}:{c2}', _callable_text(f2)[0])
    # the SDP data element parser and serialiser themselves (their control flow carries the nesting
    # counter; Model/CodecsSdp.v and Model/CodecsSdpState.v were written from these texts)
    from bumble import sdp
    for key, fn in (('bumble.sdp:DataElementParser._list_from_bytes', sdp.DataElementParser._list_from_bytes),
                    ('bumble.sdp:DataElementParser.parse_next', sdp.DataElementParser.parse_next),
                    ('bumble.sdp:DataElementParser.__init__', sdp.DataElementParser.__init__),
                    ('bumble.sdp:DataElement.__bytes__', sdp.DataElement.__bytes__)):
        out[key] = _callable_text(fn)[0]
    return dict(sorted(out.items()))


def coq_string(s):
    if any(ord(c) > 126 or (ord(c) < 32 and c != '\n') for c in s):
        raise SrcError('non-printable character in a source text')
    return '"' + s.replace('"', '""') + '"'


def generate(defname='field_codec_sources_src'):
    items = collect()
    out = ['(* GENERATED by tools/translate/c18_fieldsrc.py from bumble/{l2cap,att,smp,sdp,avdtp,avrcp,core,hci}.py - do not edit *)',
           'From Coq Require Import List String.', 'Import ListNotations.', 'Local Open Scope string_scope.', '',
           f'Definition {defname} : list (string * string) := [']
    out.append(';\n'.join(f'  ({coq_string(k)},\n   {coq_string(v)})' for k, v in items.items()))
    out.append('].')
    out.append('')
    out.append(generate_facts('parser_entry_facts_src' if defname.endswith('_src') else 'parser_entry_facts'))
    return '\n'.join(out)


# ----------------------------------------------------------------------------- parser entry points: no caching, pinned state reads
ALLOWED_DECORATORS = {'classmethod', 'staticmethod'}
CACHING = {'lru_cache', 'cache', 'cached_property', 'functools.lru_cache', 'functools.cache', 'functools.cached_property'}


def _entry_points():
    """(key, owner class or None, module, function name) of every parser entry point in the C18 scope"""
    from bumble import l2cap, att, smp, sdp, rfcomm, core, hci, avdtp, avctp, avrcp, avc, rtp, a2dp
    eps = []

    def add(mod, cls, *names):
        for n in names:
            eps.append((f'{mod.__name__}:{cls.__name__ + "." if cls else ""}{n}', cls, mod, n))
    add(l2cap, l2cap.EnhancedControlField, 'from_bytes')
    add(l2cap, l2cap.InformationEnhancedControlField, 'from_bytes')
    add(l2cap, l2cap.SupervisoryEnhancedControlField, 'from_bytes')
    add(l2cap, l2cap.L2CAP_PDU, 'from_bytes')
    add(l2cap, l2cap.L2CAP_Control_Frame, 'from_bytes', 'decode_configuration_options')
    add(l2cap, l2cap.L2CAP_Connection_Request, 'parse_psm')
    add(l2cap, l2cap.L2CAP_Credit_Based_Connection_Request, 'parse_cid_list')
    add(att, att.ATT_PDU, 'from_bytes')
    add(att, att.ATT_Read_Multiple_Variable_Response, '_parse_length_value_tuples')
    add(smp, smp.SMP_Command, 'from_bytes')
    add(sdp, sdp.SDP_PDU, 'from_bytes')
    add(sdp, sdp.DataElement, 'from_bytes', 'parse_from_bytes', 'unsigned_integer_from_bytes', 'signed_integer_from_bytes')
    add(sdp, sdp.DataElementParser, 'parse_next', '_list_from_bytes')
    add(sdp, None, '_parse_service_record_handle_list', '_parse_bytes_preceded_by_length')
    add(rfcomm, rfcomm.RFCOMM_Frame, 'from_bytes', 'parse_mcc')
    add(rfcomm, rfcomm.RFCOMM_MCC_PN, 'from_bytes')
    add(rfcomm, rfcomm.RFCOMM_MCC_MSC, 'from_bytes')
    add(rfcomm, None, 'compute_fcs')
    add(core, core.AdvertisingData, 'from_bytes', 'append')
    add(core, core.UUID, 'from_bytes', 'parse_uuid', 'parse_uuid_2', 'register')
    add(hci, hci.Address, 'parse_address', 'parse_random_address', 'parse_address_with_type', 'parse_address_preceded_by_type')
    add(hci, hci.HCI_Object, 'parse_field', 'dict_and_offset_from_bytes', 'dict_from_bytes')
    add(avdtp, avdtp.EndPointInfo, 'from_bytes')
    add(avdtp, avdtp.ServiceCapabilities, 'create', 'parse_capabilities')
    add(avdtp, avdtp.MediaCodecCapabilities, 'from_bytes')
    add(avdtp, avdtp.Message, 'create')
    add(avdtp, avdtp.Discover_Response, 'parse_endpoints')
    add(avdtp, avdtp.MessageAssembler, 'on_pdu')
    add(avctp, avctp.MessageAssembler, 'on_pdu')
    add(avrcp, avrcp.Command, 'from_bytes')
    add(avrcp, avrcp.Response, 'from_bytes', 'from_parameters')
    add(avrcp, avrcp.Event, 'from_bytes')
    add(avrcp, avrcp.BrowseableItem, 'parse_from_bytes')
    add(avrcp, None, '_parse_string')
    add(avc, avc.Frame, 'from_bytes')
    add(avc, avc.PassThroughFrame, 'parse_operands')
    add(rtp, rtp.MediaPacket, 'from_bytes')
    add(a2dp, a2dp.MediaCodecInformation, 'create')
    add(a2dp, a2dp.SbcMediaCodecInformation, 'from_bytes')
    add(a2dp, a2dp.AacMediaCodecInformation, 'from_bytes')
    add(a2dp, a2dp.VendorSpecificMediaCodecInformation, 'from_bytes')
    return eps


def _def_node(mod, cls, name):
    """the FunctionDef as written in the class body / module (decorators included)"""
    tree = _module_ast(mod)
    if cls is None:
        cands = [n for n in tree.body if isinstance(n, ast.FunctionDef) and n.name == name]
    else:
        # the class that actually defines the attribute
        owner = next((k for k in cls.__mro__ if name in vars(k)), None)
        if owner is None:
            raise SrcError(f'{cls.__name__}.{name} is not defined')
        omod = sys.modules[owner.__module__]
        cands = [f for c in ast.walk(_module_ast(omod)) if isinstance(c, ast.ClassDef) and c.name == owner.__name__
                 for f in c.body if isinstance(f, ast.FunctionDef) and f.name == name]
        mod = omod
    if len(cands) != 1:
        raise SrcError(f'{mod.__name__}:{cls.__name__ + "." if cls else ""}{name}: {len(cands)} definitions found')
    return cands[0], mod


def entry_facts():
    """{key: 'decorators=..; state=..'}: the decorators of every parser entry point (only classmethod /
    staticmethod are accepted: anything else - a cache above all - aborts) and the mutable module- or
    class-level containers its body reads (class dispatch tables and the UUID registry are expected;
    the list is pinned)"""
    out = {}
    for key, cls, mod, name in _entry_points():
        node, dmod = _def_node(mod, cls, name)
        decs = [ast.unparse(d) for d in node.decorator_list]
        # not raised here: a decorator other than classmethod / staticmethod (a cache above all) is
        # recorded as it stands, so the obligation parser_entry_facts_src = parser_entry_facts fails
        # and names it, and the history oracle of the harness still runs and produces the replay
        decs = [d if d.split('(')[0] in ALLOWED_DECORATORS else
                ('CACHING:' if d.split('(')[0].split('.')[-1] in {'lru_cache', 'cache', 'cached_property'} else 'UNRECOGNISED:') + d
                for d in decs]
        reads = set()
        for n in ast.walk(node):
            tgt = None
            if isinstance(n, ast.Attribute) and isinstance(n.value, ast.Name) and isinstance(n.ctx, ast.Load):
                base = getattr(dmod, n.value.id, None) if n.value.id not in ('self', 'cls') else cls
                if inspect.isclass(base) and isinstance(getattr(base, n.attr, None), (dict, list, set)):
                    tgt = f'{base.__name__}.{n.attr}'
            elif isinstance(n, ast.Name) and isinstance(n.ctx, ast.Load) and isinstance(getattr(dmod, n.id, None), (dict, list, set)):
                tgt = n.id
            if tgt:
                reads.add(tgt)
        out[key] = 'decorators=[' + ', '.join(decs) + ']; state=[' + ', '.join(sorted(reads)) + ']'
    return dict(sorted(out.items()))


def generate_facts(defname='parser_entry_facts_src'):
    items = entry_facts()
    out = [f'Definition {defname} : list (string * string) := [']
    out.append(';\n'.join(f'  ({coq_string(k)}, {coq_string(v)})' for k, v in items.items()))
    out.append('].')
    out.append('')
    return '\n'.join(out)
