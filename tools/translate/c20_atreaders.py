"""C20 translator: the two AT line readers of bumble/hfp.py -> coq/Gen/C20AtReaders.v

Pins the framing part of HfProtocol._read_at and AgProtocol._read_at, statement by statement
(fail closed: anything else raises TranslateError naming the statement):

    self.read_buffer.extend(data)
    while self.read_buffer:
        trailer = self.read_buffer.find(<bytes constant>)
        if trailer == -1: return
        [ if trailer == 0: self.read_buffer = self.read_buffer[<k>:]; continue ]
        <raw> = self.read_buffer[:trailer]
        self.read_buffer = self.read_buffer[trailer + <k>:]
        ... (parsing and dispatch: must not touch read_buffer, must not return)

and emits what it found (delimiter bytes, widths, presence of the skip clause) as a
reader_shape of Model/AtFramer.v; Props/C20.v checks that they are the shapes of the readers
the chunking theorems are about.
"""
import ast
import os


class TranslateError(Exception):
    pass


def u(e):
    return ast.unparse(e)


def reader_shape(cls, where):
    m = next((x for x in cls.body if isinstance(x, ast.FunctionDef) and x.name == '_read_at'), None)
    if m is None:
        raise TranslateError(f'{where}._read_at not found')

    def err(node, what):
        raise TranslateError(f'{where}._read_at:{getattr(node, "lineno", "?")}: {what}')
    body = [s for s in m.body if not (isinstance(s, ast.Expr) and isinstance(s.value, ast.Constant))]
    if len(body) != 2:
        err(body[2] if len(body) > 2 else m, f'expected exactly  extend(data); while ...  but found {len(body)} statements '
            f'(extra: {u(body[1])[:70] if len(body) > 2 else "-"})')
    if u(body[0]) != 'self.read_buffer.extend(data)':
        err(body[0], f'first statement is not self.read_buffer.extend(data): {u(body[0])[:60]}')
    loop = body[1]
    if not (isinstance(loop, ast.While) and u(loop.test) == 'self.read_buffer' and not loop.orelse):
        err(loop, 'second statement is not  while self.read_buffer:')
    lb = loop.body
    i = 0
    s = lb[i]
    if not (isinstance(s, ast.Assign) and u(s.targets[0]) == 'trailer' and isinstance(s.value, ast.Call)
            and u(s.value.func) == 'self.read_buffer.find' and len(s.value.args) == 1
            and isinstance(s.value.args[0], ast.Constant) and isinstance(s.value.args[0].value, bytes)):
        err(s, f'loop does not start with  trailer = self.read_buffer.find(<bytes>): {u(s)[:60]}')
    delim = s.value.args[0].value
    i += 1
    s = lb[i]
    if not (isinstance(s, ast.If) and u(s.test) == 'trailer == -1' and len(s.body) == 1
            and isinstance(s.body[0], ast.Return) and s.body[0].value is None and not s.orelse):
        err(s, 'expected  if trailer == -1: return')
    i += 1
    skip, skip_width = False, 0
    s = lb[i]
    if isinstance(s, ast.If) and u(s.test) == 'trailer == 0':
        ok = (len(s.body) == 2 and not s.orelse and isinstance(s.body[1], ast.Continue)
              and isinstance(s.body[0], ast.Assign) and u(s.body[0].targets[0]) == 'self.read_buffer'
              and isinstance(s.body[0].value, ast.Subscript) and u(s.body[0].value.value) == 'self.read_buffer'
              and isinstance(s.body[0].value.slice, ast.Slice) and s.body[0].value.slice.upper is None
              and isinstance(s.body[0].value.slice.lower, ast.Constant))
        if not ok:
            err(s, 'empty-line clause is not  if trailer == 0: self.read_buffer = self.read_buffer[k:]; continue')
        skip, skip_width = True, s.body[0].value.slice.lower.value
        i += 1
        s = lb[i]
    if not (isinstance(s, ast.Assign) and isinstance(s.targets[0], ast.Name) and u(s.value) == 'self.read_buffer[:trailer]'):
        err(s, f'expected  <raw> = self.read_buffer[:trailer]: {u(s)[:60]}')
    i += 1
    s = lb[i]
    ok = (isinstance(s, ast.Assign) and u(s.targets[0]) == 'self.read_buffer' and isinstance(s.value, ast.Subscript)
          and u(s.value.value) == 'self.read_buffer' and isinstance(s.value.slice, ast.Slice) and s.value.slice.upper is None
          and isinstance(s.value.slice.lower, ast.BinOp) and isinstance(s.value.slice.lower.op, ast.Add)
          and u(s.value.slice.lower.left) == 'trailer' and isinstance(s.value.slice.lower.right, ast.Constant))
    if not ok:
        err(s, f'expected  self.read_buffer = self.read_buffer[trailer + k:]: {u(s)[:70]}')
    consumed = s.value.slice.lower.right.value
    # the rest of the loop body (parse / dispatch) must leave the buffer and the loop alone
    for s in lb[i + 1:]:
        for n in ast.walk(s):
            if isinstance(n, (ast.Return, ast.Break)):
                err(n, 'return / break after a line was taken from the buffer')
            if isinstance(n, (ast.Assign, ast.AugAssign)):
                tgts = n.targets if isinstance(n, ast.Assign) else [n.target]
                if any(u(t) == 'self.read_buffer' for t in tgts):
                    err(n, 'read_buffer modified after the line was taken')
            if isinstance(n, ast.Call) and u(n.func).startswith('self.read_buffer.'):
                err(n, f'read_buffer used after the line was taken: {u(n)[:50]}')
    # nothing else in the class may write the buffer
    for other in cls.body:
        if isinstance(other, (ast.FunctionDef, ast.AsyncFunctionDef)) and other.name not in ('_read_at', '__init__'):
            for n in ast.walk(other):
                if isinstance(n, ast.Attribute) and n.attr == 'read_buffer' and isinstance(n.ctx, ast.Store):
                    err(n, f'read_buffer assigned in {other.name}')
    return delim, consumed, skip, skip_width


def translate(repo: str):
    path = os.path.join(repo, 'bumble', 'hfp.py')
    tree = ast.parse(open(path).read())
    out = ['(* GENERATED by tools/translate/c20_atreaders.py from bumble/hfp.py. Do not edit. *)',
           'From Coq Require Import ZArith List Bool.', 'From BV Require Import Model.AtFramer.',
           'Import ListNotations.', 'Open Scope Z_scope.', '']
    for cname, name in (('HfProtocol', 'src_hf_reader_shape'), ('AgProtocol', 'src_ag_reader_shape')):
        cls = next((n for n in tree.body if isinstance(n, ast.ClassDef) and n.name == cname), None)
        if cls is None:
            raise TranslateError(f'class {cname} not found')
        delim, consumed, skip, width = reader_shape(cls, cname)
        out.append(f'(* {cname}._read_at *)')
        out.append(f'Definition {name} : reader_shape :=\n  mkShape [{"; ".join(str(b) for b in delim)}] {consumed} '
                   f'{"true" if skip else "false"} {width}.')
        out.append('')
    return '\n'.join(out)


if __name__ == '__main__':
    import sys
    print(translate(sys.argv[1] if len(sys.argv) > 1 else os.environ.get('BUMBLE_REPO', '/repo')))
