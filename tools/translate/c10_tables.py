"""Translator for C10/C11: reads the ATT tables and the GATT server's handler set out of the
bumble working tree (by introspection and by AST) and renders coq/Gen/C10Tables.v.

Fail-closed: anything not recognised raises TranslateError naming the construct.

What is extracted
  * att.Opcode members, att.ATT_REQUESTS, att.ErrorCode members used by the server
  * att.Attribute.Permissions bit values
  * ATT_DEFAULT_MTU, GATT_MAX_ATTRIBUTE_VALUE_SIZE, GATT_SERVER_DEFAULT_MAX_MTU, GATT_REQUEST_TIMEOUT
  * the field layout ("shape") of every client->server (even opcode) class in ATT_PDU.pdu_classes
  * for every opcode 0..255: does gatt_server.Server have the handler on_gatt_pdu would
    look up (on_<pdu name lower>), and is it a plain function or an `async def` wrapped by
    utils.AsyncRunner.run_in_task() (AST of bumble/gatt_server.py)
  * for every such handler: is every `await ... .read_value(...)` / `.write_value(...)` lexically
    inside a `try` that catches att.ATT_Error / Exception (an exception escaping a task is only
    logged, so an unguarded call means "no response")
  * how Server.on_gatt_pdu treats a PDU without handler (membership test against ATT_REQUESTS),
    whether Server.on_invalid_gatt_pdu exists (malformed requests are answered)
  * the group-type UUIDs and UUID.BASE_UUID
"""
from __future__ import annotations

import ast
import inspect
import os


class TranslateError(Exception):
    pass


SHAPE_U8, SHAPE_U16, SHAPE_REST, SHAPE_UUID, SHAPE_UUID2, SHAPE_HANDLES = 1, 2, 0, 3, 4, 5


def _shape_of_field(att, core, cls, name, spec):
    if isinstance(spec, dict):
        if 'size' in spec:
            spec = spec['size']
        elif 'parser' in spec:
            parser = spec['parser']
            handles_parser = att._SET_OF_HANDLES_METADATA['bumble.hci'].spec['parser']
            if parser is handles_parser:
                # behavioural probe of the lambda (guards an edited parser)
                if parser(bytes([0x0E, 1, 0, 2, 3]), 1) != (5, [1, 0x302]) or parser(b'\x0e', 1) != (1, []):
                    raise TranslateError(f'{cls.__name__}.{name}: set-of-handles parser behaves differently')
                try:
                    parser(bytes([0x0E, 1, 0, 2]), 1)
                except Exception:
                    return SHAPE_HANDLES
                raise TranslateError(f'{cls.__name__}.{name}: set-of-handles parser accepts an odd length')
            raise TranslateError(f'{cls.__name__}.{name}: unrecognised parser {parser!r}')
    if spec == '*':
        return SHAPE_REST
    if spec == 1:
        return SHAPE_U8
    if spec == 2:
        return SHAPE_U16
    if inspect.ismethod(spec) and spec.__self__ is core.UUID:
        if spec.__func__ is core.UUID.parse_uuid.__func__:
            return SHAPE_UUID
        if spec.__func__ is core.UUID.parse_uuid_2.__func__:
            return SHAPE_UUID2
    raise TranslateError(f'{cls.__name__}.{name}: unrecognised field spec {spec!r}')


GUARD_DECORATOR = '_att_request_handler'


def _is_request_guard(dec, tree) -> bool:
    """@_att_request_handler: a module-level decorator that runs the handler in a task (run_in_task) and
    answers any escaping exception with an Error Response (except Exception -> send_response UNLIKELY_ERROR)"""
    if not (isinstance(dec, ast.Name) and dec.id == GUARD_DECORATOR):
        return False
    fn = next((n for n in tree.body if isinstance(n, ast.FunctionDef) and n.name == GUARD_DECORATOR), None)
    if fn is None:
        raise TranslateError(f'{GUARD_DECORATOR} is used but not defined at module level')
    inner = [n for n in ast.walk(fn) if isinstance(n, ast.AsyncFunctionDef)]
    if len(inner) != 1:
        raise TranslateError(f'{GUARD_DECORATOR}: expected exactly one inner coroutine')
    tries = [n for n in inner[0].body if isinstance(n, ast.Try)]
    if len(tries) != 1 or len(inner[0].body) != 1:
        raise TranslateError(f'{GUARD_DECORATOR}: the inner coroutine must consist of one try statement')
    t = tries[0]
    body_txt = ast.unparse(t.body)
    if 'await handler(self, bearer, request)' not in body_txt or len(t.body) != 1:
        raise TranslateError(f'{GUARD_DECORATOR}: try body is not the awaited handler')
    exc = [h for h in t.handlers if isinstance(h.type, ast.Name) and h.type.id == 'Exception']
    if len(exc) != 1:
        raise TranslateError(f'{GUARD_DECORATOR}: no `except Exception` clause')
    txt = ast.unparse(exc[0])
    if ('self.send_response(bearer, response)' not in txt or 'ATT_UNLIKELY_ERROR_ERROR' not in txt
            or 'request_opcode_in_error=request.op_code' not in txt or 'raise' in txt):
        raise TranslateError(f'{GUARD_DECORATOR}: `except Exception` does not answer with UNLIKELY_ERROR')
    if t.finalbody or t.orelse:
        raise TranslateError(f'{GUARD_DECORATOR}: unexpected else/finally')
    ret = ast.unparse(fn.body[-1])
    if 'run_in_task()' not in ret or 'guarded' not in ret:
        raise TranslateError(f'{GUARD_DECORATOR}: does not return run_in_task()(guarded)')
    return True


def _catches_any(handler: ast.ExceptHandler) -> bool:
    t = handler.type
    if t is None:
        return True
    names = [e.id if isinstance(e, ast.Name) else getattr(e, 'attr', '')
             for e in (t.elts if isinstance(t, ast.Tuple) else [t])]
    return any(n in ('Exception', 'BaseException') for n in names)


def _value_calls_guarded_any(fn) -> bool:
    """every awaited read_value / write_value is inside a try with `except Exception` that does not re-raise"""
    ok = True

    def visit(node, guarded):
        nonlocal ok
        if isinstance(node, ast.Try):
            g = guarded or any(_catches_any(h) and not any(isinstance(x, ast.Raise) for x in ast.walk(h))
                               for h in node.handlers)
            for n in node.body:
                visit(n, g)
            for h in node.handlers:
                for n in h.body:
                    visit(n, guarded)
            for n in node.orelse + node.finalbody:
                visit(n, guarded)
            return
        if isinstance(node, ast.Await) and isinstance(node.value, ast.Call):
            f = node.value.func
            if isinstance(f, ast.Attribute) and f.attr in ('read_value', 'write_value') and not guarded:
                ok = False
        for child in ast.iter_child_nodes(node):
            visit(child, guarded)

    for n in fn.body:
        visit(n, False)
    return ok


def _is_run_in_task(dec) -> bool:
    # utils.AsyncRunner.run_in_task()   (no queue argument: one task per call)
    if not isinstance(dec, ast.Call) or dec.args or dec.keywords:
        return False
    f = dec.func
    return (isinstance(f, ast.Attribute) and f.attr == 'run_in_task'
            and isinstance(f.value, ast.Attribute) and f.value.attr == 'AsyncRunner')


def _catches_att_error(handler: ast.ExceptHandler) -> bool:
    t = handler.type
    if t is None:
        return True
    names = []
    for e in (t.elts if isinstance(t, ast.Tuple) else [t]):
        if isinstance(e, ast.Attribute):
            names.append(e.attr)
        elif isinstance(e, ast.Name):
            names.append(e.id)
    return any(n in ('ATT_Error', 'Exception', 'BaseException', 'ProtocolError') for n in names)


def _value_calls_guarded(fn) -> tuple[int, bool]:
    """(number of awaited read_value/write_value calls, all of them inside a try that catches ATT_Error)"""
    count = 0
    ok = True

    def visit(node, guarded):
        nonlocal count, ok
        if isinstance(node, ast.Try):
            g = guarded or any(_catches_att_error(h) for h in node.handlers)
            for n in node.body:
                visit(n, g)
            for h in node.handlers:
                for n in h.body:
                    visit(n, guarded)
            for n in node.orelse + node.finalbody:
                visit(n, guarded)
            return
        if isinstance(node, (ast.FunctionDef, ast.AsyncFunctionDef)) and node is not fn:
            # nested helper: guarded-ness is decided inside it
            for n in node.body:
                visit(n, False)
            return
        if isinstance(node, ast.Await) and isinstance(node.value, ast.Call):
            f = node.value.func
            if isinstance(f, ast.Attribute) and f.attr in ('read_value', 'write_value'):
                count += 1
                if not guarded:
                    ok = False
        for child in ast.iter_child_nodes(node):
            visit(child, guarded)

    for n in fn.body:
        visit(n, False)
    return count, ok


def extract(repo: str) -> dict:
    from bumble import att, core, gatt, gatt_server

    src_path = os.path.join(repo, 'bumble', 'gatt_server.py')
    if os.path.realpath(inspect.getsourcefile(gatt_server)) != os.path.realpath(src_path):
        raise TranslateError(f'bumble.gatt_server imported from {inspect.getsourcefile(gatt_server)}, expected {src_path}')
    tree = ast.parse(open(src_path).read())
    server_cls = next((n for n in tree.body if isinstance(n, ast.ClassDef) and n.name == 'Server'), None)
    if server_cls is None:
        raise TranslateError('class Server not found in gatt_server.py')
    methods = {n.name: n for n in server_cls.body if isinstance(n, (ast.FunctionDef, ast.AsyncFunctionDef))}

    out: dict = {}
    out['opcodes'] = sorted((int(m.value), m.name) for m in att.Opcode)
    for v, _ in out['opcodes']:
        if not 0 <= v <= 255:
            raise TranslateError(f'opcode {v} out of range')
    out['requests'] = [int(x) for x in att.ATT_REQUESTS]
    out['responses'] = [int(x) for x in att.ATT_RESPONSES]

    # ---- handlers: what on_gatt_pdu's getattr(self, f'on_{att_pdu.name.lower()}') finds
    handlers = []
    guarded = []
    exc_guarded = []
    for op in range(256):
        cls = att.ATT_PDU.pdu_classes.get(op)
        name = cls.name if cls is not None else att.Opcode(op).name
        hname = f'on_{name.lower()}'
        fn = getattr(gatt_server.Server, hname, None)
        if fn is None:
            continue
        node = methods.get(hname)
        if node is None:
            raise TranslateError(f'Server.{hname} exists but is not defined in class Server (inherited / injected?)')
        if isinstance(node, ast.FunctionDef) and not node.decorator_list:
            kind = False
            any_guard = True        # Server.on_gatt_pdu maps any exception of a plain handler
        elif (isinstance(node, ast.AsyncFunctionDef) and len(node.decorator_list) == 1
              and _is_run_in_task(node.decorator_list[0])):
            kind = True
            any_guard = _value_calls_guarded_any(node)
        elif (isinstance(node, ast.AsyncFunctionDef) and len(node.decorator_list) == 1
              and _is_request_guard(node.decorator_list[0], tree)):
            kind = True
            any_guard = True
        else:
            raise TranslateError(f'Server.{hname}: unrecognised definition form (decorators / async)')
        handlers.append((op, kind))
        n, ok = _value_calls_guarded(node)
        guarded.append((op, n, ok))
        # a request must be ANSWERED when an unexpected exception escapes: only the decorator does that;
        # a command may swallow it
        if kind and op in [int(x) for x in att.ATT_REQUESTS]:
            any_guard = (len(node.decorator_list) == 1 and isinstance(node.decorator_list[0], ast.Name)
                         and node.decorator_list[0].id == GUARD_DECORATOR)
        exc_guarded.append((op, any_guard))
    out['handlers'] = handlers
    out['guarded'] = guarded
    out['exc_guarded'] = exc_guarded

    # ---- generic dispatch: the `else` branch of on_gatt_pdu tests `att_pdu.op_code in att.ATT_REQUESTS`
    og = methods.get('on_gatt_pdu')
    if og is None:
        raise TranslateError('Server.on_gatt_pdu not found')
    txt = ast.unparse(og)
    if 'att_pdu.op_code in att.ATT_REQUESTS' not in txt or 'self.on_att_request(bearer, att_pdu)' not in txt:
        raise TranslateError('Server.on_gatt_pdu: generic request branch not recognised')
    if "getattr(self, handler_name, None)" not in txt or "f'on_{att_pdu.name.lower()}'" not in txt:
        raise TranslateError('Server.on_gatt_pdu: handler lookup not recognised')
    out['has_generic_request_handler'] = 'on_att_request' in methods
    out['has_invalid_pdu_handler'] = 'on_invalid_gatt_pdu' in methods
    if out['has_invalid_pdu_handler']:
        t2 = ast.unparse(methods['on_invalid_gatt_pdu'])
        if 'pdu[0] in att.ATT_REQUESTS' not in t2 or 'ATT_INVALID_PDU_ERROR' not in t2:
            raise TranslateError('Server.on_invalid_gatt_pdu: body not recognised')

    # ---- shapes of client->server PDU classes
    shapes = []
    for op, cls in sorted(att.ATT_PDU.pdu_classes.items()):
        if op & 1:
            continue
        shapes.append((int(op), [_shape_of_field(att, core, cls, n, s) for n, s in cls.fields]))
    out['shapes'] = shapes

    P = att.Attribute.Permissions
    out['perms'] = [int(P[n]) for n in ('READABLE', 'WRITEABLE', 'READ_REQUIRES_ENCRYPTION',
                                        'WRITE_REQUIRES_ENCRYPTION', 'READ_REQUIRES_AUTHENTICATION',
                                        'WRITE_REQUIRES_AUTHENTICATION', 'READ_REQUIRES_AUTHORIZATION',
                                        'WRITE_REQUIRES_AUTHORIZATION')]
    if len(list(P)) != 8:
        raise TranslateError(f'Attribute.Permissions has {len(list(P))} members, 8 expected')
    E = att.ErrorCode
    out['errors'] = [int(E[n]) for n in ('INVALID_HANDLE', 'READ_NOT_PERMITTED', 'WRITE_NOT_PERMITTED', 'INVALID_PDU',
                                         'INSUFFICIENT_AUTHENTICATION', 'REQUEST_NOT_SUPPORTED', 'INVALID_OFFSET',
                                         'INSUFFICIENT_AUTHORIZATION', 'ATTRIBUTE_NOT_FOUND', 'ATTRIBUTE_NOT_LONG',
                                         'INVALID_ATTRIBUTE_LENGTH', 'UNLIKELY_ERROR', 'INSUFFICIENT_ENCRYPTION',
                                         'UNSUPPORTED_GROUP_TYPE')]
    out['default_mtu'] = int(att.ATT_DEFAULT_MTU)
    out['max_value_size'] = int(gatt.GATT_MAX_ATTRIBUTE_VALUE_SIZE)
    out['server_max_mtu'] = int(gatt_server.GATT_SERVER_DEFAULT_MAX_MTU)
    out['request_timeout'] = int(gatt.GATT_REQUEST_TIMEOUT)
    out['base_uuid'] = list(core.UUID.BASE_UUID)
    out['group_types'] = [list(gatt.GATT_PRIMARY_SERVICE_ATTRIBUTE_TYPE.to_bytes()),
                          list(gatt.GATT_SECONDARY_SERVICE_ATTRIBUTE_TYPE.to_bytes()),
                          list(gatt.GATT_CHARACTERISTIC_ATTRIBUTE_TYPE.to_bytes())]
    return out


def _zl(xs):
    return '[' + '; '.join(str(x) for x in xs) + ']'


def _b(x):
    return 'true' if x else 'false'


def render(t: dict) -> str:
    op = {name: v for v, name in t['opcodes']}
    lines = [
        '(* GENERATED on every run by tools/translate/c10_tables.py from bumble/att.py,',
        '   bumble/gatt_server.py, bumble/gatt.py, bumble/core.py.  Do not edit. *)',
        'From Coq Require Import ZArith List Bool.',
        'Import ListNotations.',
        'Open Scope Z_scope.',
        '',
        '(* att.Opcode values *)',
        f'Definition g_opcodes : list Z := {_zl(v for v, _ in t["opcodes"])}.',
    ]
    for v, name in t['opcodes']:
        lines.append(f'Definition g_{name} : Z := {v}.')
    lines += [
        '',
        '(* att.ATT_REQUESTS / ATT_RESPONSES *)',
        f'Definition g_requests : list Z := {_zl(t["requests"])}.',
        f'Definition g_responses : list Z := {_zl(t["responses"])}.',
        '',
        '(* (opcode, wrapped in AsyncRunner.run_in_task) for every opcode whose PDU name has a',
        '   Server.on_<name> method *)',
        'Definition g_handlers : list (Z * bool) := ['
        + '; '.join(f'({o}, {_b(k)})' for o, k in t['handlers']) + '].',
        '(* (opcode, number of awaited read_value/write_value calls, all inside a try that',
        '   catches att.ATT_Error) *)',
        'Definition g_guarded : list (Z * Z * bool) := ['
        + '; '.join(f'({o}, {n}, {_b(k)})' for o, n, k in t['guarded']) + '].',
        '(* (opcode, an exception other than ATT_Error escaping the handler is answered with an Error',
        '   Response -- plain handlers via on_gatt_pdu, task-wrapped request handlers via the',
        '   _att_request_handler decorator -- or, for a command, swallowed) *)',
        'Definition g_exc_guarded : list (Z * bool) := ['
        + '; '.join(f'({o}, {_b(k)})' for o, k in t['exc_guarded']) + '].',
        f'Definition g_has_generic_request_handler : bool := {_b(t["has_generic_request_handler"])}.',
        f'Definition g_has_invalid_pdu_handler : bool := {_b(t["has_invalid_pdu_handler"])}.',
        '',
        '(* field layout of the client->server PDU classes; codes: 1 = uint8, 2 = uint16 LE,',
        "   0 = '*' (rest), 3 = UUID.parse_uuid, 4 = UUID.parse_uuid_2, 5 = set of handles *)",
        'Definition g_shapes : list (Z * list Z) := ['
        + '; '.join(f'({o}, {_zl(s)})' for o, s in t['shapes']) + '].',
        '',
        '(* att.Attribute.Permissions: READABLE WRITEABLE READ_ENC WRITE_ENC READ_AUTHN WRITE_AUTHN',
        '   READ_AUTHZ WRITE_AUTHZ *)',
        f'Definition g_perms : list Z := {_zl(t["perms"])}.',
        '(* att.ErrorCode: INVALID_HANDLE READ_NOT_PERMITTED WRITE_NOT_PERMITTED INVALID_PDU',
        '   INSUFFICIENT_AUTHENTICATION REQUEST_NOT_SUPPORTED INVALID_OFFSET INSUFFICIENT_AUTHORIZATION',
        '   ATTRIBUTE_NOT_FOUND ATTRIBUTE_NOT_LONG INVALID_ATTRIBUTE_LENGTH UNLIKELY_ERROR',
        '   INSUFFICIENT_ENCRYPTION UNSUPPORTED_GROUP_TYPE *)',
        f'Definition g_errors : list Z := {_zl(t["errors"])}.',
        f'Definition g_default_mtu : Z := {t["default_mtu"]}.',
        f'Definition g_max_value_size : Z := {t["max_value_size"]}.',
        f'Definition g_server_max_mtu : Z := {t["server_max_mtu"]}.',
        f'Definition g_request_timeout : Z := {t["request_timeout"]}.',
        f'Definition g_base_uuid : list Z := {_zl(t["base_uuid"])}.',
        '(* primary service, secondary service, characteristic declaration *)',
        'Definition g_group_types : list (list Z) := [' + '; '.join(_zl(x) for x in t['group_types']) + '].',
        '',
    ]
    _ = op
    return '\n'.join(lines)


def regen(ctx):
    t = extract(ctx.repo)
    ctx.write_gen('C10Tables', render(t))
    return t
