"""C06 translator: the *shape* of the link-facing code, regenerated on every run.

For each anchored function the translator walks the AST in source order and records, as strings,
the facts the Coq model of property C06 was written from:
  cmp:   every comparison (`connection.self_address == address`, bounds, membership tests)
  if:    the test of every `if` / conditional expression / `match` subject and `case` pattern
  store: every assignment to a subscript or attribute of an object (`self.le_connections[peer_address]`)
  assign: every assignment to a local name, with the assigned expression; conditional expressions with both arms
  del:   every `del`
  call:  every call (logging excluded), with the constructor name of its first argument when that is a call
  kw:    the keyword arguments of Connection(...) / ScoLink(...) / CisLink(...) constructors
  ret / raise: every return with a value, every raise
Anything the walker does not know how to render raises (fail closed).  The lists go to
coq/Gen/C06Shape.v; coq/Proofs/LinkShape.v holds the reading the model was built from and
`shape_matches_source` is re-checked on every run.
"""
import ast
import os

ANCHORS = [
    ('bumble/link.py', 'LocalLink', ['find_le_controller', 'find_classic_controller', 'send_acl_data',
                                     'send_advertising_pdu', 'send_ll_control_pdu', 'send_lmp_packet']),
    ('bumble/controller.py', 'LegacyAdvertiser', ['address', 'start', 'stop', 'send_advertising_data']),
    ('bumble/controller.py', 'AdvertisingSet', ['address', 'start', 'stop', 'send_extended_advertising_data']),
    ('bumble/controller.py', 'Connection', ['on_acl_pdu', 'send_ll_control_pdu']),
    ('bumble/controller.py', 'Controller', [
        'allocate_connection_handle', 'find_connection_by_handle', 'find_le_connection_by_handle',
        'find_classic_connection_by_handle', 'find_classic_sco_link_by_handle', 'find_iso_link_by_handle',
        'send_advertising_pdu', 'on_ll_control_pdu', 'on_ll_advertising_pdu', 'on_le_connect_ind',
        'on_le_disconnected', 'create_le_connection', 'on_link_acl_data', 'on_advertising_pdu',
        'send_lmp_packet', 'on_lmp_packet', 'on_classic_connection_request', 'on_classic_connection_complete',
        'on_classic_disconnected', 'on_classic_sco_disconnected', 'on_classic_sco_connection_complete',
        'on_hci_create_connection_command', 'on_hci_disconnect_command',
        'on_hci_accept_connection_request_command', 'on_hci_enhanced_setup_synchronous_connection_command',
        'on_hci_enhanced_accept_synchronous_connection_request_command',
        'on_hci_le_set_random_address_command', 'on_hci_le_set_advertising_parameters_command',
        'on_hci_le_set_advertising_data_command', 'on_hci_le_set_scan_response_data_command',
        'on_hci_le_set_advertising_enable_command', 'on_hci_le_set_scan_parameters_command',
        'on_hci_le_set_scan_enable_command', 'on_hci_le_create_connection_command',
        'on_hci_le_create_connection_cancel_command', 'on_hci_le_extended_create_connection_command',
        'on_hci_le_set_advertising_set_random_address_command',
        'on_hci_le_set_extended_advertising_parameters_command', 'on_hci_le_set_extended_advertising_data_command',
        'on_hci_le_set_extended_scan_response_data_command', 'on_hci_le_set_extended_advertising_enable_command',
        'on_hci_le_remove_advertising_set_command', 'on_hci_le_clear_advertising_sets_command',
        'on_hci_le_set_cig_parameters_command', 'on_hci_le_remove_cig_command']),
    # the matching rule of the Device: which connection event completes a pending connect()
    ('bumble/device.py', 'Device', ['connect_le.on_connection', 'connect_le.on_connection_failure',
                                    'connect_classic.on_connection', 'connect_classic.on_connection_failure']),
]

CTORS = {'Connection', 'ScoLink', 'CisLink'}


def _find(body, name):
    for node in body:
        if isinstance(node, (ast.FunctionDef, ast.AsyncFunctionDef, ast.ClassDef)) and node.name == name:
            return node
    return None


def _nested(fn, name):
    for node in ast.walk(fn):
        if isinstance(node, (ast.FunctionDef, ast.AsyncFunctionDef)) and node.name == name and node is not fn:
            return node
    return None


def _u(node):
    return ' '.join(ast.unparse(node).split())


class Walker(ast.NodeVisitor):
    def __init__(self):
        self.facts = []

    def add(self, kind, text):
        text = text.replace('"', "'")
        if len(text) > 160:
            text = text[:160] + '...'
        self.facts.append(f'{kind}: {text}')

    def visit_Compare(self, node):
        self.add('cmp', _u(node))
        self.generic_visit(node)

    def visit_If(self, node):
        self.add('if', _u(node.test))
        self.generic_visit(node)

    def visit_IfExp(self, node):
        self.add('ifexp', f'{_u(node.test)} ? {_u(node.body)} : {_u(node.orelse)}')
        self.generic_visit(node)

    def visit_Match(self, node):
        self.add('match', _u(node.subject))
        for case in node.cases:
            self.add('case', _u(case.pattern) + ('' if case.guard is None else ' if ' + _u(case.guard)))
        self.generic_visit(node)

    def _store(self, target):
        if isinstance(target, (ast.Subscript, ast.Attribute)):
            self.add('store', _u(target))
        elif isinstance(target, (ast.Tuple, ast.List)):
            for t in target.elts:
                self._store(t)

    def visit_Assign(self, node):
        for t in node.targets:
            self._store(t)
            if isinstance(t, ast.Name):
                self.add('assign', f'{t.id} = {_u(node.value)}')
        self.generic_visit(node)

    def visit_AugAssign(self, node):
        self._store(node.target)
        self.generic_visit(node)

    def visit_AnnAssign(self, node):
        self._store(node.target)
        self.generic_visit(node)

    def visit_Delete(self, node):
        for t in node.targets:
            self.add('del', _u(t))
        self.generic_visit(node)

    def visit_Call(self, node):
        f = _u(node.func)
        if not f.startswith('logger.'):
            arg = ''
            if node.args and isinstance(node.args[0], ast.Call):
                arg = _u(node.args[0].func)
            elif node.args and isinstance(node.args[0], (ast.Attribute, ast.Name)):
                arg = _u(node.args[0])
            self.add('call', f'{f}({arg})')
            last = f.split('.')[-1]
            if last in CTORS:
                for kw in node.keywords:
                    if kw.arg in ('handle', 'role', 'self_address', 'peer_address', 'transport', 'link_type',
                                  'acl_connection', 'cis_id', 'cig_id'):
                        self.add('kw', f'{last}.{kw.arg}={_u(kw.value)}')
            for kw in node.keywords:
                if kw.arg in ('sender_address', 'receiver_address', 'initiator_address', 'advertiser_address',
                              'data', 'scan_response_data', 'status', 'reason', 'connection_handle', 'role',
                              'peer_address', 'bd_addr') and last not in CTORS:
                    self.add('kw', f'{last}.{kw.arg}={_u(kw.value)}')
        self.generic_visit(node)

    def visit_Return(self, node):
        if node.value is not None and not (isinstance(node.value, ast.Constant) and node.value.value is None):
            self.add('ret', _u(node.value))
        self.generic_visit(node)

    def visit_Raise(self, node):
        self.add('raise', '' if node.exc is None else _u(node.exc.func if isinstance(node.exc, ast.Call) else node.exc))
        self.generic_visit(node)

    def visit_For(self, node):
        self.add('for', f'{_u(node.target)} in {_u(node.iter)}')
        self.generic_visit(node)

    def visit_comprehension(self, node):
        self.add('for', f'{_u(node.target)} in {_u(node.iter)}')
        self.generic_visit(node)

    def visit_FunctionDef(self, node):
        # nested functions belong to the shape of their parent, except those anchored separately
        self.generic_visit(node)


def shape(repo):
    out = []
    trees = {}
    for path, cls_name, functions in ANCHORS:
        if path not in trees:
            with open(os.path.join(repo, path)) as f:
                trees[path] = ast.parse(f.read())
        cls = _find(trees[path].body, cls_name)
        if cls is None:
            raise ValueError(f'{path}: class {cls_name} not found')
        for name in functions:
            parts = name.split('.')
            fn = _find(cls.body, parts[0])
            if fn is None:
                raise ValueError(f'{path}: {cls_name}.{parts[0]} not found')
            for p in parts[1:]:
                fn = _nested(fn, p)
                if fn is None:
                    raise ValueError(f'{path}: {cls_name}.{name} not found')
            w = Walker()
            for stmt in fn.body:
                w.visit(stmt)
            out.append((f'{cls_name}.{name}', w.facts))
    return out


def _digest(facts):
    import hashlib
    h = hashlib.sha256('\n'.join(facts).encode()).digest()
    return int.from_bytes(h[:8], 'big')


def _comment(text):
    return text.replace('(*', '( *').replace('*)', '* )')


def _coq_list(name, shp):
    """function name -> 64-bit digest of its fact list; the facts themselves go into comments
    (Coq parses long string literals very slowly)"""
    items = []
    for fn, facts in shp:
        lines = ''.join(f'     {_comment(f)}\n' for f in facts)
        items.append(f'  (* {fn}\n{lines}  *)\n  ("{fn}", {_digest(facts)})')
    return f'Definition {name} : list (string * Z) := [\n' + ';\n'.join(items) + '\n].\n'


HEADER = ('From Coq Require Import String List ZArith.\nImport ListNotations.\nOpen Scope string_scope.\nOpen Scope Z_scope.\n\n')


def coq_text(repo):
    return ('(* GENERATED by tools/translate/c06_shape.py from bumble/link.py, controller.py, device.py -- do not edit *)\n'
            + HEADER + _coq_list('code_shape', shape(repo)))


if __name__ == '__main__':
    import sys
    # snapshot mode: print the definition of model_shape for coq/Proofs/LinkShape.v
    print(_coq_list('model_shape', shape(sys.argv[1])))
