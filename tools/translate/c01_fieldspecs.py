"""C01 translator: bumble.hci registries -> coq/Gen/C01Registry.v  (fail closed).

Imports bumble.hci from $BUMBLE_REPO (PYTHONPATH is set by ./check), walks
HCI_Command.command_classes, HCI_Event.event_classes, HCI_LE_Meta_Event.subevent_classes,
every command's return_parameters_class and nested HCI_Dataclass_Object field types, and maps
every field spec to a term of Model/SpecCodec.v's `aspec` / `fspec` / `field`.

Anything not recognised raises TranslationError naming the class and field: a new kind of
spec, an unknown callable, a class that overrides from_parameters / __bytes__ / parameters,
a dict spec whose parser/serializer pair is not one of the catalogued pairs.

The in-memory form (used by the harness as well):
  aspec  : ('UInt', n) ('SInt', n) ('UIntBE', n) ('FixedBytes', n) ('FixedBytesPad', n)
           ('VarLen',) ('Rest',) ('Enum', n, 'LE'|'BE') ('Addr', 'APublic'|'ARandom')
           ('AddrAfterType',) ('LenPrefixedPadded', p) ('CodingFmt',)
  fspec  : ('Atom', aspec) | ('Nested', pycls, [afield])
  field  : ('One', name, fspec) | ('Arr', [(name, fspec), ...])
  afield : ('One', name, aspec) | ('Arr', [(name, aspec), ...])
"""
from __future__ import annotations

import dataclasses
import enum
import functools
import logging

logging.disable(logging.CRITICAL)


class TranslationError(Exception):
    pass


KIND_COMMAND, KIND_EVENT, KIND_LE_EVENT, KIND_RETURN, KIND_VENDOR = 0, 1, 2, 3, 4

# a module "registers HCI classes" when it uses one of the registration decorators or adds a
# vendor event factory; registration is an import side effect on process-wide dicts, so the
# check imports every such module before it reads the registries
import re as _re
REGISTRATION = _re.compile(
    r'^\s*@[\w.]*HCI_\w+\.(?:event|command|registered)\b|^\s*@[\w.]*sync_command\(|add_vendor_factory\(',
    _re.M)
MODULES: list = []      # names of the modules imported by the last load()


def registering_modules():
    """module names under the bumble package of $BUMBLE_REPO that register HCI classes"""
    import os
    import bumble
    root = os.path.dirname(os.path.abspath(bumble.__file__))
    out = []
    for d, dirs, files in os.walk(root):
        dirs.sort()
        for f in sorted(files):
            if not f.endswith('.py'):
                continue
            path = os.path.join(d, f)
            with open(path, encoding='utf-8') as fh:
                text = fh.read()
            if REGISTRATION.search(text):
                rel = os.path.relpath(path, os.path.dirname(root))[:-3]
                out.append(rel.replace(os.sep, '.').removesuffix('.__init__'))
    return sorted(out)


def import_registering_modules():
    import importlib
    names = registering_modules()
    if 'bumble.hci' not in names:
        raise TranslationError('bumble.hci no longer matches the registration pattern (decorators renamed?)')
    for n in names:
        try:
            importlib.import_module(n)
        except Exception as e:
            raise TranslationError(f'module {n} registers HCI classes but cannot be imported: {type(e).__name__}: {e}')
    MODULES[:] = names
    return names


# classes that do not use the generic field codec; they are hand-written in hci.py (item
# count = number of bits set in a PHY mask).  They are exercised by the oracle only.
U1, U2 = ('UInt', 1), ('UInt', 2)
# name -> (head fields, index of the PHY mask in the head, fields of one per-PHY item).  The layout is
# hand-written code in hci.py (from_parameters / __init__); it is pinned by the source pins
# (tools/translate/c01_source.py) and the __init__ signature is checked against these names.
CUSTOM_CLASSES = {
    'HCI_LE_Set_Extended_Scan_Parameters_Command': (
        [('own_address_type', U1), ('scanning_filter_policy', U1), ('scanning_phys', U1)], 2,
        [('scan_types', U1), ('scan_intervals', U2), ('scan_windows', U2)]),
    'HCI_LE_Extended_Create_Connection_Command': (
        [('initiator_filter_policy', U1), ('own_address_type', U1), ('peer_address_type', U1),
         ('peer_address', ('AddrAfterType',)), ('initiating_phys', U1)], 4,
        [('scan_intervals', U2), ('scan_windows', U2), ('connection_interval_mins', U2),
         ('connection_interval_maxs', U2), ('max_latencies', U2), ('supervision_timeouts', U2),
         ('min_ce_lengths', U2), ('max_ce_lengths', U2)]),
}


def phy_shape(cls):
    import inspect
    head, idx, row = CUSTOM_CLASSES[cls.__name__]
    want = [n for n, _ in head] + [n for n, _ in row]
    got = [p for p in inspect.signature(cls.__init__).parameters if p != 'self']
    if got != want:
        raise TranslationError(f'{cls.__name__}: __init__ parameters {got} differ from the modelled layout {want}')
    return head, idx, row


def check_lenient_return(hci, cmd, rp_info):
    """a command whose parse_return_parameters is the hand-written field-by-field parse (source
    pinned): every field a plain integer with default 0"""
    import dataclasses as dc
    for f in rp_info.fields:
        if not (f[0] == 'One' and f[2][0] == 'Atom' and f[2][1][0] in ('UInt', 'Enum')):
            raise TranslationError(f'{cmd.__name__}: lenient return parse over a non-integer field {f[1]}')
    for f in dc.fields(rp_info.pycls):
        if f.name in {x[1] for x in rp_info.fields} and f.name != 'status' and f.default != 0:
            raise TranslationError(f'{rp_info.name}.{f.name}: default {f.default!r} is not 0')
    import bumble.vendor.android.hci as android
    if _func(cmd.__dict__['parse_return_parameters']) is not _func(
            android.HCI_LE_Get_Vendor_Capabilities_Command.__dict__['parse_return_parameters']):
        raise TranslationError(f'{cmd.__name__}: overrides parse_return_parameters with uncatalogued code')


@dataclasses.dataclass
class ClassInfo:
    kind: int
    code: int
    name: str
    pycls: type
    fields: list            # list of field (see module doc); [] for custom classes
    event: int = 0          # the class's own event_code attribute (0 for commands / return parameters)
    custom: bool = False
    custom_return: bool = False      # commands: parse_return_parameters is hand-written
    selector: list | None = None     # vendor sub-event classes: allowed values of the first field
    phy: tuple | None = None         # custom classes: (head, mask index, item) with (name, aspec) entries
    ret_name: str | None = None      # commands: name of return_parameters_class
    status_first: bool = False       # return parameters: subclass of HCI_StatusReturnParameters


def _func(f):
    return getattr(f, '__func__', f)


def _closure(fn):
    if fn.__closure__ is None:
        return {}
    return {n: c.cell_contents for n, c in zip(fn.__code__.co_freevars, fn.__closure__)}


def _int_spec(n, where):
    if type(n) is not int:
        raise TranslationError(f'{where}: size {n!r} is not an int')
    if n in (1, 2, 3, 4):
        return ('UInt', n)
    if n in (-1, -2):
        return ('SInt', -n)
    if 4 < n <= 256:
        return ('FixedBytes', n)
    raise TranslationError(f'{where}: integer spec {n} has no case in parse_field/serialize_field')


def _enum_spec(hci, spec, where):
    """SpecableEnum / SpecableFlag .type_spec(size, byteorder) dict."""
    from bumble import utils
    parser, serializer = spec['parser'], spec.get('serializer')
    if serializer is None:
        raise TranslationError(f'{where}: dict spec with parser but no serializer')
    pq = getattr(parser, '__qualname__', '')
    sq = getattr(serializer, '__qualname__', '')
    fam = None
    for f in ('SpecableEnum', 'SpecableFlag'):
        if pq == f + '.type_spec.<locals>.<lambda>' and sq == pq:
            fam = f
    if fam is None:
        return None
    pc, sc = _closure(parser), _closure(serializer)
    if set(pc) != {'byteorder', 'cls', 'size'} or set(sc) != {'byteorder', 'size'}:
        raise TranslationError(f'{where}: {fam}.type_spec closure changed shape: {sorted(pc)} / {sorted(sc)}')
    if pc['size'] != sc['size'] or pc['byteorder'] != sc['byteorder']:
        raise TranslationError(f'{where}: parser and serializer disagree on size/byteorder')
    size, order, cls = pc['size'], pc['byteorder'], pc['cls']
    if type(size) is not int or size < 1 or order not in ('little', 'big'):
        raise TranslationError(f'{where}: enum type_spec size={size!r} byteorder={order!r}')
    # the parser applies cls(int): every int must be accepted
    if fam == 'SpecableEnum':
        if not (isinstance(cls, type) and issubclass(cls, utils.OpenIntEnum)):
            raise TranslationError(f'{where}: {cls!r} is not an OpenIntEnum (closed enum rejects unknown values)')
    else:
        if not (isinstance(cls, type) and issubclass(cls, enum.IntFlag)):
            raise TranslationError(f'{where}: {cls!r} is not an IntFlag')
        if getattr(cls, '_boundary_', None) is not enum.KEEP:
            raise TranslationError(f'{where}: IntFlag {cls!r} does not KEEP unknown bits')
    # behavioural probe of the two lambdas (their bodies are not otherwise inspected)
    probe = bytes([0xA1, 0x02, 0xC3, 0x04, 0xE5, 0x06, 0x17, 0x08, 0x29])
    off, val = parser(probe, 1)
    want = int.from_bytes(probe[1:1 + size], order)
    if off != 1 + size or int(val) != want or serializer(want) != probe[1:1 + size]:
        raise TranslationError(f'{where}: enum type_spec lambdas do not behave as int.from_bytes/to_bytes')
    return ('Enum', size, 'LE' if order == 'little' else 'BE')


def _is_padded_bytes_lambda(fn, size):
    code = getattr(fn, '__code__', None)
    if code is None or code.co_argcount != 1:
        return False
    if code.co_names != ('padded_bytes',) or size not in code.co_consts:
        return False
    from bumble import core
    if fn.__globals__.get('padded_bytes') is not core.padded_bytes:
        return False
    return fn(b'\x01\x02') == b'\x01\x02' + bytes(size - 2) and len(fn(bytes(size + 3))) == size + 3


def _is_random_address_lambda(hci, fn):
    code = getattr(fn, '__code__', None)
    if code is None or code.co_argcount != 2 or fn.__closure__:
        return False
    if code.co_names != ('Address', 'parse_address_with_type', 'RANDOM_DEVICE_ADDRESS'):
        return False
    if fn.__globals__.get('Address') is not hci.Address:
        return False
    off, a = fn(bytes(range(10)), 2)
    return off == 8 and bytes(a) == bytes(range(2, 8)) and a.address_type == hci.Address.RANDOM_DEVICE_ADDRESS


def aspec_of(hci, spec, where, allow_nested=True):
    """-> fspec"""
    if isinstance(spec, dict):
        extra = set(spec) - {'size', 'parser', 'serializer', 'mapper'}
        if extra:
            raise TranslationError(f'{where}: dict spec with unknown keys {sorted(extra)}')
        if 'size' in spec:
            base = _int_spec(spec['size'], where)
            if 'serializer' in spec:
                if base[0] == 'FixedBytes' and _is_padded_bytes_lambda(spec['serializer'], base[1]):
                    return ('Atom', ('FixedBytesPad', base[1]))
                raise TranslationError(f'{where}: dict spec with size and an unrecognised serializer')
            return ('Atom', base)      # a 'parser' next to 'size' is ignored by parse_field
        if 'parser' in spec:
            e = _enum_spec(hci, spec, where)
            if e is not None:
                return ('Atom', e)
            p, s = spec['parser'], spec.get('serializer')
            if (_func(p) is _func(hci.HCI_Object.parse_length_prefixed_bytes)
                    and isinstance(s, functools.partial)
                    and _func(s.func) is _func(hci.HCI_Object.serialize_length_prefixed_bytes)
                    and not s.args and set(s.keywords) <= {'padded_size'}):
                p_size = s.keywords.get('padded_size', 0)
                if type(p_size) is not int or not 0 <= p_size <= 256:
                    raise TranslationError(f'{where}: padded_size {p_size!r}')
                return ('Atom', ('LenPrefixedPadded', p_size))
            raise TranslationError(f'{where}: dict spec with an unrecognised parser/serializer pair')
        raise TranslationError(f'{where}: dict spec without size or parser (parse_field raises)')
    if isinstance(spec, str):
        table = {'>2': ('UIntBE', 2), '>4': ('UIntBE', 4), '*': ('Rest',), 'v': ('VarLen',)}
        if spec in table:
            return ('Atom', table[spec])
        raise TranslationError(f'{where}: unknown string spec {spec!r}')
    if type(spec) is int:
        return ('Atom', _int_spec(spec, where))
    if callable(spec):
        owner = getattr(spec, '__self__', None)
        fn = _func(spec)
        A = hci.Address
        if owner is A and fn is _func(A.parse_address):
            return ('Atom', ('Addr', 'APublic'))
        if owner is A and fn is _func(A.parse_random_address):
            return ('Atom', ('Addr', 'ARandom'))
        if owner is A and fn is _func(A.parse_address_preceded_by_type):
            return ('Atom', ('AddrAfterType',))
        if owner is hci.CodingFormat and fn is _func(hci.CodingFormat.parse_from_bytes):
            return ('Atom', ('CodingFmt',))
        if (isinstance(owner, type) and issubclass(owner, hci.HCI_Dataclass_Object)
                and fn is _func(hci.HCI_Dataclass_Object.parse_from_bytes)):
            if not allow_nested:
                raise TranslationError(f'{where}: nested object inside a nested object (not modelled)')
            for n in ('__bytes__', 'parse_from_bytes', '__post_init__', '__init__'):
                o = _owner(owner, n)
                ok = hci.HCI_Object if n == '__bytes__' else hci.HCI_Dataclass_Object
                if n == '__init__':
                    if o is not owner or not dataclasses.is_dataclass(owner):
                        raise TranslationError(f'{where}: nested {owner.__name__} has a hand-written __init__')
                elif o is not ok:
                    raise TranslationError(f'{where}: nested {owner.__name__} overrides {n}')
            inner = fields_of(hci, hci.HCI_Object.fields_from_dataclass(owner),
                              f'{where}->{owner.__name__}', allow_nested=False)
            afields = []
            for f in inner:
                if f[0] == 'One':
                    afields.append(('One', f[1], f[2][1]))
                else:
                    afields.append(('Arr', [(n, s[1]) for n, s in f[1]]))
            return ('Nested', owner, afields)
        if _is_random_address_lambda(hci, spec):
            return ('Atom', ('Addr', 'ARandom'))
        raise TranslationError(f'{where}: unrecognised callable spec {getattr(spec, "__qualname__", spec)!r}')
    raise TranslationError(f'{where}: unrecognised spec {spec!r}')


def fields_of(hci, fields, where, allow_nested=True):
    out = []
    names = set()
    for f in fields:
        if isinstance(f, list):
            if not f:
                raise TranslationError(f'{where}: empty array group')
            group = []
            for sub in f:
                if isinstance(sub, list):
                    raise TranslationError(f'{where}: array group inside an array group')
                n, s = sub
                if n in names:
                    raise TranslationError(f'{where}: duplicate field name {n}')
                names.add(n)
                group.append((n, aspec_of(hci, s, f'{where}.{n}', allow_nested)))
            out.append(('Arr', group))
        else:
            if not (isinstance(f, tuple) and len(f) == 2 and isinstance(f[0], str)):
                raise TranslationError(f'{where}: malformed field entry {f!r}')
            n, s = f
            if n in names:
                raise TranslationError(f'{where}: duplicate field name {n}')
            names.add(n)
            out.append(('One', n, aspec_of(hci, s, f'{where}.{n}', allow_nested)))
    return out


def check_addr_after_type(fields, where):
    """parse_address_preceded_by_type reads data[offset-1]: the field before it must be a
    one-byte integer in the same object / array item (this is what the value generator and
    the in-range contract rely on)."""
    def one_byte(s):
        return s[0] == 'Atom' and s[1][0] in ('UInt', 'Enum') and s[1][1] == 1

    def walk(seq, w):
        """seq: (name, fspec) of consecutive fields of one object / one array item"""
        prev = None
        for n, s in seq:
            if s == ('Atom', ('AddrAfterType',)) and not (prev is not None and one_byte(prev)):
                raise TranslationError(f'{w}.{n}: parse_address_preceded_by_type is not preceded by a one-byte field')
            if s[0] == 'Nested':
                walk_fields([_lift_a(f) for f in s[2]], f'{w}.{n}')
            prev = s

    def walk_fields(fs, w):
        flat = []
        for f in fs:
            if f[0] == 'One':
                flat.append((f[1], f[2]))
            else:
                walk(f[1], w)
                flat.append(('<array>', ('Arr',)))      # an array group is not a one-byte field
        walk(flat, w)

    walk_fields(fields, where)


def _lift_a(af):
    if af[0] == 'One':
        return ('One', af[1], ('Atom', af[2]))
    return ('Arr', [(n, ('Atom', a)) for n, a in af[1]])


def _owner(cls, name):
    for k in cls.__mro__:
        if name in k.__dict__:
            return k
    return None


def _check_overrides(hci, cls, kind):
    """The packet-layer model assumes the generic entry points; anything else is named."""
    if kind == KIND_COMMAND:
        base = {'from_parameters': hci.HCI_Command, 'from_bytes': hci.HCI_Command,
                '__bytes__': hci.HCI_Command, 'parameters': hci.HCI_Command}
    elif kind == KIND_EVENT:
        base = {'from_parameters': hci.HCI_Event, 'from_bytes': hci.HCI_Event,
                '__bytes__': hci.HCI_Event, 'parameters': hci.HCI_Event}
    else:       # LE sub-events and vendor sub-events
        base = {'from_parameters': hci.HCI_Extended_Event, 'from_bytes': hci.HCI_Event,
                '__bytes__': hci.HCI_Event, 'parameters': hci.HCI_Extended_Event}
    for n, want in base.items():
        got = _owner(cls, n)
        if got is want:
            continue
        if cls is hci.HCI_Command_Complete_Event and n == 'from_parameters' and got is cls:
            continue      # modelled: return-parameter dispatch
        raise TranslationError(f'{cls.__name__}: overrides {n} (defined in {got.__name__}); '
                               'the packet-layer model does not cover it')
    init_owner = _owner(cls, '__init__')
    if init_owner is not cls and init_owner not in (hci.HCI_Command, hci.HCI_Event, hci.HCI_Extended_Event):
        raise TranslationError(f'{cls.__name__}: __init__ inherited from {init_owner.__name__}')
    if init_owner is cls and not dataclasses.is_dataclass(cls):
        raise TranslationError(f'{cls.__name__}: hand-written __init__')
    if _owner(cls, '__post_init__') is not None:
        raise TranslationError(f'{cls.__name__}: defines __post_init__')


def vendor_rule(hci, factory):
    """A registered vendor event factory -> (sub-event code, [report ids], class), or fail.
    Catalogue: the Android factory (bound classmethod of a HCI_Extended_Event subclass that
    returns <Class>.from_parameters(parameters) when parameters[0] is the sub-event code and
    parameters[1] one of a literal tuple of ids, and None otherwise)."""
    owner = getattr(factory, '__self__', None)
    fn = _func(factory)
    code = getattr(fn, '__code__', None)
    name = getattr(factory, '__qualname__', repr(factory))
    if not (isinstance(owner, type) and issubclass(owner, hci.HCI_Extended_Event) and code is not None):
        raise TranslationError(f'vendor factory {name}: not a classmethod of an HCI_Extended_Event subclass')
    names = tuple(n for n in code.co_names if n != 'len')
    if len(names) != 3 or names[2] != 'from_parameters':
        raise TranslationError(f'vendor factory {name}: unrecognised shape (names {code.co_names})')
    g = fn.__globals__
    sub, cls = g.get(names[0]), g.get(names[1])
    ids = [c for c in code.co_consts if isinstance(c, tuple) and c and all(type(x) is int for x in c)]
    if type(sub) is not int or not isinstance(cls, type) or len(ids) != 1:
        raise TranslationError(f'vendor factory {name}: cannot read sub-event code / class / id tuple')
    ids = sorted(ids[0])
    if not (issubclass(cls, hci.HCI_Extended_Event) and getattr(cls, 'subevent_code', None) == sub):
        raise TranslationError(f'vendor factory {name}: {cls.__name__} is not the class of sub-event {sub:#x}')
    # behavioural probe
    body = bytes(250)
    other = next(x for x in range(256) if x not in ids)
    try:
        ok = (isinstance(factory(bytes([sub, ids[0]]) + body), cls)
              and factory(bytes([sub, other]) + body) is None
              and factory(bytes([sub ^ 1, ids[0]]) + body) is None)
    except Exception as e:
        raise TranslationError(f'vendor factory {name}: probe raised {type(e).__name__}')
    if not ok:
        raise TranslationError(f'vendor factory {name}: does not behave as (sub-event, id) dispatch')
    return sub, ids, cls


FAILED: list = []      # (kind, code, class, message) of classes skipped by load(strict=False)


def load(strict=True):
    """-> (hci module, [ClassInfo])  in a deterministic order.  With strict=False a class
    that cannot be translated is skipped and recorded in FAILED (used only to keep the
    harness running for the other classes after the translator has already failed the check)."""
    from bumble import hci
    import_registering_modules()
    infos: list[ClassInfo] = []
    rps: dict[type, ClassInfo] = {}
    FAILED.clear()

    def add_rp(rp):
        if rp in rps:
            return rps[rp]
        if not (isinstance(rp, type) and issubclass(rp, hci.HCI_ReturnParameters)):
            raise TranslationError(f'return parameters class {rp!r} is not an HCI_ReturnParameters')
        status_first = issubclass(rp, hci.HCI_StatusReturnParameters)
        want = hci.HCI_StatusReturnParameters if status_first else hci.HCI_ReturnParameters
        if _owner(rp, 'from_parameters') is not want:
            raise TranslationError(f'{rp.__name__}: overrides from_parameters')
        if _owner(rp, '__bytes__') is not hci.HCI_Object:
            raise TranslationError(f'{rp.__name__}: overrides __bytes__')
        fields = fields_of(hci, rp.fields, rp.__name__)
        if status_first:
            f0 = fields[0] if fields else None
            if not (f0 and f0[0] == 'One' and f0[1] == 'status' and f0[2] == ('Atom', ('Enum', 1, 'LE'))):
                raise TranslationError(f'{rp.__name__}: first field is not a 1-byte status enum')
        check_addr_after_type(fields, rp.__name__)
        info = ClassInfo(KIND_RETURN, len(rps), rp.__name__, rp, fields, status_first=status_first)
        rps[rp] = info
        return info

    # the two fallback return-parameter classes are always present
    add_rp(hci.HCI_GenericReturnParameters)
    add_rp(hci.HCI_StatusReturnParameters)

    for kind, reg, attr in ((KIND_COMMAND, hci.HCI_Command.command_classes, 'op_code'),
                            (KIND_EVENT, hci.HCI_Event.event_classes, 'event_code'),
                            (KIND_LE_EVENT, hci.HCI_LE_Meta_Event.subevent_classes, 'subevent_code')):
        for code in sorted(reg):
            cls = reg[code]
            name = cls.__name__
            if getattr(cls, attr, None) != code:
                raise TranslationError(f'{name}: registered under {code:#x} but {attr}={getattr(cls, attr, None)!r}')
            try:
                if name in CUSTOM_CLASSES:
                    if cls.fields:
                        raise TranslationError(f'{name}: custom class now has a field list')
                    info = ClassInfo(kind, code, name, cls, [], custom=True, phy=phy_shape(cls))
                else:
                    _check_overrides(hci, cls, kind)
                    info = ClassInfo(kind, code, name, cls, fields_of(hci, cls.fields, name))
                    check_addr_after_type(info.fields, name)
                if kind != KIND_COMMAND:
                    info.event = getattr(cls, 'event_code', None)
                    if type(info.event) is not int:
                        raise TranslationError(f'{name}: no integer event_code')
                if kind == KIND_COMMAND and issubclass(cls, hci.HCI_SyncCommand):
                    info.ret_name = add_rp(cls.return_parameters_class).name
                    if _owner(cls, 'parse_return_parameters') is not hci.HCI_SyncCommand:
                        check_lenient_return(hci, cls, rps[cls.return_parameters_class])
                        info.custom_return = True       # the catalogued lenient parse
            except TranslationError as e:
                if strict:
                    raise
                FAILED.append((kind, code, cls, str(e)))
                continue
            infos.append(info)
    # vendor event factories, in call order, and the classes they dispatch to
    rules = []
    base = hci.HCI_Extended_Event.subevent_classes
    for factory in hci.HCI_Event.vendor_factories:
        try:
            sub, ids, cls = vendor_rule(hci, factory)
            _check_overrides(hci, cls, KIND_VENDOR)
            info = ClassInfo(KIND_VENDOR, sub, cls.__name__, cls, fields_of(hci, cls.fields, cls.__name__))
            check_addr_after_type(info.fields, cls.__name__)
            info.event = getattr(cls, 'event_code', None)
            if type(info.event) is not int:
                raise TranslationError(f'{cls.__name__}: no integer event_code')
            f0 = info.fields[0] if info.fields else None
            if not (f0 and f0[0] == 'One' and f0[2] == ('Atom', ('UInt', 1))):
                raise TranslationError(f'{cls.__name__}: first field is not the one-byte id the factory selects on')
            info.selector = ids
        except TranslationError as e:
            if strict:
                raise
            FAILED.append((KIND_VENDOR, -1, None, str(e)))
            continue
        rules.append((sub, ids))
        infos.append(info)
    # which dict object holds which registry
    dicts = [(KIND_COMMAND, hci.HCI_Command.command_classes), (KIND_EVENT, hci.HCI_Event.event_classes),
             (KIND_LE_EVENT, hci.HCI_LE_Meta_Event.subevent_classes), (KIND_VENDOR, base)]
    seen = []
    objects = []
    for kind, d in dicts:
        for i, o in enumerate(seen):
            if o is d:
                objects.append((kind, i))
                break
        else:
            seen.append(d)
            objects.append((kind, len(seen) - 1))
    if base is not hci.HCI_LE_Meta_Event.subevent_classes:
        dispatched = {i.pycls for i in infos if i.kind == KIND_VENDOR}
        for code in sorted(base):
            if base[code] not in dispatched:
                msg = (f'{base[code].__name__}: registered in HCI_Extended_Event.subevent_classes but no '
                       'recognised vendor factory dispatches to it')
                if strict:
                    raise TranslationError(msg)
                FAILED.append((KIND_VENDOR, code, None, msg))
    infos.extend(rps.values())
    EXTRA.clear()
    EXTRA.update(rules=rules, objects=objects, modules=list(MODULES))
    return hci, infos


EXTRA: dict = {}


# ----------------------------------------------------------------------------- Coq text
def coq_aspec(a):
    if a[0] in ('UInt', 'SInt', 'UIntBE', 'FixedBytes', 'FixedBytesPad', 'LenPrefixedPadded'):
        return f'{a[0]} {a[1]}'
    if a[0] == 'Enum':
        return f'Enum {a[1]} {a[2]}'
    if a[0] == 'Addr':
        return f'Addr {a[1]}'
    return a[0]


def coq_afield(f):
    if f[0] == 'One':
        return f'One ({coq_aspec(f[2])})'
    return 'Arr [' + '; '.join(coq_aspec(s) for _, s in f[1]) + ']'


def coq_fspec(s):
    if s[0] == 'Atom':
        return f'Atom ({coq_aspec(s[1])})'
    return 'Nested [' + '; '.join(coq_afield(f) for f in s[2]) + ']'


def coq_field(f):
    if f[0] == 'One':
        s = f[2]
        if s[0] == 'Atom':
            return f'F1 ({coq_aspec(s[1])})'
        return f'One ({coq_fspec(s)})'
    if all(s[0] == 'Atom' for _, s in f[1]):
        return 'FA [' + '; '.join(coq_aspec(s[1]) for _, s in f[1]) + ']'
    return 'Arr [' + '; '.join(coq_fspec(s) for _, s in f[1]) + ']'


def coq_fields(fields):
    return '[' + '; '.join(coq_field(f) for f in fields) + ']'


def render(infos):
    lines = [
        '(* GENERATED by tools/translate/c01_fieldspecs.py from bumble/hci.py on every run. Do not edit. *)',
        'From Coq Require Import ZArith List String.',
        'From BV Require Import Model.SpecCodec Model.HciPacket.',
        'Import ListNotations.',
        'Local Open Scope Z_scope.',
        'Local Open Scope string_scope.',
        '',
        '(* modules imported (every module under bumble/ that registers HCI classes): '
        + ', '.join(EXTRA.get('modules', [])) + ' *)',
        '(* mkcls kind code event_code name fields; kind: 0 command, 1 event, 2 LE sub-event, 3 return',
        '   parameters (code = index), 4 vendor sub-event reached through a vendor factory *)',
        'Definition classes : list cls := [',
    ]
    rows = []
    for i in infos:
        if i.custom:
            continue
        rows.append(f'  mkcls {i.kind} {i.code} {i.event} "{i.name}" {coq_fields(i.fields)}')
    lines.append(';\n'.join(rows))
    lines.append('].')
    lines.append('')
    lines.append('(* hand-written PHY-mask commands: opcode, name, head fields, index of the mask, fields of one item *)')
    lines.append('Definition phy_classes : list phycls := [')
    rows = []
    for i in infos:
        if i.custom:
            head, idx, row = i.phy
            rows.append(f'  mkphy {i.code} "{i.name}" [' + '; '.join(f'F1 ({coq_aspec(a)})' for _, a in head)
                        + f'] {idx}%nat [' + '; '.join(coq_aspec(a) for _, a in row) + ']')
    lines.append(';\n'.join(rows))
    lines.append('].')
    lines.append('')
    lines.append('(* command opcode -> (return parameters class name, first field is a status) *)')
    lines.append('Definition return_classes : list (Z * (string * bool)) := [')
    rp = {i.name: i for i in infos if i.kind == KIND_RETURN}
    rows = []
    for i in infos:
        if i.kind == KIND_COMMAND and i.ret_name is not None:
            rows.append(f'  ({i.code}, ("{i.ret_name}", {"true" if rp[i.ret_name].status_first else "false"}))')
    lines.append(';\n'.join(rows))
    lines.append('].')
    lines.append('')
    lines.append('(* commands whose return parameters are parsed field by field until the data runs out *)')
    lines.append('Definition lenient_return_opcodes : list Z := ['
                 + '; '.join(str(i.code) for i in infos if i.kind == KIND_COMMAND and i.custom_return) + '].')
    lines.append('')
    lines.append('(* HCI_Event.vendor_factories in call order: (sub-event code, report ids) *)')
    lines.append('Definition vendor_rules : list (Z * list Z) := ['
                 + '; '.join(f'({sub}, [' + '; '.join(str(x) for x in ids) + '])' for sub, ids in EXTRA.get('rules', [])) + '].')
    lines.append('')
    lines.append('(* (kind, index of the distinct dict object holding that registry): command_classes,')
    lines.append('   event_classes, HCI_LE_Meta_Event.subevent_classes, HCI_Extended_Event.subevent_classes *)')
    lines.append('Definition registry_objects : list (Z * Z) := ['
                 + '; '.join(f'({k}, {i})' for k, i in EXTRA.get('objects', [])) + '].')
    lines.append('')
    lines.append('Definition registry : registry :=')
    lines.append('  mkreg classes phy_classes return_classes lenient_return_opcodes vendor_rules registry_objects.')
    lines.append('')
    return '\n'.join(lines)


def regen(ctx):
    hci, infos = load()
    ctx.write_gen('C01Registry', render(infos))
    return hci, infos


if __name__ == '__main__':
    _, infos = load()
    print(render(infos)[:3000])
    print(len(infos))
