"""C03 translator: which helper functions of bumble/controller.py and bumble/link.py every HCI
command handler calls SYNCHRONOUSLY (transitively), and which of them may raise synchronously
-> coq/Gen/C03SyncCalls.v

A call is synchronous when it is an ast.Call (or a load of a @property) in the body of the
function itself; what is passed to call_soon / call_later / create_task / add_done_callback, and
the bodies of nested functions and lambdas, runs later and is not followed.  Calls are resolved by
method name over all classes of the two modules (conservative union).  A function "may raise
synchronously" when its own body contains an `assert`, a `raise`, or `next(...)` without a default
(outside nested functions).  Subscripts are not considered (too many are guarded by construction);
exceptions for particular parameter values stay with the dynamic campaign.
Model/SyncCalls.v lists the (handler, helper) pairs that were reviewed; Props/C03.v proves on every
run that every pair found in the current source is among them, so that turning a deferred call
into a synchronous one, or adding an assert / raise to a helper reachable from a handler, breaks a
proof obligation."""
from __future__ import annotations

import ast
import inspect
import re

DEFERRERS = {'call_soon', 'call_later', 'call_at', 'create_task', 'ensure_future', 'add_done_callback',
             'call_soon_threadsafe', 'run_in_task', 'spawn'}


class SyncError(Exception):
    pass


def _own_nodes(fn):
    """nodes of the function body that execute when the function is called (not nested defs/lambdas,
    not the callable arguments of deferring calls)"""
    out = []

    def visit(node, top=False):
        if not top and isinstance(node, (ast.FunctionDef, ast.AsyncFunctionDef, ast.Lambda, ast.ClassDef)):
            return
        out.append(node)
        if isinstance(node, ast.Call):
            name = node.func.attr if isinstance(node.func, ast.Attribute) else getattr(node.func, 'id', None)
            if name in DEFERRERS:
                visit(node.func)
                # the first argument is a callable run later; remaining arguments are evaluated now
                args = list(node.args)
                rest = args[1:] if name not in ('call_later', 'call_at') else args[2:] if len(args) > 1 else []
                if name in ('call_later', 'call_at') and args:
                    visit(args[0])
                first = args[0] if name not in ('call_later', 'call_at') else (args[1] if len(args) > 1 else None)
                if first is not None and not isinstance(first, (ast.Attribute, ast.Name, ast.Lambda)):
                    visit(first)        # e.g. create_task(coro()) : the call expression itself runs now
                for a in rest:
                    visit(a)
                for k in node.keywords:
                    visit(k.value)
                return
        for child in ast.iter_child_nodes(node):
            visit(child)
    for stmt in fn.body:
        visit(stmt)
    return out


def _may_raise(fn) -> bool:
    for n in _own_nodes(fn):
        if isinstance(n, (ast.Assert, ast.Raise)):
            return True
        if isinstance(n, ast.Call) and isinstance(n.func, ast.Name) and n.func.id == 'next' and len(n.args) == 1:
            return True
    return False


def analyse():
    import bumble.controller as controller
    import bumble.link as link
    funcs = {}          # qualified name -> FunctionDef
    by_name = {}        # method name -> [qualified names]
    props = set()
    for mod, modname in ((controller, 'controller'), (link, 'link')):
        tree = ast.parse(inspect.getsource(mod))
        for cls in [n for n in tree.body if isinstance(n, ast.ClassDef)]:
            for f in cls.body:
                if isinstance(f, (ast.FunctionDef, ast.AsyncFunctionDef)):
                    q = f'{cls.name}.{f.name}'
                    if any(isinstance(d, ast.Attribute) and d.attr == 'setter' for d in f.decorator_list):
                        q += '.setter'
                    funcs[q] = f
                    by_name.setdefault(f.name, []).append(q)
                    if any(isinstance(d, ast.Name) and d.id == 'property' for d in f.decorator_list):
                        props.add(f.name)
    callees = {}
    for q, f in funcs.items():
        cs = set()
        for n in _own_nodes(f):
            if isinstance(n, ast.Call):
                name = n.func.attr if isinstance(n.func, ast.Attribute) else getattr(n.func, 'id', None)
                if name in by_name and name not in ('__init__', '__post_init__'):
                    cs.update(by_name[name])
            elif isinstance(n, ast.Attribute) and n.attr in props:
                cs.update(x for x in by_name[n.attr])
        callees[q] = cs
    raises = {q: _may_raise(f) for q, f in funcs.items()}
    handlers = sorted(q for q in funcs if re.fullmatch(r'Controller\.on_hci_.*_command', q)
                      or q in ('Controller.on_hci_command', 'Controller.on_hci_command_packet'))
    rows = []
    for h in handlers:
        seen = set()
        stack = list(callees[h])
        while stack:
            q = stack.pop()
            if q in seen or q == h:
                continue
            seen.add(q)
            stack.extend(callees[q])
        # handlers reached through the dispatch's getattr are not followed (the dispatch row is separate)
        rows.append((h, raises[h], sorted((q, raises[q]) for q in seen)))
    return rows


def translate():
    rows = analyse()
    lines = [
        '(* GENERATED by tools/translate/c03_synccalls.py from bumble/controller.py and bumble/link.py.  Do not edit. *)',
        'From Coq Require Import List String Bool.',
        'Import ListNotations.',
        'Open Scope string_scope.',
        '',
        '(* handler, helpers it calls synchronously (transitively), each with "may raise synchronously" *)',
        'Definition sync_calls : list (string * list (string * bool)) := [',
    ]
    body = []
    for h, own, helpers in rows:
        hs = '; '.join(f'("{q}", {"true" if r else "false"})' for q, r in helpers)
        body.append(f'  ("{h}", [{hs}])')
    lines.append(';\n'.join(body))
    lines += ['].', '']
    return '\n'.join(lines), rows
