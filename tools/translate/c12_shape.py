"""C12 translator: the shape of the anchored GATT client / server functions, regenerated from the
source on every run into coq/Gen/C12Shape.v.

Two tables (both fail closed: a function that is missing, a pattern that does not occur exactly
as often as expected, or a constant that is not an integer literal aborts the translation):

  src_skeletons : list (string * string)
      per anchored function, its control-flow skeleton: the normalised source (ast.unparse) of
      every statement, with logging calls, docstrings, comments, formatting and exception
      messages removed.  Conditions, comparison operators, bounds, which call happens on which
      branch and in which order are all in it.
  src_consts : list (string * Z)
      the integer constants of the size / handle / bit arithmetic, extracted by matching AST
      templates (e.g. `len(value_as_bytes) > bearer.att_mtu - K_`), plus opcodes, error codes
      and limits read from the imported modules.

Props/C12.v proves `src_skeletons = model_skeletons` and `src_consts = model_consts` by
computation, where the model_* tables (Model/GattClientShape.v) are what Model/GattClient.v was
written from, and Proofs/GattClient.v shows the model functions are stated in terms of exactly
those constants.
"""
import ast
import inspect
import textwrap


# ----------------------------------------------------------------------------- skeletons
def _u(n):
    return ast.unparse(n) if n is not None else ''


def _is_log(call):
    f = call.func
    while isinstance(f, ast.Attribute):
        f = f.value
    return isinstance(f, ast.Name) and f.id in ('logger', 'logging')


def _raise(n):
    exc = n.exc
    if exc is None:
        return 'raise'
    if isinstance(exc, ast.Call):
        kws = [f'{k.arg}={_u(k.value)}' for k in exc.keywords if k.arg in ('error_code', 'att_handle')]
        return f'raise {_u(exc.func)}({",".join(kws)})'
    return 'raise ' + _u(exc)


def _sk(stmts):
    return ';'.join(x for x in (_sk1(s) for s in stmts) if x)


def _sk1(n):
    if isinstance(n, ast.If):
        return f'if {_u(n.test)}{{{_sk(n.body)}}}' + (f'else{{{_sk(n.orelse)}}}' if n.orelse else '')
    if isinstance(n, (ast.For, ast.AsyncFor)):
        return f'for {_u(n.target)} in {_u(n.iter)}{{{_sk(n.body)}}}' + (f'else{{{_sk(n.orelse)}}}' if n.orelse else '')
    if isinstance(n, ast.While):
        return f'while {_u(n.test)}{{{_sk(n.body)}}}'
    if isinstance(n, ast.Return):
        return 'return ' + _u(n.value)
    if isinstance(n, ast.Raise):
        return _raise(n)
    if isinstance(n, ast.Break):
        return 'break'
    if isinstance(n, ast.Continue):
        return 'continue'
    if isinstance(n, ast.Pass):
        return ''
    if isinstance(n, ast.Expr):
        v = n.value
        if isinstance(v, ast.Constant):
            return ''                                   # docstring
        if isinstance(v, ast.Await):
            v2 = v.value
            if isinstance(v2, ast.Call) and _is_log(v2):
                return ''
        if isinstance(v, ast.Call) and _is_log(v):
            return ''
        return _u(n)
    if isinstance(n, ast.Try):
        s = f'try{{{_sk(n.body)}}}'
        for h in n.handlers:
            s += f'except {_u(h.type)}{{{_sk(h.body)}}}'
        if n.orelse:
            s += f'else{{{_sk(n.orelse)}}}'
        if n.finalbody:
            s += f'finally{{{_sk(n.finalbody)}}}'
        return s
    if isinstance(n, (ast.With, ast.AsyncWith)):
        return f'with {",".join(_u(i) for i in n.items)}{{{_sk(n.body)}}}'
    if isinstance(n, ast.AnnAssign):
        return f'{_u(n.target)} = {_u(n.value)}' if n.value is not None else ''
    if isinstance(n, (ast.FunctionDef, ast.AsyncFunctionDef)):
        return f'def {n.name}{{{_sk(n.body)}}}'
    return _u(n)


def func_ast(obj):
    src = textwrap.dedent(inspect.getsource(obj))
    tree = ast.parse(src)
    fn = tree.body[0]
    if not isinstance(fn, (ast.FunctionDef, ast.AsyncFunctionDef)):
        raise ValueError(f'{obj}: not a function')
    return fn


def skeleton(obj):
    fn = func_ast(obj)
    args = ','.join(a.arg for a in fn.args.args)
    s = f'({args}){{{_sk(fn.body)}}}'
    if not s.isascii():
        raise ValueError(f'{obj}: non-ASCII text in the skeleton')
    return s


# ----------------------------------------------------------------------------- constants by template
def _unify(t, n, env):
    if isinstance(t, ast.Name) and t.id.startswith('K') and t.id.endswith('_'):
        if isinstance(n, ast.Constant) and isinstance(n.value, int) and not isinstance(n.value, bool):
            if t.id in env and env[t.id] != n.value:
                return False
            env[t.id] = n.value
            return True
        return False
    if type(t) is not type(n):
        return False
    for f in t._fields:
        a, b = getattr(t, f, None), getattr(n, f, None)
        if f in ('ctx', 'type_comment', 'kind'):
            continue
        if isinstance(a, list):
            if not isinstance(b, list) or len(a) != len(b):
                return False
            for x, y in zip(a, b):
                if isinstance(x, ast.AST):
                    if not _unify(x, y, env):
                        return False
                elif x != y:
                    return False
        elif isinstance(a, ast.AST):
            if not isinstance(b, ast.AST) or not _unify(a, b, env):
                return False
        elif a != b:
            return False
    return True


def consts_of(obj, template, times=1):
    """all bindings of K*_ placeholders of `template` (a statement or an expression) inside the
    function; the template must match exactly `times` nodes, all with the same bindings"""
    fn = func_ast(obj)
    t = ast.parse(template).body[0]
    if isinstance(t, ast.Expr):
        t = t.value
    found = []
    for n in ast.walk(fn):
        env = {}
        if _unify(t, n, env):
            found.append(env)
    if len(found) != times:
        raise ValueError(f'{obj.__qualname__}: pattern `{template}` occurs {len(found)} times, expected {times}')
    for e in found[1:]:
        if e != found[0]:
            raise ValueError(f'{obj.__qualname__}: pattern `{template}` occurs with different constants')
    return found[0]


# ----------------------------------------------------------------------------- what is extracted
def collect():
    from bumble import att, gatt, gatt_client, gatt_server
    C, S = gatt_client.Client, gatt_server.Server
    funcs = [
        ('client.discover_services', C.discover_services),
        ('client.discover_service', C.discover_service),
        ('client.discover_included_services', C.discover_included_services),
        ('client.discover_characteristics', C.discover_characteristics),
        ('client.discover_descriptors', C.discover_descriptors),
        ('client.discover_attributes', C.discover_attributes),
        ('client.read_characteristics_by_uuid', C.read_characteristics_by_uuid),
        ('client.read_value', C.read_value),
        ('client.write_value', C.write_value),
        ('client.on_att_handle_value_notification', C.on_att_handle_value_notification),
        ('client.on_att_handle_value_indication', C.on_att_handle_value_indication),
        ('server.next_handle', S.next_handle),
        ('server.add_attribute', S.add_attribute),
        ('server.add_service', S.add_service),
        ('server.read_cccd', S.read_cccd),
        ('server.write_cccd', S.write_cccd),
        ('server.notify_subscriber', S.notify_subscriber),
        ('server._notify_single_subscriber', S._notify_single_subscriber),
        ('server.indicate_subscriber', S.indicate_subscriber),
        ('server._indicate_single_bearer', S._indicate_single_bearer),
        ('server._notify_or_indicate_subscribers', S._notify_or_indicate_subscribers),
        ('server.on_att_find_information_request', S.on_att_find_information_request),
        ('server.on_att_find_by_type_value_request', S.on_att_find_by_type_value_request),
        ('server.on_att_read_by_type_request', S.on_att_read_by_type_request),
        ('server.on_att_read_by_group_type_request', S.on_att_read_by_group_type_request),
        ('server.on_att_read_request', S.on_att_read_request),
        ('server.on_att_read_blob_request', S.on_att_read_blob_request),
        ('server.on_att_write_request', S.on_att_write_request),
        ('server.on_att_write_command', S.on_att_write_command),
        ('gatt.IncludedServiceDeclaration.__init__', gatt.IncludedServiceDeclaration.__init__),
        ('gatt.CharacteristicDeclaration.__init__', gatt.CharacteristicDeclaration.__init__),
    ]
    skeletons = []
    for name, f in funcs:
        f = getattr(f, '__wrapped__', f)
        skeletons.append((name, skeleton(f)))

    def k(obj, template, times=1, key='K_'):
        obj = getattr(obj, '__wrapped__', obj)
        return consts_of(obj, template, times)[key]

    consts = [
        # ---- client loops
        ('services.first_handle', k(C.discover_services, 'starting_handle = K_')),
        ('services.while_lt', k(C.discover_services, 'starting_handle < K_')),
        ('services.ending', k(C.discover_services, 'att.ATT_Read_By_Group_Type_Request(starting_handle=starting_handle, ending_handle=K_, attribute_group_type=GATT_PRIMARY_SERVICE_ATTRIBUTE_TYPE)')),
        ('services.advance', k(C.discover_services, 'starting_handle = response.attributes[-1][1] + K_')),
        ('service.first_handle', k(C.discover_service, 'starting_handle = K_')),
        ('service.while_lt', k(C.discover_service, 'starting_handle < K_')),
        ('service.stop_at', k(C.discover_service, 'end_group_handle == K_')),
        ('service.advance', k(C.discover_service, 'starting_handle = response.handles_information[-1][1] + K_')),
        ('included.advance', k(C.discover_included_services, 'starting_handle = response.attributes[-1][0] + K_')),
        ('chars.advance', k(C.discover_characteristics, 'starting_handle = response.attributes[-1][0] + K_')),
        ('chars.prev_end', k(C.discover_characteristics, 'characteristics[-1].end_group_handle = attribute_handle - K_')),
        ('descs.first', k(C.discover_descriptors, 'starting_handle = characteristic.handle + K_')),
        ('descs.advance', k(C.discover_descriptors, 'starting_handle = response.information[-1][0] + K_')),
        ('attrs.first_handle', k(C.discover_attributes, 'starting_handle = K_')),
        ('attrs.ending', k(C.discover_attributes, 'ending_handle = K_')),
        ('attrs.advance', k(C.discover_attributes, 'starting_handle = attributes[-1].handle + K_')),
        ('read_by_uuid.advance', k(C.read_characteristics_by_uuid, 'starting_handle = response.attributes[-1][0] + K_')),
        ('read.long_if', k(C.read_value, 'len(attribute_value) == self.mtu - K_')),
        ('read.short_part', k(C.read_value, 'len(part) < self.mtu - K_')),
        # ---- server handlers
        ('fi.space', k(S.on_att_find_information_request, 'pdu_space_available = bearer.att_mtu - K_')),
        ('fi.entry_hdr', k(S.on_att_find_information_request, 'pdu_space_available < K_ + uuid_size')),
        ('fi.entry_hdr2', k(S.on_att_find_information_request, 'pdu_space_available -= K_ + uuid_size')),
        ('fbtv.space', k(S.on_att_find_by_type_value_request, 'pdu_space_available = bearer.att_mtu - K_')),
        ('fbtv.entry', k(S.on_att_find_by_type_value_request, 'pdu_space_available >= K_')),
        ('fbtv.entry2', k(S.on_att_find_by_type_value_request, 'pdu_space_available -= K_')),
        ('rbt.space', k(S.on_att_read_by_type_request, 'pdu_space_available = bearer.att_mtu - K_')),
        ('rbt.limit_off', consts_of(S.on_att_read_by_type_request.__wrapped__ if hasattr(S.on_att_read_by_type_request, '__wrapped__') else S.on_att_read_by_type_request,
                                    'max_attribute_size = min(bearer.att_mtu - K1_, K2_)')['K1_']),
        ('rbt.limit_max', consts_of(getattr(S.on_att_read_by_type_request, '__wrapped__', S.on_att_read_by_type_request),
                                    'max_attribute_size = min(bearer.att_mtu - K1_, K2_)')['K2_']),
        ('rbt.entry_hdr', k(S.on_att_read_by_type_request, 'entry_size = K_ + len(attribute_value)')),
        ('rbgt.space', k(S.on_att_read_by_group_type_request, 'pdu_space_available = bearer.att_mtu - K_')),
        ('rbgt.limit_off', consts_of(getattr(S.on_att_read_by_group_type_request, '__wrapped__', S.on_att_read_by_group_type_request),
                                     'max_attribute_size = min(bearer.att_mtu - K1_, K2_)')['K1_']),
        ('rbgt.limit_max', consts_of(getattr(S.on_att_read_by_group_type_request, '__wrapped__', S.on_att_read_by_group_type_request),
                                     'max_attribute_size = min(bearer.att_mtu - K1_, K2_)')['K2_']),
        ('rbgt.entry_hdr', k(S.on_att_read_by_group_type_request, 'entry_size = K_ + len(attribute_value)')),
        ('read.size', k(S.on_att_read_request, 'value_size = min(bearer.att_mtu - K_, len(value))')),
        ('blob.not_long', k(S.on_att_read_blob_request, 'len(value) <= bearer.att_mtu - K_')),
        ('blob.part', k(S.on_att_read_blob_request, 'part_size = min(bearer.att_mtu - K_, len(value) - request.value_offset)')),
        ('write.max', int(gatt.GATT_MAX_ATTRIBUTE_VALUE_SIZE)),
        ('notify.trunc_if', k(S._notify_single_subscriber, 'len(value_as_bytes) > bearer.att_mtu - K_')),
        ('notify.trunc', k(S._notify_single_subscriber, 'value_as_bytes = value_as_bytes[:bearer.att_mtu - K_]')),
        ('notify.cccd_len', k(S._notify_single_subscriber, 'len(cccd) != K_')),
        ('notify.bit', k(S._notify_single_subscriber, 'cccd[0] & K_ == 0')),
        ('indicate.trunc_if', k(S._indicate_single_bearer, 'len(value_as_bytes) > bearer.att_mtu - K_')),
        ('indicate.trunc', k(S._indicate_single_bearer, 'value_as_bytes = value_as_bytes[:bearer.att_mtu - K_]')),
        ('indicate.cccd_len', k(S._indicate_single_bearer, 'len(cccd) != K_')),
        ('indicate.bit', k(S._indicate_single_bearer, 'cccd[0] & K_ == 0')),
        ('write_cccd.len', k(S.write_cccd, 'len(value) != K_')),
        ('next_handle.base', k(S.next_handle, 'K_ + len(self.attributes)')),
        ('chardecl.value_handle', k(S.add_service, 'CharacteristicDeclaration(characteristic, self.next_handle() + K_)')),
        # ---- values read from the modules
        ('prop.notify', int(gatt.Characteristic.Properties.NOTIFY)),
        ('prop.indicate', int(gatt.Characteristic.Properties.INDICATE)),
        ('op.notification', int(att.Opcode.ATT_HANDLE_VALUE_NOTIFICATION)),
        ('op.indication', int(att.Opcode.ATT_HANDLE_VALUE_INDICATION)),
        ('err.invalid_handle', int(att.ATT_INVALID_HANDLE_ERROR)),
        ('err.invalid_offset', int(att.ATT_INVALID_OFFSET_ERROR)),
        ('err.not_found', int(att.ATT_ATTRIBUTE_NOT_FOUND_ERROR)),
        ('err.not_long', int(att.ATT_ATTRIBUTE_NOT_LONG_ERROR)),
        ('err.invalid_length', int(att.ATT_INVALID_ATTRIBUTE_LENGTH_ERROR)),
        ('uuid.primary', int.from_bytes(gatt.GATT_PRIMARY_SERVICE_ATTRIBUTE_TYPE.to_pdu_bytes(), 'little')),
        ('uuid.secondary', int.from_bytes(gatt.GATT_SECONDARY_SERVICE_ATTRIBUTE_TYPE.to_pdu_bytes(), 'little')),
        ('uuid.include', int.from_bytes(gatt.GATT_INCLUDE_ATTRIBUTE_TYPE.to_pdu_bytes(), 'little')),
        ('uuid.characteristic', int.from_bytes(gatt.GATT_CHARACTERISTIC_ATTRIBUTE_TYPE.to_pdu_bytes(), 'little')),
        ('uuid.cccd', int.from_bytes(gatt.GATT_CLIENT_CHARACTERISTIC_CONFIGURATION_DESCRIPTOR.to_pdu_bytes(), 'little')),
        ('att.default_mtu', int(att.ATT_DEFAULT_MTU)),
    ]
    return skeletons, consts


def coq_str(s):
    return '"' + s.replace('"', '""') + '"'


def render(skeletons, consts):
    out = ['(* GENERATED by tools/translate/c12_shape.py from bumble/gatt_client.py, gatt_server.py, gatt.py, att.py.',
           '   Do not edit. *)',
           'From Coq Require Import ZArith List String.',
           'Import ListNotations.',
           'Open Scope Z_scope.',
           'Open Scope string_scope.',
           '',
           'Definition src_skeletons : list (string * string) := [']
    out.append(';\n'.join(f'  ({coq_str(n)},\n   {coq_str(s)})' for n, s in skeletons))
    out.append('].')
    out.append('')
    out.append('Definition src_consts : list (string * Z) := [')
    out.append(';\n'.join(f'  ({coq_str(n)}, {v})' for n, v in consts))
    out.append('].')
    return '\n'.join(out) + '\n'
