"""C04 translator: reads the shape of DataPacketQueue (bumble/host.py) and FlowControlAsyncPipe (bumble/utils.py)
from the current source by AST and writes coq/Gen/C04Shape.v.  Fail closed: anything unrecognised raises."""
import ast
import os


def _cls(tree, name):
    for n in ast.walk(tree):
        if isinstance(n, ast.ClassDef) and n.name == name:
            return n
    raise RuntimeError(f'class {name} not found')


def _fn(cls, name):
    for n in cls.body:
        if isinstance(n, (ast.FunctionDef, ast.AsyncFunctionDef)) and n.name == name:
            return n
    raise RuntimeError(f'{cls.name}.{name} not found')


def _calls(fn, attr_chain):
    """number of calls of self.<a>.<b>… / self.<a>() in fn"""
    k = 0
    for n in ast.walk(fn):
        if isinstance(n, ast.Call):
            f, chain = n.func, []
            while isinstance(f, ast.Attribute):
                chain.append(f.attr)
                f = f.value
            if isinstance(f, ast.Name) and f.id == 'self' and list(reversed(chain)) == attr_chain:
                k += 1
    return k


def _one_of(fn, base, options):
    found = [o for o in options if _calls(fn, base + [o])]
    if len(found) != 1:
        raise RuntimeError(f'{fn.name}: expected exactly one of {options} on self.{".".join(base)}, found {found}')
    return found[0]


def _cmp_ops(fn):
    return [type(op).__name__ for n in ast.walk(fn) if isinstance(n, ast.Compare) for op in n.ops]


def _b(x):
    return 'true' if x else 'false'


def translate(repo):
    host = ast.parse(open(os.path.join(repo, 'bumble', 'host.py')).read())
    utils = ast.parse(open(os.path.join(repo, 'bumble', 'utils.py')).read())
    q = _cls(host, 'DataPacketQueue')
    enq, flush, chk, done = (_fn(q, n) for n in ('enqueue', 'flush', '_check_queue', 'on_packets_completed'))
    q_in = _one_of(enq, ['_packets'], ['append', 'appendleft'])
    q_out = _one_of(chk, ['_packets'], ['pop', 'popleft'])
    # the send-while-credit loop: `while self._packets and self._in_flight < self.max_in_flight`
    loops = [n for n in ast.walk(chk) if isinstance(n, ast.While)]
    if len(loops) != 1:
        raise RuntimeError('_check_queue: expected exactly one while loop')
    cond = ast.dump(loops[0].test)
    want = ast.dump(ast.parse('self._packets and self._in_flight < self.max_in_flight', mode='eval').body)
    loop_ok = cond == want
    sends_in_loop = sum(1 for n in ast.walk(loops[0]) if isinstance(n, ast.Call) and isinstance(n.func, ast.Attribute)
                        and n.func.attr == '_send')
    incr_in_loop = sum(1 for n in ast.walk(loops[0]) if isinstance(n, ast.AugAssign) and isinstance(n.op, ast.Add)
                       and isinstance(n.target, ast.Attribute) and n.target.attr in ('_in_flight', 'in_flight'))
    # Host.reset(): which controller-reported numbers the three queues are built from, and the shared-buffer rule
    hostc = _cls(host, 'Host')
    reset = _fn(hostc, 'reset')
    queues = {}
    shares = False
    for n in ast.walk(reset):
        if isinstance(n, ast.Assign) and len(n.targets) == 1 and isinstance(n.targets[0], ast.Attribute) \
                and isinstance(n.targets[0].value, ast.Name) and n.targets[0].value.id == 'self':
            tgt = n.targets[0].attr
            if tgt in ('acl_packet_queue', 'le_acl_packet_queue', 'iso_packet_queue'):
                v = n.value
                if isinstance(v, ast.Call) and isinstance(v.func, ast.Name) and v.func.id == 'DataPacketQueue':
                    kw = {k.arg: ast.unparse(k.value) for k in v.keywords}
                    if tgt in queues:
                        raise RuntimeError(f'Host.reset: {tgt} built twice')
                    queues[tgt] = (kw.get('max_packet_size'), kw.get('max_in_flight'), kw.get('send'))
                elif isinstance(v, ast.Attribute) and ast.unparse(v) == 'self.acl_packet_queue' and tgt == 'le_acl_packet_queue':
                    shares = True
                elif isinstance(v, ast.Constant) and v.value is None:
                    pass
                else:
                    raise RuntimeError(f'Host.reset: unrecognised assignment to {tgt}: {ast.unparse(v)}')
    want = {
        'acl_packet_queue': ('hc_acl_data_packet_length', 'hc_total_num_acl_data_packets', 'self.send_hci_packet'),
        'le_acl_packet_queue': ('le_acl_data_packet_length', 'total_num_le_acl_data_packets', 'self.send_hci_packet'),
        'iso_packet_queue': ('iso_data_packet_length', 'total_num_iso_data_packets', 'self.send_hci_packet'),
    }
    queues_ok = queues == want
    # the sharing rule: `if le_acl_data_packet_length == 0 or total_num_le_acl_data_packets == 0: le queue = acl queue`
    share_cond_ok = False
    for n in ast.walk(reset):
        if isinstance(n, ast.If) and ast.unparse(n.test) == 'le_acl_data_packet_length == 0 or total_num_le_acl_data_packets == 0':
            body = [ast.unparse(x) for x in n.body]
            share_cond_ok = body == ['self.le_acl_packet_queue = self.acl_packet_queue']
    # event wiring: every (handle, count) entry of a Number_Of_Completed_Packets event is visited (no return / break
    # inside the loop) and reported to its queue; a disconnection flushes the handle from all three queues
    ncp = _fn(hostc, 'on_hci_number_of_completed_packets_event')
    loops2 = [n for n in ast.walk(ncp) if isinstance(n, ast.For)]
    visits_all = (len(loops2) == 1
                  and not any(isinstance(n, (ast.Return, ast.Break)) for n in ast.walk(loops2[0]))
                  and sum(1 for n in ast.walk(loops2[0]) if isinstance(n, ast.Call) and isinstance(n.func, ast.Attribute)
                          and n.func.attr == 'on_packets_completed') == 1)
    disc = _fn(hostc, 'on_hci_disconnection_complete_event')
    flushed = sorted(ast.unparse(n.func.value) for n in ast.walk(disc)
                     if isinstance(n, ast.Call) and isinstance(n.func, ast.Attribute) and n.func.attr == 'flush')
    flushes_all = flushed == ['self.acl_packet_queue', 'self.iso_packet_queue', 'self.le_acl_packet_queue']
    # handle -> queue lookup: get_data_packet_queue is a pure function of the CURRENT link tables (it reads
    # self.connections / self.cis_links / self.bis_links and nothing else of self, and stores nothing), and the
    # completed-packets loop obtains the queue from it (once per entry) and from nowhere else
    look = _fn(hostc, 'get_data_packet_queue')
    self_reads = sorted({n.attr for n in ast.walk(look) if isinstance(n, ast.Attribute)
                         and isinstance(n.value, ast.Name) and n.value.id == 'self'})
    stores = [n for n in ast.walk(look) if isinstance(n, (ast.Attribute, ast.Subscript))
              and isinstance(n.ctx, (ast.Store, ast.Del))]
    mutators = [n for n in ast.walk(look) if isinstance(n, ast.Call) and isinstance(n.func, ast.Attribute)
                and n.func.attr in ('setdefault', 'update', 'pop', 'append', 'add', 'clear', '__setitem__')]
    globals_ = [n for n in ast.walk(look) if isinstance(n, (ast.Global, ast.Nonlocal))]
    decorated = bool(look.decorator_list)
    lookup_stateless = (self_reads == ['bis_links', 'cis_links', 'connections'] and not stores and not mutators
                        and not globals_ and not decorated)
    ncp_lookups = [ast.unparse(n) for n in ast.walk(loops2[0]) if isinstance(n, ast.Call)] if len(loops2) == 1 else []
    ncp_self_reads = sorted({n.attr for n in ast.walk(ncp) if isinstance(n, ast.Attribute)
                             and isinstance(n.value, ast.Name) and n.value.id == 'self'})
    lookup_used = (ncp_lookups.count('self.get_data_packet_queue(connection_handle)') == 1
                   and ncp_self_reads == ['get_data_packet_queue', 'sco_links'])
    # links enter / leave the tables only where the model says: remove_big flushes the link's own queue
    rb = _fn(hostc, 'remove_big')
    rb_flush = [ast.unparse(n) for n in ast.walk(rb) if isinstance(n, ast.Call) and isinstance(n.func, ast.Attribute)
                and n.func.attr == 'flush']
    rb_ok = rb_flush == ['bis_link.packet_queue.flush(bis_link.handle)']
    pipe = _cls(utils, 'FlowControlAsyncPipe')
    w, pause, resume, pump = (_fn(pipe, n) for n in ('write', 'pause', 'resume', 'pump'))
    p_in = _one_of(w, ['queue'], ['append', 'appendleft'])
    p_out = _one_of(pump, ['queue'], ['pop', 'popleft'])
    text = f'''(* GENERATED by tools/translate/c04_shape.py from bumble/host.py and bumble/utils.py - do not edit *)
From Coq Require Import Bool.
Inductive side := SLeft | SRight.
Record shape := mkShape {{
  q_in_side : side; q_out_side : side;        (* which end of the deque enqueue / _check_queue use *)
  q_loop_guard_ok : bool;                      (* while self._packets and self._in_flight < self.max_in_flight *)
  q_sends_per_iteration : nat; q_increments_per_iteration : nat;
  q_enqueue_pumps : bool; q_flush_pumps : bool; q_completed_pumps : bool;   (* each calls _check_queue() *)
  p_in_side : side; p_out_side : side;        (* FlowControlAsyncPipe.write / pump *)
  p_write_checks : bool; p_pause_checks : bool; p_resume_checks : bool; p_pump_checks : bool;  (* check_pump() *)
  h_queues_from_reported_buffers : bool;      (* Host.reset builds each queue from the controller-reported length/count *)
  h_le_shares_acl_queue_when_no_le_buffers : bool;  (* LE buffer size 0/0 => le queue IS the acl queue *)
  h_completed_event_visits_every_entry : bool;     (* no return / break in the per-handle loop; one on_packets_completed call *)
  h_disconnection_flushes_all_queues : bool;
  h_queue_lookup_is_stateless : bool;         (* get_data_packet_queue reads the three link tables only, stores nothing *)
  h_completed_event_uses_the_lookup : bool;   (* one self.get_data_packet_queue(connection_handle) per entry, no other state *)
  h_remove_big_flushes_own_queue : bool
}}.
Definition shape_of_source : shape := mkShape
  {'SLeft' if q_in == 'appendleft' else 'SRight'} {'SLeft' if q_out == 'popleft' else 'SRight'}
  {_b(loop_ok)} {sends_in_loop} {incr_in_loop}
  {_b(_calls(enq, ['_check_queue']) >= 1)} {_b(_calls(flush, ['_check_queue']) >= 1)} {_b(_calls(done, ['_check_queue']) >= 1)}
  {'SLeft' if p_in == 'appendleft' else 'SRight'} {'SLeft' if p_out == 'popleft' else 'SRight'}
  {_b(_calls(w, ['check_pump']) >= 1)} {_b(_calls(pause, ['check_pump']) >= 1)} {_b(_calls(resume, ['check_pump']) >= 1)} {_b(_calls(pump, ['check_pump']) >= 1)}
  {_b(queues_ok)} {_b(shares and share_cond_ok)} {_b(visits_all)} {_b(flushes_all)}
  {_b(lookup_stateless)} {_b(lookup_used)} {_b(rb_ok)}.
'''
    return text
