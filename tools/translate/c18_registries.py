"""C18: the PDU class registries above HCI, read from the modules imported from $BUMBLE_REPO.

  registries()        every registered class of every protocol with the way to build / parse it
  gen_kwargs(...)     boundary-biased in-range constructor arguments from a class's field specs
  roundtrip(...)      the property oracle on one class and one argument set (real classes only)
  canon(v)            canonical, comparable form of a field value

A field spec the generator does not know makes the class "uncovered" (reported in the evidence by
name with the offending field), never silently skipped.
"""
from __future__ import annotations

import dataclasses
import enum
import functools
import logging
import struct

logging.disable(logging.CRITICAL)


class Unsupported(Exception):
    pass


def _closure(fn):
    if getattr(fn, '__closure__', None) is None:
        return {}
    return {n: c.cell_contents for n, c in zip(fn.__code__.co_freevars, fn.__closure__)}


def _qual(f):
    if isinstance(f, functools.partial):
        return 'partial:' + getattr(f.func, '__qualname__', repr(f.func))
    return getattr(f, '__qualname__', repr(f))


# ----------------------------------------------------------------------------- canonical values
def canon(v):
    from bumble import core, hci, sdp
    if isinstance(v, (bool,)):
        return int(v)
    if isinstance(v, enum.Enum):
        return int(v.value)
    if isinstance(v, int):
        return int(v)
    if isinstance(v, (bytes, bytearray, memoryview)):
        return bytes(v)
    if isinstance(v, str):
        return ('str', v)
    if isinstance(v, core.UUID):
        return ('uuid', bytes(v.to_bytes(force_128=True)))
    if isinstance(v, hci.Address):
        return ('addr', bytes(v), bool(v.is_public))
    if isinstance(v, sdp.DataElement):
        return ('de', _de_sig(v))
    if isinstance(v, (list, tuple)):
        return [canon(x) for x in v]
    if dataclasses.is_dataclass(v) and not isinstance(v, type):
        out = [type(v).__name__]
        for f in dataclasses.fields(v):
            if f.name.startswith('_') or f.name in ('name',):
                continue
            out.append((f.name, canon(getattr(v, f.name))))
        if hasattr(v, '__bytes__'):
            out.append(('bytes', bytes(v)))
        return out
    if hasattr(v, '__bytes__'):
        return ('obj', type(v).__name__, bytes(v))
    if v is None:
        return None
    raise Unsupported(f'canon: {type(v).__name__}')


def _de_sig(e):
    from bumble import sdp
    DE = sdp.DataElement
    if e.type in (DE.SEQUENCE, DE.ALTERNATIVE):
        return [int(e.type), [_de_sig(x) for x in e.value]]
    if e.type == DE.UUID:
        return [3, bytes(e.value)]
    if e.type in (DE.UNSIGNED_INTEGER, DE.SIGNED_INTEGER):
        return [int(e.type), e.value_size, int(e.value)]
    return [int(e.type), e.value if not isinstance(e.value, (bytes, bytearray, memoryview)) else bytes(e.value)]


# ----------------------------------------------------------------------------- value generation
def _uint(rng, nbytes):
    top = 256 ** nbytes
    return rng.choice([0, 1, 127, 128, 255, 256, top // 2 - 1, top // 2, top - 2, top - 1, rng.below(top), rng.below(top)]) % top


def _bytes(rng, n):
    return rng.bytes(n)


def _rest_bytes(rng):
    return rng.bytes(rng.choice([0, 0, 1, 2, 5, 16, 23, 64, 255, 256]))


def _uuid(rng, sizes):
    from bumble import core
    n = rng.choice(sizes)
    if n == 16 and rng.chance(1, 2):
        b = bytes(core.UUID.BASE_UUID) + bytes([rng.below(256), rng.choice([0x18, 0x28, 0x2A, rng.below(256)]), 0, 0])
    elif n == 2 and rng.chance(1, 2):
        b = struct.pack('<H', rng.choice([0x1800, 0x2800, 0x2803, 0x2902, 0x2A00]))
    else:
        b = rng.bytes(n)
    u = core.UUID.__new__(core.UUID)       # a plain value: does not go through the registry
    u.uuid_bytes = b
    u.name = None
    return u


def _psm(rng):
    n = rng.choice([2, 2, 2, 3, 4])
    last = rng.below(128) * 2 if n == 2 else (rng.below(127) + 1) * 2      # a longer PSM ends in a non-zero octet
    octs = [rng.below(128) * 2 + 1] + [rng.below(128) * 2 + 1 for _ in range(n - 2)] + [last]
    return int.from_bytes(bytes(octs), 'little')


def _de_tree(rng, depth):
    from bumble import sdp
    DE = sdp.DataElement
    if depth <= 0 or rng.chance(1, 2):
        k = rng.below(7)
        if k == 0:
            return DE.nil()
        if k == 1:
            sz = rng.choice([1, 2, 4, 8])
            return DE.unsigned_integer(_uint(rng, sz), sz)
        if k == 2:
            sz = rng.choice([1, 2, 4, 8])
            return DE.signed_integer(_uint(rng, sz) - 256 ** sz // 2, sz)
        if k == 3:
            return DE.uuid(_uuid(rng, [2, 4, 16]))
        if k == 4:
            return DE.text_string(rng.bytes(rng.choice([0, 1, 7, 40])))
        if k == 5:
            return DE.boolean(rng.chance(1, 2))
        return DE.url('http://' + 'x' * rng.below(9))
    mk = DE.sequence if rng.chance(2, 3) else DE.alternative
    if rng.chance(1, 8):
        # breadth: many empty containers (the nesting limit must not count them)
        n = rng.choice([31, 32, 33, 40])
        return mk([(DE.sequence if rng.chance(1, 2) else DE.alternative)([]) for _ in range(n)] + [_de_tree(rng, 1)])
    return mk([_de_tree(rng, depth - 1) for _ in range(rng.choice([0, 1, 2, 3]))])


def _string(rng, length_size):
    n = rng.choice([0, 1, 5, 40, 255 if length_size == 1 else 300])
    alphabet = ['a', 'Z', ' ', '0', 'é', '€']
    s = ''
    while len(s.encode('utf8')) < n:
        s += rng.choice(alphabet)
    while len(s.encode('utf8')) > min(n, 256 ** length_size - 1):
        s = s[:-1]
    return s


def gen_value(rng, owner, name, spec, sofar):
    """one in-range value for a field spec; `sofar` holds the fields already generated"""
    from bumble import core, hci, sdp
    if isinstance(spec, int) and not isinstance(spec, bool):
        if spec in (1, 2, 3, 4):
            return _uint(rng, spec)
        if spec in (-1, -2):
            n = -spec
            return _uint(rng, n) - 256 ** n // 2
        if 4 < spec <= 256:
            return _bytes(rng, spec)
        raise Unsupported(f'{owner}.{name}: int spec {spec}')
    if isinstance(spec, str):
        if spec == '*':
            return _rest_bytes(rng)
        if spec == 'v':
            return rng.bytes(rng.choice([0, 1, 2, 31, 254, 255]))
        if spec in ('>2', '>4'):
            return _uint(rng, int(spec[1]))
        raise Unsupported(f'{owner}.{name}: str spec {spec!r}')
    if isinstance(spec, dict):
        parser = spec.get('parser')
        if parser is None:
            if 'size' in spec and isinstance(spec['size'], int):
                return _uint(rng, spec['size'])
            raise Unsupported(f'{owner}.{name}: dict spec without parser/size')
        q = _qual(parser)
        if q.endswith('type_spec.<locals>.<lambda>'):
            c = _closure(parser)
            cls, size = c['cls'], c['size']
            members = [int(m.value) for m in cls] if len(list(cls)) else []
            if owner == 'Setting' and name == 'attribute_id':
                # PlayerApplicationSettingChangedEvent.Setting.__post_init__ maps every other
                # attribute id to the member-less enum ApplicationSetting.GenericValue, whose call
                # raises TypeError: such settings cannot be constructed at all (docs/C18.md, open)
                return cls(rng.choice(members))
            v = rng.choice(members + [_uint(rng, size)]) if members else _uint(rng, size)
            return cls(v)
        if q == 'L2CAP_Connection_Request.<lambda>':
            return _psm(rng)
        if q == 'L2CAP_Credit_Based_Connection_Request.<lambda>':
            return [_uint(rng, 2) for _ in range(rng.choice([0, 1, 2, 5]))]
        if q == 'ATT_Read_Multiple_Variable_Response.<lambda>':
            out = []
            for _ in range(rng.choice([0, 1, 2, 4])):
                v = rng.bytes(rng.choice([0, 1, 2, 20]))
                out.append((len(v), v))
            # Vol 3 Part F 3.4.4.12: the LAST value may be truncated to what fits in ATT_MTU while its
            # Length still reports the full attribute length (gatt_server builds exactly this)
            if out and rng.chance(1, 2):
                l, v = out[-1]
                out[-1] = (rng.choice([l + 1, l + 16, 512, 65535]), v)
            return out
        if q == '<lambda>' and getattr(parser, '__module__', '') == 'bumble.att':
            return [_uint(rng, 2) for _ in range(rng.choice([0, 1, 2, 3, 10]))]
        if q == '<lambda>' and getattr(parser, '__module__', '') == 'bumble.avrcp':
            return _uint(rng, 8)
        if q == '_parse_service_record_handle_list':
            return [_uint(rng, 4) for _ in range(rng.choice([0, 1, 2, 7]))]
        if q == '_parse_bytes_preceded_by_length':
            return rng.bytes(rng.choice([0, 1, 2, 100, 255, 256, 1000]))
        if q == 'partial:_parse_string':
            return _string(rng, parser.keywords['length_size'])
        if q == 'Message.<lambda>':                      # AVDTP SEID
            return rng.choice([0, 1, 2, 62, 63, rng.below(64)])
        if q == 'Start_Command.<lambda>':
            return [rng.below(64) for _ in range(rng.choice([0, 1, 2, 5]))]
        if q == 'DelayReport_Command.<lambda>':
            return _uint(rng, 2)
        if q == 'Discover_Response.<lambda>':
            from bumble import avdtp
            return [avdtp.EndPointInfo(rng.below(64), rng.below(2), avdtp.MediaType(rng.below(16)), avdtp.StreamEndPointType(rng.below(2)))
                    for _ in range(rng.choice([0, 1, 2, 4]))]
        if q == 'ServiceCapabilities.<lambda>':
            return gen_capabilities(rng)
        raise Unsupported(f'{owner}.{name}: parser {q}')
    if callable(spec):
        q = _qual(spec)
        if q == 'UUID.parse_uuid':
            return _uuid(rng, [2, 4, 16])
        if q == 'UUID.parse_uuid_2':
            return _uuid(rng, [2])
        if q == 'DataElement.parse_from_bytes':
            return _de_tree(rng, rng.choice([0, 1, 2, 3]))
        if q == 'Address.parse_address_preceded_by_type':
            t = sofar.get('addr_type', sofar.get('address_type'))
            if t is None:
                raise Unsupported(f'{owner}.{name}: address without a preceding type field')
            return hci.Address(rng.bytes(6), hci.AddressType(int(t)))
        if q == 'HCI_Dataclass_Object.parse_from_bytes':
            sub = spec.__self__
            return sub(**gen_kwargs(rng, sub.__name__, hci.HCI_Object.fields_from_dataclass(sub)))
        if q == 'RegisterNotificationResponse.<lambda>':
            from bumble import avrcp
            classes = sorted(avrcp.Event.subclasses.items(), key=lambda kv: int(kv[0]))
            _, ec = rng.choice(classes)
            return ec(**gen_kwargs(rng, ec.__name__, ec.fields))
        raise Unsupported(f'{owner}.{name}: callable {q}')
    raise Unsupported(f'{owner}.{name}: spec {spec!r}')


def gen_capabilities(rng):
    """AVDTP service capabilities, including well-formed media codec capabilities"""
    from bumble import avdtp, a2dp
    out = []
    for _ in range(rng.choice([0, 1, 2, 3])):
        k = rng.below(4)
        if k == 0:
            out.append(avdtp.MediaCodecCapabilities(avdtp.MediaType(rng.below(3)), a2dp.CodecType.SBC,
                                                    a2dp.SbcMediaCodecInformation.from_bytes(rng.bytes(4))))
        elif k == 1:
            out.append(avdtp.MediaCodecCapabilities(avdtp.MediaType(0), a2dp.CodecType.MPEG_2_4_AAC,
                                                    a2dp.AacMediaCodecInformation.from_bytes(rng.bytes(6))))
        else:
            cat = rng.choice([1, 2, 3, 4, 5, 6, 8])
            out.append(avdtp.ServiceCapabilities(cat, rng.bytes(rng.choice([0, 0, 1, 2, 10]))))
    return out


def _special_kwargs(rng, owner):
    """classes that do not use the generic field codec (custom from_parameters / __post_init__)"""
    from bumble import avrcp
    if owner == 'GetCapabilitiesResponse':
        if rng.chance(1, 2):
            return {'capability_id': avrcp.GetCapabilitiesCommand.CapabilityId.COMPANY_ID,
                    'capabilities': [rng.bytes(3) for _ in range(rng.choice([1, 1, 2, 5]))]}
        ids = [m for m in avrcp.EventId]
        return {'capability_id': avrcp.GetCapabilitiesCommand.CapabilityId.EVENTS_SUPPORTED,
                'capabilities': [rng.choice(ids) for _ in range(rng.choice([0, 1, 2, 5]))]}
    if owner == 'GetFolderItemsResponse':
        items = []
        subs = sorted(avrcp.BrowseableItem.subclasses.items(), key=lambda kv: int(kv[0]))
        for _ in range(rng.choice([0, 1, 2, 3])):
            _, sub = rng.choice(subs)
            items.append(sub(**gen_kwargs(rng, sub.__name__, sub.fields)))
        return {'status': avrcp.StatusCode(rng.choice([4, 0, 1])), 'uid_counter': _uint(rng, 2), 'items': items}
    return None


def gen_kwargs(rng, owner, fields):
    sp = _special_kwargs(rng, owner)
    if sp is not None:
        return sp
    kw = {}
    for f in fields:
        if isinstance(f, list):
            n = rng.choice([0, 1, 2, 3])
            for name, spec in f:
                kw[name] = [gen_value(rng, owner, name, spec, kw) for _ in range(n)]
        else:
            name, spec = f
            if name == 'addr_type':
                kw[name] = rng.choice([0, 1])
                continue
            kw[name] = gen_value(rng, owner, name, spec, kw)
    return fix_constraints(rng, owner, kw)


def fix_constraints(rng, cls_name, kw):
    """inter-field constraints that are part of a class's contract: the per-attribute length of
    a Read By (Group) Type Response covers at least the handle(s) (Vol 3 Part F 3.4.4.2 / 3.4.4.10;
    the constructor raises struct.error on a shorter one)"""
    if cls_name == 'ATT_Read_By_Type_Response' and 0 < kw['length'] < 2:
        kw['length'] = rng.choice([0, 2, 3, 255])
    if cls_name == 'ATT_Read_By_Group_Type_Response' and 0 < kw['length'] < 4:
        kw['length'] = rng.choice([0, 4, 6, 255])
    return kw


# ----------------------------------------------------------------------------- registries
@dataclasses.dataclass
class Entry:
    proto: str
    code: int
    cls: type
    fields: list
    build: object          # kwargs -> object
    parse: object          # bytes -> object
    note: str = ''


def registries():
    """every registered PDU class of every protocol above HCI, in a deterministic order"""
    from bumble import l2cap, att, smp, sdp, avdtp, avrcp
    out = []
    for code, cls in sorted(l2cap.L2CAP_Control_Frame.classes.items(), key=lambda kv: int(kv[0])):
        out.append(Entry('l2cap', int(code), cls, list(cls.fields),
                         lambda kw, cls=cls: cls(identifier=kw.pop('__id', 1), **kw),
                         l2cap.L2CAP_Control_Frame.from_bytes))
    for code, cls in sorted(att.ATT_PDU.pdu_classes.items(), key=lambda kv: int(kv[0])):
        out.append(Entry('att', int(code), cls, list(cls.fields), lambda kw, cls=cls: cls(**kw), att.ATT_PDU.from_bytes))
    for code, cls in sorted(smp.SMP_Command.smp_classes.items(), key=lambda kv: int(kv[0])):
        out.append(Entry('smp', int(code), cls, list(cls.fields), lambda kw, cls=cls: cls(**kw), smp.SMP_Command.from_bytes))
    for code, cls in sorted(sdp.SDP_PDU.subclasses.items(), key=lambda kv: int(kv[0])):
        out.append(Entry('sdp', int(code), cls, list(cls.fields),
                         lambda kw, cls=cls: cls(transaction_id=kw.pop('__id', 1), **kw), sdp.SDP_PDU.from_bytes))
    for sig, d in sorted(avdtp.Message.subclasses.items(), key=lambda kv: int(kv[0])):
        for mt, cls in sorted(d.items(), key=lambda kv: int(kv[0])):
            out.append(Entry('avdtp', int(sig) * 4 + int(mt), cls, list(cls.fields), lambda kw, cls=cls: cls(**kw),
                             lambda b, sig=sig, mt=mt: avdtp.Message.create(sig, mt, b)))
    for code, cls in sorted(avrcp.Command.subclasses.items(), key=lambda kv: int(kv[0])):
        out.append(Entry('avrcp.command', int(code), cls, list(cls.fields), lambda kw, cls=cls: cls(**kw),
                         lambda b, code=code: avrcp.Command.from_bytes(code, b)))
    for code, cls in sorted(avrcp.Response.subclasses.items(), key=lambda kv: int(kv[0])):
        out.append(Entry('avrcp.response', int(code), cls, list(cls.fields), lambda kw, cls=cls: cls(**kw),
                         lambda b, code=code: avrcp.Response.from_bytes(b, code)))
    for code, cls in sorted(avrcp.Event.subclasses.items(), key=lambda kv: int(kv[0])):
        out.append(Entry('avrcp.event', int(code), cls, list(cls.fields), lambda kw, cls=cls: cls(**kw), avrcp.Event.from_bytes))
    return out


def wire_cases(rng, entry):
    """well-formed PDUs laid out by hand from the specification (not by bumble's serializers) in
    which a declared length and the octets actually present differ in the way the wire format
    allows: the truncated last (Length, Value) tuple of a Read Multiple Variable Response.
    -> list of bytes as entry.parse expects them"""
    out = []
    if entry.proto == 'att' and entry.cls.__name__ == 'ATT_Read_Multiple_Variable_Response':
        for _ in range(3):
            body = b''
            for _ in range(rng.choice([0, 1, 3])):
                v = rng.bytes(rng.choice([0, 1, 7]))
                body += struct.pack('<H', len(v)) + v
            v = rng.bytes(rng.choice([0, 1, 14]))
            body += struct.pack('<H', len(v) + rng.choice([1, 16, 498])) + v      # full length, truncated value
            out.append(bytes([entry.code]) + body)
    return out


def wire_roundtrip(entry, wire):
    """parse -> rebuild a FRESH object from the parsed fields (no cached payload) -> same bytes"""
    name = entry.cls.__name__
    try:
        p = entry.parse(wire)
    except Exception as e:  # noqa: BLE001
        return (f'{entry.proto}:{name}:parse', f'well-formed {name} {wire[:24].hex()} is rejected: {type(e).__name__}: {e}')
    names = [n for f in entry.fields for n in ([x[0] for x in f] if isinstance(f, list) else [f[0]])]
    try:
        kw = {n: getattr(p, n) for n in names}
        b = payload_bytes(entry, entry.build(kw))
    except Exception as e:  # noqa: BLE001
        return (f'{entry.proto}:{name}:rebuild', f'{name}: parsed field values do not construct: {type(e).__name__}: {e}')
    if b != wire:
        return (f'{entry.proto}:{name}:bytes', f'{name}: {wire[:24].hex()} parsed and rebuilt from its fields serialises as {b[:24].hex()}')
    return None


def payload_bytes(entry, obj):
    """the bytes that entry.parse expects"""
    if entry.proto == 'avdtp':
        return bytes(obj.payload)
    return bytes(obj)


def roundtrip(entry, kw):
    """The property on one class and one argument set, on the real classes only.
    Returns None or (signature, description)."""
    name = entry.cls.__name__
    kw = dict(kw)
    args = {k: v for k, v in kw.items() if not k.startswith('__')}
    try:
        obj = entry.build(dict(kw))
        b = payload_bytes(entry, obj)
    except Unsupported:
        raise
    except Exception as e:  # noqa: BLE001
        return (f'{entry.proto}:{name}:serialise', f'{name} with in-range arguments does not serialise: {type(e).__name__}: {e}')
    try:
        p = entry.parse(b)
    except Exception as e:  # noqa: BLE001
        return (f'{entry.proto}:{name}:parse', f'{name} ({len(b)} octets {b[:24].hex()}) is rejected by its own parser: {type(e).__name__}: {e}')
    if type(p) is not entry.cls:
        return (f'{entry.proto}:{name}:class', f'{name} parses back as {type(p).__name__}')
    for fname, want in args.items():
        got = getattr(p, fname, None)
        if canon(got) != canon(want):
            return (f'{entry.proto}:{name}:{fname}', f'{name}.{fname}: sent {str(canon(want))[:120]}, parsed {str(canon(got))[:120]} (pdu {b[:32].hex()})')
    b2 = payload_bytes(entry, p)
    if b2 != b:
        return (f'{entry.proto}:{name}:bytes', f'{name}: parsed object re-serialises as {b2[:32].hex()} instead of {b[:32].hex()}')
    # parse -> (fields only, no cached payload) -> bytes
    try:
        kw2 = {k: getattr(p, k) for k in args}
        for k in kw:
            if k.startswith('__'):
                kw2[k] = kw[k]
        b3 = payload_bytes(entry, entry.build(kw2))
    except Exception as e:  # noqa: BLE001
        return (f'{entry.proto}:{name}:rebuild', f'{name}: parsed field values do not construct: {type(e).__name__}: {e}')
    if b3 != b:
        return (f'{entry.proto}:{name}:bytes', f'{name}: rebuilt from the parsed fields it serialises as {b3[:32].hex()} instead of {b[:32].hex()}')
    return None


# ----------------------------------------------------------------------------- translator -> Gen/C18Registry.v
class TranslationError(Exception):
    pass


PROTO_CODE = {'l2cap': 0, 'att': 1, 'smp': 2, 'sdp': 3}


def _enum_aspec(spec, where):
    """SpecableEnum / SpecableFlag .type_spec(size, byteorder) -> ('Enum', size, 'LE'|'BE'); fail closed"""
    from bumble import utils
    parser, serializer = spec.get('parser'), spec.get('serializer')
    pq, sq = _qual(parser), _qual(serializer)
    fam = None
    for f in ('SpecableEnum', 'SpecableFlag'):
        if pq == f + '.type_spec.<locals>.<lambda>' and sq == pq:
            fam = f
    if fam is None:
        return None
    pc, sc = _closure(parser), _closure(serializer)
    if set(pc) != {'byteorder', 'cls', 'size'} or set(sc) != {'byteorder', 'size'}:
        raise TranslationError(f'{where}: {fam}.type_spec closure changed shape: {sorted(pc)} / {sorted(sc)}')
    if pc['size'] != sc['size'] or pc['byteorder'] != sc['byteorder']:
        raise TranslationError(f'{where}: parser and serializer disagree on size / byte order')
    size, order, cls = pc['size'], pc['byteorder'], pc['cls']
    if type(size) is not int or size < 1 or order not in ('little', 'big'):
        raise TranslationError(f'{where}: enum type_spec size={size!r} byteorder={order!r}')
    if fam == 'SpecableEnum':
        if not (isinstance(cls, type) and issubclass(cls, utils.OpenIntEnum)):
            raise TranslationError(f'{where}: {cls!r} is not an OpenIntEnum (a closed enum rejects unknown values)')
    else:
        if not (isinstance(cls, type) and issubclass(cls, enum.IntFlag)) or getattr(cls, '_boundary_', None) is not enum.KEEP:
            raise TranslationError(f'{where}: {cls!r} is not an IntFlag that keeps unknown bits')
    probe = bytes([0xA1, 0x02, 0xC3, 0x04, 0xE5, 0x06, 0x17, 0x08, 0x29])
    off, val = parser(probe, 1)
    want = int.from_bytes(probe[1:1 + size], order)
    if off != 1 + size or int(val) != want or serializer(want) != probe[1:1 + size]:
        raise TranslationError(f'{where}: enum type_spec lambdas do not behave as int.from_bytes / to_bytes')
    return ('Enum', size, 'LE' if order == 'little' else 'BE')


def field_aspec(owner, name, spec):
    """a field spec -> SpecCodec aspec tuple, or None when its parser is outside the vocabulary
    (hand-modelled elsewhere); TranslationError when the spec has an unknown SHAPE"""
    from bumble import hci
    where = f'{owner}.{name}'
    if isinstance(spec, dict):
        if 'size' in spec:
            if spec.get('parser') is not None or spec.get('serializer') is not None:
                raise TranslationError(f'{where}: dict spec with both size and parser/serializer')
            spec = spec['size']
        elif 'parser' in spec:
            if spec.get('serializer') is None:
                raise TranslationError(f'{where}: dict spec with a parser but no serializer')
            e = _enum_aspec(spec, where)
            return e            # None: custom parser/serializer pair, not in the vocabulary
        else:
            raise TranslationError(f'{where}: dict spec without size or parser: {sorted(spec)}')
    if isinstance(spec, bool):
        raise TranslationError(f'{where}: bool spec')
    if isinstance(spec, int):
        if spec in (1, 2, 3, 4):
            return ('UInt', spec)
        if spec in (-1, -2):
            return ('SInt', -spec)
        if 4 < spec <= 256:
            return ('FixedBytes', spec)
        raise TranslationError(f'{where}: integer spec {spec} has no case in parse_field')
    if isinstance(spec, str):
        if spec == '*':
            return ('Rest',)
        if spec == 'v':
            return ('VarLen',)
        if spec in ('>2', '>4'):
            return ('UIntBE', int(spec[1]))
        raise TranslationError(f'{where}: string spec {spec!r} has no case in parse_field')
    if callable(spec):
        f = getattr(spec, '__func__', spec)
        if f is getattr(hci.Address.parse_address_preceded_by_type, '__func__', None) and getattr(spec, '__self__', None) is hci.Address:
            return ('AddrAfterType',)
        return None
    raise TranslationError(f'{where}: spec {spec!r}')


def coq_aspec(a):
    if a[0] in ('UInt', 'SInt', 'UIntBE', 'FixedBytes'):
        return f'{a[0]} {a[1]}'
    if a[0] == 'Enum':
        return f'Enum {a[1]} {a[2]}'
    return a[0]


def translate():
    """-> (coq text of Gen/C18Registry.v, translated [(entry, [aspec])], untranslated {class: field})"""
    from bumble import hci
    translated, untranslated = [], {}
    for e in registries():
        if e.proto not in PROTO_CODE:
            continue
        cls = e.cls
        # the class must use the generic field codec, not its own parsing code
        for m in ('from_bytes', '__bytes__', 'payload', 'init_from_bytes'):
            if m in vars(cls):
                raise TranslationError(f'{cls.__name__} overrides {m}: it does not use the generic field codec')
        if list(cls.fields) != list(hci.HCI_Object.fields_from_dataclass(cls)):
            raise TranslationError(f'{cls.__name__}: fields differ from the dataclass metadata')
        aspecs = []
        bad = None
        for f in cls.fields:
            if isinstance(f, list):
                bad = 'array group'
                break
            name, spec = f
            a = field_aspec(cls.__name__, name, spec)
            if a is None:
                bad = name
                break
            aspecs.append(a)
        if bad is not None:
            untranslated[f'{e.proto}:{cls.__name__}'] = bad
        else:
            translated.append((e, aspecs))
    out = ['(* GENERATED by tools/translate/c18_registries.py from bumble/{l2cap,att,smp,sdp}.py on every run. Do not edit. *)',
           'From Coq Require Import ZArith List String.', 'From BV Require Import Model.SpecCodec Model.CodecsRegistry.',
           'Import ListNotations.', 'Local Open Scope Z_scope.', 'Local Open Scope string_scope.', '',
           '(* protocol: 0 L2CAP signalling, 1 ATT, 2 SMP, 3 SDP *)', 'Definition classes : list pcls := [']
    rows = []
    for e, aspecs in translated:
        rows.append(f'  mkp {PROTO_CODE[e.proto]} {e.code} "{e.cls.__name__}" [' + '; '.join(f'F1 ({coq_aspec(a)})' for a in aspecs) + ']')
    out.append(';\n'.join(rows))
    out.append('].')
    out.append('')
    out.append('(* registered classes with a field whose parser is outside the field-codec vocabulary (hand-modelled codecs) *)')
    out.append('Definition untranslated : list (string * string) := [')
    out.append(';\n'.join(f'  ("{k}", "{v}")' for k, v in sorted(untranslated.items())))
    out.append('].')
    out.append(f'Definition registered_total : nat := {len(translated) + len(untranslated)}.')
    out.append('')
    return '\n'.join(out), translated, untranslated


def coq_value(v):
    """a Python field value -> SpecCodec [value] term"""
    from bumble import hci
    if isinstance(v, hci.Address):
        return f'(VAddr {int(v.address_type)} [' + '; '.join(str(x) for x in bytes(v)) + '])'
    if isinstance(v, enum.Enum):
        return f'(VInt {int(v.value)})'
    if isinstance(v, bool):
        return f'(VInt {int(v)})'
    if isinstance(v, int):
        return f'(VInt {v})' if v >= 0 else f'(VInt ({v}))'
    if isinstance(v, (bytes, bytearray, memoryview)):
        return '(VBytes [' + '; '.join(str(x) for x in bytes(v)) + '])'
    raise Unsupported(f'coq_value: {type(v).__name__}')


def py_value(v):
    """the same value in the normal form the harness compares with the parsed Coq value"""
    from bumble import hci
    if isinstance(v, hci.Address):
        return ('VAddr', int(v.address_type), [int(x) for x in bytes(v)])
    if isinstance(v, enum.Enum):
        return ('VInt', int(v.value))
    if isinstance(v, (bool, int)):
        return ('VInt', int(v))
    if isinstance(v, (bytes, bytearray, memoryview)):
        return ('VBytes', [int(x) for x in bytes(v)])
    raise Unsupported(f'py_value: {type(v).__name__}')


# ----------------------------------------------------------------------------- extended translator -> Gen/C18XRegistry.v
XPROTO_CODE = {'l2cap': 0, 'att': 1, 'smp': 2, 'sdp': 3, 'avdtp': 4}


def _probe(where, ok):
    if not ok:
        raise TranslationError(f'{where}: the custom parser / serializer does not behave like the modelled field codec')


def field_xspec(owner, name, spec):
    """a field spec -> ('XA', aspec) or ('X<kind>',); fail closed: an unknown custom pair, or a known
    one that fails its behavioural probe, aborts the translation"""
    from bumble import core, sdp, hci
    where = f'{owner}.{name}'
    a = field_aspec(owner, name, spec)
    if a is not None:
        return ('XA', a)
    if isinstance(spec, dict):
        par, ser = spec.get('parser'), spec.get('serializer')
        q = _qual(par)
        mod = getattr(par, '__module__', '')
        if q == 'L2CAP_Connection_Request.<lambda>':
            _probe(where, ser(0x1001) == b'\x01\x10' and ser(0x020101) == b'\x01\x01\x02'
                   and par(b'\xaa\x01\x10\x55', 1) == (3, 0x1001) and par(b'\x01\x01\x02\x07', 0) == (3, 0x020101))
            return ('XPsm',)
        if q == 'L2CAP_Credit_Based_Connection_Request.<lambda>':
            _probe(where, ser([1, 0x203]) == b'\x01\x00\x03\x02' and par(b'\x09\x01\x00\x03\x02\x07', 1) == (6, [1, 0x203]))
            return ('XU16Lenient',)
        if q == '<lambda>' and mod == 'bumble.att':
            ok = ser([1, 0x203]) == b'\x01\x00\x03\x02' and par(b'\x09\x01\x00\x03\x02', 1) == (5, [1, 0x203])
            try:
                par(b'\x09\x01\x00\x03', 1)
                ok = False
            except Exception:  # noqa: BLE001 - an odd trailing octet must raise
                pass
            _probe(where, ok)
            return ('XU16Strict',)
        if q == 'ATT_Read_Multiple_Variable_Response.<lambda>':
            _probe(where, ser([(2, b'ab'), (0, b'')]) == b'\x02\x00ab\x00\x00'
                   and par(b'\x21\x02\x00ab\x00\x00', 1) == (7, [(2, b'ab'), (0, b'')])
                   # each tuple carries its OWN Length: a truncated last value keeps it
                   and ser([(1, b'x'), (30, b'abc')]) == b'\x01\x00x\x1e\x00abc'
                   and par(b'\x21\x01\x00x\x1e\x00abc', 1) == (9, [(1, b'x'), (30, b'abc')]))
            return ('XLvList',)
        if q == '_parse_service_record_handle_list':
            _probe(where, ser([1, 0x01020304]) == b'\x00\x02\x00\x00\x00\x01\x01\x02\x03\x04'
                   and par(b'\x07\x00\x01\x00\x00\x00\x05\x09', 1) == (7, [5]))
            return ('XHandles32',)
        if q == '_parse_bytes_preceded_by_length':
            _probe(where, ser(b'abc') == b'\x00\x03abc' and par(b'\x07\x00\x02xyz', 1) == (5, b'xy'))
            return ('XLenBytes16',)
        if q == 'Message.<lambda>' and mod == 'bumble.avdtp':
            _probe(where, ser(5) == b'\x14' and par(b'\x00\x17', 1) == (2, 5))
            return ('XSeid',)
        if q == 'Start_Command.<lambda>':
            _probe(where, ser([1, 63]) == b'\x04\xfc' and par(b'\x00\x04\xff', 1) == (3, [1, 63]))
            return ('XSeidList',)
        if q == 'DelayReport_Command.<lambda>':
            _probe(where, ser(0x0102) == b'\x01\x02' and par(b'\x00\x01\x02\x09', 1) == (3, 0x0102))
            return ('XA', ('UIntBE', 2))
        if q == 'Discover_Response.<lambda>':
            from bumble import avdtp
            e = avdtp.EndPointInfo(5, 1, avdtp.MediaType(0), avdtp.StreamEndPointType(1))
            _probe(where, ser([e]) == b'\x16\x08' and par(b'\x16\x08\x04\x10', 0) == (4, [e, avdtp.EndPointInfo(1, 0, avdtp.MediaType(1), avdtp.StreamEndPointType(0))]))
            return ('XEndpoints',)
        if q == 'ServiceCapabilities.<lambda>':
            from bumble import avdtp
            caps = [avdtp.ServiceCapabilities(1, b''), avdtp.ServiceCapabilities(4, b'\x01\x02')]
            _probe(where, ser(caps) == b'\x01\x00\x04\x02\x01\x02' and par(b'\x09\x01\x00\x04\x02\x01\x02', 1) == (7, caps))
            return ('XCaps',)
        raise TranslationError(f'{where}: custom parser {q} is not in the catalogue')
    if callable(spec):
        f = getattr(spec, '__func__', spec)
        owner_cls = getattr(spec, '__self__', None)
        if owner_cls is core.UUID and f is core.UUID.parse_uuid.__func__:
            return ('XUuidRest',)
        if owner_cls is core.UUID and f is core.UUID.parse_uuid_2.__func__:
            return ('XUuid2',)
        if owner_cls is sdp.DataElement and f is sdp.DataElement.parse_from_bytes.__func__:
            return ('XSdpElem',)
        raise TranslationError(f'{where}: callable {_qual(spec)} is not in the catalogue')
    raise TranslationError(f'{where}: spec {spec!r}')


def coq_xspec(x):
    return f'XA ({coq_aspec(x[1])})' if x[0] == 'XA' else x[0]


def translate_x():
    """every class of the five field-driven registries -> (coq text of Gen/C18XRegistry.v, [(entry, [xspec])])"""
    from bumble import hci
    out_classes = []
    for e in registries():
        if e.proto not in XPROTO_CODE:
            continue
        cls = e.cls
        for m in ('from_bytes', '__bytes__', 'payload', 'init_from_bytes', 'create'):
            if m in vars(cls):
                raise TranslationError(f'{cls.__name__} overrides {m}: it does not use the generic field codec')
        if list(cls.fields) != list(hci.HCI_Object.fields_from_dataclass(cls)):
            raise TranslationError(f'{cls.__name__}: fields differ from the dataclass metadata')
        xs = []
        for f in cls.fields:
            if isinstance(f, list):
                raise TranslationError(f'{cls.__name__}: array group (not expected in these registries)')
            xs.append(field_xspec(cls.__name__, f[0], f[1]))
        out_classes.append((e, xs))
    out = ['(* GENERATED by tools/translate/c18_registries.py from bumble/{l2cap,att,smp,sdp,avdtp}.py on every run. Do not edit. *)',
           'From Coq Require Import ZArith List String.', 'From BV Require Import Model.SpecCodec Model.CodecsXfields.',
           'Import ListNotations.', 'Local Open Scope Z_scope.', 'Local Open Scope string_scope.', '',
           '(* protocol: 0 L2CAP signalling, 1 ATT, 2 SMP, 3 SDP, 4 AVDTP (code = 4 * signal_identifier + message_type) *)',
           'Definition xclasses : list xcls := [']
    out.append(';\n'.join(f'  mkx {XPROTO_CODE[e.proto]} {e.code} "{e.cls.__name__}" [' + '; '.join(coq_xspec(x) for x in xs) + ']'
                          for e, xs in out_classes))
    out.append('].')
    counts = {}
    for e, _ in out_classes:
        counts[e.proto] = counts.get(e.proto, 0) + 1
    out.append('(* number of classes registered per protocol when this file was generated *)')
    out.append('Definition xregistered : list (Z * Z) := [' + '; '.join(f'({XPROTO_CODE[p]}, {n})' for p, n in sorted(counts.items(), key=lambda kv: XPROTO_CODE[kv[0]])) + '].')
    out.append('')
    return '\n'.join(out), out_classes


def x_value(x, v):
    """(Coq [value] term, comparable normal form) of a Python field value for an xspec"""
    k = x[0]
    if k == 'XA':
        return coq_value(v), py_value(v)

    def ints(l):
        return '(VList [' + '; '.join(f'VInt {int(i)}' for i in l) + '])', ('VList', [('VInt', int(i)) for i in l])

    def vb(b):
        b = bytes(b)
        return '(VBytes [' + '; '.join(str(i) for i in b) + '])', ('VBytes', [int(i) for i in b])
    if k in ('XPsm', 'XSeid'):
        return f'(VInt {int(v)})', ('VInt', int(v))
    if k in ('XU16Strict', 'XU16Lenient', 'XHandles32', 'XSeidList'):
        return ints(v)
    if k == 'XLvList':
        return ('(VList [' + '; '.join(f'VList [VInt {int(l)}; {vb(b)[0]}]' for l, b in v) + '])',
                ('VList', [('VList', [('VInt', int(l)), vb(b)[1]]) for l, b in v]))
    if k in ('XLenBytes16', 'XUuid2', 'XUuidRest', 'XSdpElem'):
        return vb(bytes(v))
    if k == 'XEndpoints':
        rows = [[int(e.seid), int(e.in_use), int(e.media_type), int(e.tsep)] for e in v]
        return ('(VList [' + '; '.join('VList [' + '; '.join(f'VInt {i}' for i in r) + ']' for r in rows) + '])',
                ('VList', [('VList', [('VInt', i) for i in r]) for r in rows]))
    if k == 'XCaps':
        rows = [(int(c.service_category), bytes(c.service_capabilities_bytes)) for c in v]
        return ('(VList [' + '; '.join(f'VList [VInt {c}; {vb(b)[0]}]' for c, b in rows) + '])',
                ('VList', [('VList', [('VInt', c), vb(b)[1]]) for c, b in rows]))
    raise Unsupported(f'x_value: {k}')
