"""C09 - L2CAP ChannelManager tables / identifiers / waiters.

Correspondence between the Coq model (Model/ChanMgr.v) and REAL bumble.l2cap.ChannelManager
objects (with their real LeCreditBasedChannel / ClassicChannel objects) joined by an in-memory
host shim, plus the property oracle on implementation observables.

World: N real managers; links (mgr_i, handle_i) <-> (mgr_j, handle_j) with one FIFO queue per
direction (the harness decides when each frame is delivered = the schedule); a link can be cut at
any step (both ends get the 'disconnection' events, frames in flight are lost, and the same handles
are immediately reused by a new connection).  A "foreign" link has the harness as the peer, which
then sends arbitrary signalling frames.  Every manager sees a sequence of EVENTS (API call, frame
received, link down); the same event sequence is given to the model, and the frames emitted, the
tables, the channel objects and the outcome of every awaited call are compared.
"""
import asyncio
import itertools
import json
import logging
import struct
import os

from lib.verif import coq_list, coq_z

PROP_FILES = ['Props/C09.v']
LEVEL = 'proof'

logging.disable(logging.CRITICAL)

# ----------------------------------------------------------------------------- constants of the scenarios
MPS = 64            # every LE spec in the scenarios uses this MPS (writes are whole frames)
MTU = 2048
SERVER_CREDITS = 2  # credits a server grants (small, so that writes stall)
CLIENT_CREDITS = 3  # credits a client grants
LE_PSMS = [0x80, 0x81]          # 0x81 is served only by some managers
CL_PSMS = [0x1001, 0x1003]
KIND_LE, KIND_ENH, KIND_CL = 0, 1, 2
SETTLE = 10         # event-loop rounds after every event (deterministic "run to idle")

_registry_installed = False


def _install_registry():
    """Record every channel object in creation order on its manager (uid = index).
    Wraps the constructors in this process only."""
    global _registry_installed
    if _registry_installed:
        return
    from bumble import l2cap
    for cls in (l2cap.LeCreditBasedChannel, l2cap.ClassicChannel):
        orig = cls.__init__

        def wrapped(self, *a, __orig=orig, **kw):
            __orig(self, *a, **kw)
            reg = getattr(self.manager, '_verif_registry', None)
            if reg is not None:
                reg.append(self)
        cls.__init__ = wrapped
    _registry_installed = True


def _shim_classes():
    from bumble import utils

    class ShimConnection(utils.EventEmitter):
        EVENT_DISCONNECTION = 'disconnection'

        def __init__(self, handle):
            super().__init__()
            self.handle = handle
            self.peer_address = 'shim'
            self.disconnected = False
            self.once(self.EVENT_DISCONNECTION, self._on_disconnected)

        def _on_disconnected(self, *_args):
            self.disconnected = True

        def cancel_on_disconnection(self, awaitable):
            # same as bumble.device.Connection.cancel_on_disconnection (which cancels at once when
            # the 'disconnection' event has already been emitted)
            future = utils.cancel_on_event(self, self.EVENT_DISCONNECTION, awaitable)
            if self.disconnected and not future.done():
                future.cancel()
            return future

    class ShimHost(utils.EventEmitter):
        def __init__(self, sink):
            super().__init__()
            self.sink = sink

        def send_l2cap_pdu(self, connection_handle, cid, pdu):
            self.sink(connection_handle, cid, bytes(pdu))

        def send_acl_sdu(self, connection_handle, sdu):
            from bumble.l2cap import L2CAP_PDU
            p = L2CAP_PDU.from_bytes(sdu)
            self.sink(connection_handle, p.cid, bytes(p.payload))

    return ShimConnection, ShimHost


# ----------------------------------------------------------------------------- frames: abstract <-> bytes
def _params_ok(mtu, mps):
    """the abstraction of MTU / MPS of a credit-based connection request: within the limits or not"""
    from bumble import l2cap
    return (mtu >= l2cap.L2CAP_LE_CREDIT_BASED_CONNECTION_MIN_MTU
            and l2cap.L2CAP_LE_CREDIT_BASED_CONNECTION_MIN_MPS <= mps <= l2cap.L2CAP_LE_CREDIT_BASED_CONNECTION_MAX_MPS)


def frame_to_abs(cid, pdu):
    """bytes on a CID -> abstract frame (a list; JSON-able)"""
    from bumble import l2cap
    if cid not in (l2cap.L2CAP_SIGNALING_CID, l2cap.L2CAP_LE_SIGNALING_CID):
        return ['Data', cid]
    f = l2cap.L2CAP_Control_Frame.from_bytes(pdu)
    n = type(f).__name__
    if n == 'L2CAP_Connection_Request':
        return ['ConnReq', f.identifier, f.psm, f.source_cid]
    if n == 'L2CAP_Connection_Response':
        return ['ConnRsp', f.identifier, f.destination_cid, f.source_cid, int(f.result)]
    if n == 'L2CAP_Configure_Request':
        rfc = -1
        bad = False
        for t, v in l2cap.L2CAP_Control_Frame.decode_configuration_options(f.options):
            if t == l2cap.L2CAP_Configure_Request.ParameterType.MTU:
                pass
            elif t == l2cap.L2CAP_Configure_Request.ParameterType.RETRANSMISSION_AND_FLOW_CONTROL:
                rfc = v[0]
            else:
                bad = True
        return ['ConfReq', f.identifier, f.destination_cid, rfc, bad]
    if n == 'L2CAP_Configure_Response':
        # what the options suggest: 0 nothing usable, 1 an MTU and/or "FCS off", 2 "FCS on"
        sugg = 0
        PT = l2cap.L2CAP_Configure_Request.ParameterType
        for t, v in l2cap.L2CAP_Control_Frame.decode_configuration_options(f.options):
            if t == PT.FCS and v[0] != 0:
                sugg = 2
            elif t in (PT.MTU, PT.FCS) and sugg == 0:
                sugg = 1
        return ['ConfRsp', f.identifier, f.source_cid, int(f.result), sugg]
    if n == 'L2CAP_Disconnection_Request':
        return ['DiscReq', f.identifier, f.destination_cid, f.source_cid]
    if n == 'L2CAP_Disconnection_Response':
        return ['DiscRsp', f.identifier, f.destination_cid, f.source_cid]
    if n == 'L2CAP_LE_Credit_Based_Connection_Request':
        return ['LeReq', f.identifier, f.le_psm, f.source_cid, f.initial_credits, _params_ok(f.mtu, f.mps)]
    if n == 'L2CAP_LE_Credit_Based_Connection_Response':
        return ['LeRsp', f.identifier, f.destination_cid, f.initial_credits, int(f.result), _params_ok(f.mtu, f.mps)]
    if n == 'L2CAP_Credit_Based_Connection_Request':
        return ['EnhReq', f.identifier, f.spsm, f.initial_credits, list(f.source_cid), _params_ok(f.mtu, f.mps)]
    if n == 'L2CAP_Credit_Based_Connection_Response':
        return ['EnhRsp', f.identifier, f.initial_credits, int(f.result), list(f.destination_cid),
                _params_ok(f.mtu, f.mps)]
    if n == 'L2CAP_LE_Flow_Control_Credit':
        return ['Credit', f.identifier, f.cid, f.credits]
    if n == 'L2CAP_Command_Reject':
        return ['Reject', f.identifier]
    return ['Other', f.identifier, int(f.code)]


def abs_to_frame(a):
    """abstract frame -> (signalling cid, bytes), built with the real frame classes"""
    import struct
    from bumble import l2cap
    k = a[0]
    S, LS = l2cap.L2CAP_SIGNALING_CID, l2cap.L2CAP_LE_SIGNALING_CID
    if k == 'ConnReq':
        return S, bytes(l2cap.L2CAP_Connection_Request(identifier=a[1], psm=a[2], source_cid=a[3]))
    if k == 'ConnRsp':
        return S, bytes(l2cap.L2CAP_Connection_Response(identifier=a[1], destination_cid=a[2], source_cid=a[3],
                                                        result=a[4], status=0))
    if k == 'ConfReq':
        PT = l2cap.L2CAP_Configure_Request.ParameterType
        opts = [(PT.MTU, struct.pack('<H', 672))]
        if a[3] >= 0:
            opts.append((PT.RETRANSMISSION_AND_FLOW_CONTROL, struct.pack('<BBBHHH', a[3], 10, 3, 2000, 12000, 256)))
        if a[4]:
            opts.append((PT.FLUSH_TIMEOUT, struct.pack('<H', 0xFFFF)))
        return S, bytes(l2cap.L2CAP_Configure_Request(
            identifier=a[1], destination_cid=a[2], flags=0,
            options=l2cap.L2CAP_Control_Frame.encode_configuration_options(opts)))
    if k == 'ConfRsp':
        PT = l2cap.L2CAP_Configure_Request.ParameterType
        opts = []
        sugg = a[4] if len(a) > 4 else 0
        if sugg >= 1:
            opts.append((PT.MTU, struct.pack('<H', 672)))
        if sugg == 2:
            opts.append((PT.FCS, bytes([1])))
        return S, bytes(l2cap.L2CAP_Configure_Response(
            identifier=a[1], source_cid=a[2], flags=0, result=a[3],
            options=l2cap.L2CAP_Control_Frame.encode_configuration_options(opts)))
    if k == 'DiscReq':
        return S, bytes(l2cap.L2CAP_Disconnection_Request(identifier=a[1], destination_cid=a[2], source_cid=a[3]))
    if k == 'DiscRsp':
        return S, bytes(l2cap.L2CAP_Disconnection_Response(identifier=a[1], destination_cid=a[2], source_cid=a[3]))
    if k == 'LeReq':
        return LS, bytes(l2cap.L2CAP_LE_Credit_Based_Connection_Request(
            identifier=a[1], le_psm=a[2], source_cid=a[3], mtu=MTU,
            mps=MPS if (len(a) < 6 or a[5]) else 0, initial_credits=a[4]))
    if k == 'LeRsp':
        return LS, bytes(l2cap.L2CAP_LE_Credit_Based_Connection_Response(
            identifier=a[1], destination_cid=a[2], mtu=MTU, mps=MPS if (len(a) < 6 or a[5]) else 0,
            initial_credits=a[3], result=a[4]))
    if k == 'EnhReq':
        return LS, bytes(l2cap.L2CAP_Credit_Based_Connection_Request(
            identifier=a[1], spsm=a[2], mtu=MTU, mps=MPS if (len(a) < 6 or a[5]) else 0, initial_credits=a[3],
            source_cid=list(a[4])))
    if k == 'EnhRsp':
        return LS, bytes(l2cap.L2CAP_Credit_Based_Connection_Response(
            identifier=a[1], mtu=MTU, mps=MPS if (len(a) < 6 or a[5]) else 0, initial_credits=a[2],
            result=l2cap.L2CAP_Credit_Based_Connection_Response.Result(a[3]), destination_cid=list(a[4])))
    if k == 'Credit':
        return LS, bytes(l2cap.L2CAP_LE_Flow_Control_Credit(identifier=a[1], cid=a[2], credits=a[3]))
    if k == 'Reject':
        return LS, bytes(l2cap.L2CAP_Command_Reject(identifier=a[1], reason=0, data=b''))
    raise ValueError(a)


# ----------------------------------------------------------------------------- one real manager + shim
OUTCOME_PENDING, OUTCOME_RESULT, OUTCOME_ERROR, OUTCOME_CANCELLED = 0, 1, 2, 3


def _outcome(task):
    if not task.done():
        return OUTCOME_PENDING
    if task.cancelled():
        return OUTCOME_CANCELLED
    return OUTCOME_ERROR if task.exception() is not None else OUTCOME_RESULT


class Mgr:
    """A real ChannelManager on a shim host.  cfg: {'le': [psm...], 'cl': [[psm, mode]...]} servers."""

    def __init__(self, index, cfg):
        from bumble import l2cap
        _install_registry()
        ShimConnection, ShimHost = _shim_classes()
        self.ShimConnection = ShimConnection
        self.index = index
        self.cfg = cfg
        self.emitted = []            # frames emitted during the current event: (handle, cid, bytes)
        self.host = ShimHost(lambda h, cid, pdu: self.emitted.append((h, cid, pdu)))
        self.mgr = l2cap.ChannelManager()
        self.mgr._verif_registry = []
        self.mgr.host = self.host
        self.conns = {}
        self.events = []             # abstract events, in order
        self.outs = []               # abstract frames emitted, one list per event
        self.sent = []               # (handle, abstract frame) in emission order
        self.tasks = {}              # wid -> task
        self.escaped = []            # exceptions that escaped on_pdu (event index, type name)
        self.send_errors = []        # frames that could not be built (reported by the oracle)
        self.peer_ok = True          # the peer has followed the rules under which the property is claimed
        self.unmodelled = False      # an interleaving the one-step-per-event model does not represent
        for psm in cfg.get('le', []):
            self.mgr.create_le_credit_based_server(
                l2cap.LeCreditBasedChannelSpec(psm=psm, mtu=MTU, mps=MPS, max_credits=SERVER_CREDITS))
        for psm, mode in cfg.get('cl', []):
            self.mgr.create_classic_server(
                l2cap.ClassicChannelSpec(psm=psm, mode=l2cap.TransmissionMode(mode)))

    def conn(self, h):
        if h not in self.conns:
            self.conns[h] = self.ShimConnection(h)
        return self.conns[h]

    @property
    def chans(self):
        return self.mgr._verif_registry

    # ---- events (each is followed by World.settle)
    def ev_open(self, w, h, kind, psm, n, mode):
        from bumble import l2cap
        m = self.mgr
        if kind == KIND_LE:
            co = m.create_le_credit_based_channel(
                self.conn(h), l2cap.LeCreditBasedChannelSpec(psm=psm, mtu=MTU, mps=MPS, max_credits=CLIENT_CREDITS))
        elif kind == KIND_ENH:
            co = m.create_enhanced_credit_based_channels(
                self.conn(h), l2cap.LeCreditBasedChannelSpec(psm=psm, mtu=MTU, mps=MPS, max_credits=CLIENT_CREDITS), n)
        else:
            co = m.create_classic_channel(
                self.conn(h), l2cap.ClassicChannelSpec(psm=psm, mode=l2cap.TransmissionMode(mode)))
        self.tasks[w] = asyncio.ensure_future(co)
        self.events.append(['Open', w, h, kind, psm, n, mode])

    def ev_close(self, w, uid):
        self.tasks[w] = asyncio.ensure_future(self.chans[uid].disconnect())
        self.events.append(['Close', w, uid])

    def ev_abort(self, uid):
        self.chans[uid].abort()
        self.events.append(['Abort', uid])

    def ev_cancel(self, w):
        self.tasks[w].cancel()
        self.events.append(['Cancel', w])

    def ev_write(self, uid, k):
        self.chans[uid].write(bytes(k * MPS - 2))
        self.events.append(['Write', uid, k])

    def ev_grant(self, uid, credits):
        from bumble import l2cap
        c = self.chans[uid]
        self.events.append(['Grant', uid, credits])
        try:
            c.send_control_frame(l2cap.L2CAP_LE_Flow_Control_Credit(
                identifier=self.mgr.next_identifier(c.connection), cid=c.source_cid, credits=credits))
        except Exception as e:
            return type(e).__name__         # the credit frame could not be sent
        return None

    def ev_recv(self, h, cid, pdu):
        a = frame_to_abs(cid, pdu)
        if a[0] == 'Data':
            # data frames never change tables/waiters (the scenario channels have no sink)
            try:
                self.mgr.on_pdu(self.conn(h), cid, pdu)
            except Exception as e:      # pragma: no cover
                self.escaped.append([len(self.events), type(e).__name__])
            return False
        self.events.append(['Recv', h, a])
        if not self.peer_follows_rules(h, a):
            self.peer_ok = False
        try:
            self.mgr.on_pdu(self.conn(h), cid, pdu)
        except Exception as e:
            self.escaped.append([len(self.events) - 1, type(e).__name__])
            if isinstance(e, (struct.error, OverflowError)):
                # a frame the handler wanted to send could not be serialised
                self.send_errors.append(f'handling {a} raised {type(e).__name__}: {e}')
        return True

    def peer_follows_rules(self, h, a):
        """The assumptions on the peer under which the property is claimed (ev_ok of the model,
        restated over the implementation's state): evaluated before the frame is handled."""
        from bumble import l2cap
        LS = l2cap.LeCreditBasedChannel.State
        CS = l2cap.ClassicChannel.State
        m = self.mgr
        chans = m.channels.get(h, {})
        le = m.le_coc_channels.get(h, {})

        def is_le(c):
            return hasattr(c, 'drained')
        k = a[0]
        if k == 'DiscReq':
            c = chans.get(a[2])
            return not (c is not None and is_le(c) and c.state in (LS.INIT, LS.CONNECTING)
                        and a[3] == c.destination_cid)
        if k == 'LeRsp':
            reqs = m.le_coc_requests.get(h)
            r = reqs.get(a[1]) if isinstance(reqs, dict) else None
            if r is None:
                return True
            c = chans.get(r.source_cid)
            if c is not None and not is_le(c):
                return False
            return a[4] != 0 or not (len(a) < 6 or a[5]) or a[2] not in le
        if k == 'EnhRsp':
            p = m.pending_credit_based_connections.get(h, {}).get(a[1])
            if p is None or a[3] != 0 or not (len(a) < 6 or a[5]):
                return True
            return len(a[4]) == len(p[1]) and len(set(a[4])) == len(a[4]) and not (set(a[4]) & set(le))
        if k == 'EnhReq':
            return len(set(a[4])) == len(a[4])
        if k in ('ConnRsp', 'ConfRsp'):
            if k == 'ConfRsp' and len(a) > 4 and a[4] == 2:
                return False        # a suggestion to switch FCS on is not a modelled frame
            c = chans.get(a[3] if k == 'ConnRsp' else a[2])
            return c is None or not is_le(c)
        if k == 'ConfReq':
            c = chans.get(a[2])
            return c is None or not is_le(c)
        return True

    def ev_down(self, h):
        c = self.conn(h)
        # order of bumble.device.Device: the device handler (registered first on the host) emits the
        # connection's 'disconnection' event, then ChannelManager.on_disconnection runs
        c.emit('disconnection', 0x13)
        self.host.emit('disconnection', h, 0x13)
        del self.conns[h]
        self.events.append(['Down', h])

    def take_emitted(self):
        e, self.emitted = self.emitted, []
        return e

    # ---- observables
    def obs(self):
        from bumble import l2cap
        m = self.mgr
        uid_of = {id(c): i for i, c in enumerate(self.chans)}
        channels = sorted([h, cid, uid_of.get(id(c), -1)] for h, d in m.channels.items() for cid, c in d.items())
        le = sorted([h, cid, uid_of.get(id(c), -1)] for h, d in m.le_coc_channels.items() for cid, c in d.items())
        reqs = []
        for k, v in m.le_coc_requests.items():
            if isinstance(v, dict):
                reqs += [[k, ident, r.source_cid] for ident, r in v.items()]
            else:
                reqs.append([-1, k, v.source_cid])     # unfixed tree: keyed by identifier only
        pend = sorted([h, ident, [uid_of.get(id(c), -1) for c in cs]]
                      for h, d in m.pending_credit_based_connections.items() for ident, (_, cs) in d.items())
        ids = sorted([h, v] for h, v in m.identifiers.items())
        chans = []
        for c in self.chans:
            if isinstance(c, l2cap.ClassicChannel):
                chans.append([KIND_CL, c.connection.handle, c.source_cid, c.destination_cid, 100 + int(c.state),
                              0, True])
            else:
                chans.append([KIND_LE, c.connection.handle, c.source_cid, c.destination_cid, int(c.state),
                              c.credits, c.drained.is_set()])
        waiters = sorted([w, _outcome(t)] for w, t in self.tasks.items())
        return {'channels': channels, 'le': le, 'reqs': sorted(reqs), 'pend': pend, 'ids': ids,
                'chans': chans, 'waiters': waiters}


# ----------------------------------------------------------------------------- the world
class World:
    """links: [[mi, hi, mj, hj], ...]; mj == -1: the harness is the peer (foreign link)."""

    def __init__(self, cfgs, links):
        self.mgrs = [Mgr(i, c) for i, c in enumerate(cfgs)]
        self.links = links
        self.queues = {(l, d): [] for l in range(len(links)) for d in (0, 1)}
        self.route = {}
        for l, (mi, hi, mj, hj) in enumerate(links):
            self.route[(mi, hi)] = (l, 0)
            if mj >= 0:
                self.route[(mj, hj)] = (l, 1)
        self.nw = [0] * len(cfgs)       # waiter ids per manager
        self.epoch = {}                 # (m, h) -> number of link cuts so far
        self.task_info = {}             # (m, w) -> ['open'|'close', h, epoch, uid or None]
        self.steps = 0
        self.violations = []            # (check, description)
        self.skipped = 0
        self.unsettled = {}             # manager -> a frame was handled and the loop not run since
        # False once a peer stops following the protocol (unilateral abort, cancelled call, foreign
        # frames): the peer may then reuse a CID it still has open here, and the table filed by the
        # peer's CIDs can only hold one of the two channels
        self.cooperative = True

    async def settle(self):
        for _ in range(SETTLE):
            await asyncio.sleep(0)
        self.unsettled = {}

    def collect(self, m):
        """route what manager m emitted during the event just executed"""
        M = self.mgrs[m]
        out = []
        for h, cid, pdu in M.take_emitted():
            out.append(frame_to_abs(cid, pdu))
            M.sent.append((h, out[-1]))
            r = self.route.get((m, h))
            if r is not None:
                l, d = r
                if self.links[l][2] >= 0:
                    self.queues[(l, d)].append((cid, pdu))
        M.outs.append(out)

    async def after_event(self, m):
        await self.settle()
        self.collect(m)

    def end(self, l, d):
        """receiving end of queue (l, d)"""
        mi, hi, mj, hj = self.links[l]
        return (mj, hj) if d == 0 else (mi, hi)

    async def deliver(self, l, d, settle=True):
        """settle=False: the frame is handled (synchronously) but the event loop is not run before
        the next event, i.e. the next event arrives before the coroutine woken up by this frame
        continues (two packets processed in the same loop iteration)"""
        q = self.queues[(l, d)]
        if not q:
            return False
        cid, pdu = q.pop(0)
        m, h = self.end(l, d)
        a = frame_to_abs(cid, pdu)
        # a refused / failed open is unregistered only when the opening coroutine resumes; the
        # model does both in one step, so such frames are always followed by a run of the loop
        badp = a[0] in ('LeRsp', 'EnhRsp') and not a[5]      # (D17g) a response handled as a refusal
        failing = badp or (a[0] == 'LeRsp' and a[4] != 0) or (a[0] == 'EnhRsp' and a[3] != 0) or \
                  (a[0] == 'ConnRsp' and a[4] not in (0, 1)) or (a[0] == 'ConfReq' and a[3] >= 0) or \
                  a[0] == 'DiscReq'
        if self.mgrs[m].ev_recv(h, cid, pdu):
            if settle or failing:
                await self.settle()
            else:
                self.unsettled[m] = True
            self.collect(m)
        else:
            await self.settle()
            for h2, cid2, pdu2 in self.mgrs[m].take_emitted():     # pragma: no cover (no sink: nothing)
                pass
        return True

    async def flush(self, budget=400):
        await self.settle()
        while budget > 0:
            busy = False
            for key in sorted(self.queues):
                if self.queues[key]:
                    busy = True
                    await self.deliver(*key)
                    budget -= 1
            if not busy:
                return True
        return False       # still frames in flight after the budget: reported by the caller

    async def apply(self, op):
        """apply one world-level op; ops that do not make sense in the current state are skipped"""
        k = op[0]
        self.steps += 1
        if k in ('abort', 'cancel', 'inject'):
            self.cooperative = False
        if k == 'open':
            _, m, h, kind, psm, n, mode = op
            w = self.nw[m]
            self.nw[m] += 1
            ep = self.epoch.get((m, h), 0)
            pending_here = [1 for (mm, ww), (k2, h2, e2, _) in self.task_info.items()
                            if mm == m and k2 == 'open' and h2 == h and e2 == ep and not self.mgrs[m].tasks[ww].done()]
            in_use_before = len(self.mgrs[m].mgr.channels.get(h, {}))
            self.task_info[(m, w)] = ['open', h, ep, None]
            self.mgrs[m].ev_open(w, h, kind, psm, n, mode)
            await self.after_event(m)
            # an open may fail before anything is sent only for lack of resources of ITS connection
            t = self.mgrs[m].tasks[w]
            if t.done() and not self.mgrs[m].outs[-1] and n >= 1 and not pending_here \
                    and (kind == KIND_CL or in_use_before + n <= 64):
                self.violations.append(('open-failed-locally',
                                        f'mgr{m}: {op} failed before sending anything although connection {h} has '
                                        f'{in_use_before} channels in use and no pending request'))
        elif k in ('close', 'abort', 'write', 'grant'):
            m, uid = op[1], op[2]
            M = self.mgrs[m]
            if uid >= len(M.chans):
                self.skipped += 1
                await self.settle()
                return
            c = M.chans[uid]
            close_ok = ''
            if k in ('write', 'grant') and not hasattr(c, 'drained'):
                self.skipped += 1
                await self.settle()
                return
            if k == 'close':
                w = self.nw[m]
                self.nw[m] += 1
                h = c.connection.handle
                self.task_info[(m, w)] = ['close', h, self.epoch.get((m, h), 0), uid]
                # disconnect() of an open channel of a live connection has no reason to fail locally
                close_ok = c.state.name if (c.state.name in ('CONNECTED', 'OPEN')
                                            and M.conns.get(h) is c.connection) else ''
                M.ev_close(w, uid)
            elif k == 'abort':
                M.ev_abort(uid)
            elif k == 'write':
                M.ev_write(uid, op[3])
            else:
                if M.conns.get(c.connection.handle) is not c.connection:
                    self.skipped += 1       # a dead connection object cannot send
                    await self.settle()
                    return
                err = M.ev_grant(uid, op[3])
                if err:
                    self.violations.append(('call-failed-locally',
                                            f'mgr{m}: sending credits on chan{uid} raised {err} on a live connection'))
            await self.after_event(m)
            if k == 'close' and close_ok:
                t = M.tasks[w]
                if t.done() and not t.cancelled() and t.exception() is not None:
                    self.violations.append(('call-failed-locally',
                                            f'mgr{m}: disconnect() of chan{uid} ({close_ok}) on a live connection raised '
                                            f'{type(t.exception()).__name__} before the request was answered'))
        elif k == 'cancel':
            m, w = op[1], op[2]
            if w not in self.mgrs[m].tasks:
                self.skipped += 1
                await self.settle()
                return
            if self.unsettled.get(m):
                # the task is cancelled between a response and its own continuation: the model
                # takes both in one step, so this manager is only checked by the oracle
                self.mgrs[m].unmodelled = True
            self.mgrs[m].ev_cancel(w)
            await self.after_event(m)
        elif k == 'deliver':
            if not await self.deliver(op[1], op[2], settle=(len(op) < 4 or bool(op[3]))):
                self.skipped += 1
                await self.settle()
        elif k == 'flush':
            if not await self.flush():
                self.violations.append(('livelock', 'frames still in flight after 400 deliveries'))
        elif k == 'down':
            l = op[1]
            mi, hi, mj, hj = self.links[l]
            self.queues[(l, 0)].clear()
            self.queues[(l, 1)].clear()
            for m, h in ((mi, hi), (mj, hj)):
                if m >= 0:
                    self.epoch[(m, h)] = self.epoch.get((m, h), 0) + 1
                    self.mgrs[m].ev_down(h)
                    await self.after_event(m)
            self.queues[(l, 0)].clear()
            self.queues[(l, 1)].clear()
        elif k == 'inject':
            _, m, h, a = op
            cid, pdu = abs_to_frame(a)
            if self.mgrs[m].ev_recv(h, cid, pdu):
                await self.after_event(m)
        else:
            raise ValueError(op)

    # ---- property oracle on implementation observables only
    def check(self, opname):
        from bumble import l2cap
        LS = l2cap.LeCreditBasedChannel.State
        CS = l2cap.ClassicChannel.State
        bad = []
        for mi, M in enumerate(self.mgrs):
            m = M.mgr
            uid_of = {id(c): i for i, c in enumerate(M.chans)}

            def name(c):
                return f'mgr{mi}.chan{uid_of.get(id(c), "?")}'

            while M.send_errors:
                bad.append(('call-failed-locally', f'mgr{mi}: {M.send_errors.pop(0)}'))
            for h, ident in m.identifiers.items():
                if not (isinstance(ident, int) and 1 <= ident <= 255):
                    bad.append(('identifier-range', f'mgr{mi}: the signalling identifier of connection {h} is {ident!r}'))

            def current(c):
                return M.conns.get(c.connection.handle) is c.connection

            def closed(c):
                if isinstance(c, l2cap.ClassicChannel):
                    return c.state == CS.CLOSED
                return c.state in (LS.DISCONNECTED, LS.CONNECTION_ERROR)

            def le_open(c):
                return (not isinstance(c, l2cap.ClassicChannel)) and c.state in (LS.CONNECTED, LS.DISCONNECTING)

            seen = set()
            for h, d in m.channels.items():
                for cid, c in d.items():
                    if not current(c):
                        bad.append(('stale-channels-deadlink', f'{name(c)} of a dead link is in channels[{h}][{cid}]'))
                    elif closed(c):
                        bad.append(('stale-channels', f'{name(c)} is closed ({c.state.name}) but still in channels[{h}][{cid}]'))
                    elif c.source_cid != cid or c.connection.handle != h:
                        bad.append(('misfiled-channels', f'{name(c)} filed under channels[{h}][{cid}]'))
                    if id(c) in seen:
                        bad.append(('dup-channels', f'{name(c)} appears twice in channels'))
                    seen.add(id(c))
            seen = set()
            for h, d in m.le_coc_channels.items():
                for cid, c in d.items():
                    if not current(c):
                        bad.append(('stale-le_coc-deadlink', f'{name(c)} of a dead link is in le_coc_channels[{h}][{cid}]'))
                    elif not le_open(c) and (M.peer_ok or closed(c)):
                        bad.append(('stale-le_coc', f'{name(c)} is {c.state.name} but still in le_coc_channels[{h}][{cid}]'))
                    elif c.destination_cid != cid or c.connection.handle != h:
                        bad.append(('misfiled-le_coc', f'{name(c)} (destination cid {c.destination_cid}) filed under le_coc_channels[{h}][{cid}]'))
                    elif m.channels.get(h, {}).get(c.source_cid) is not c:
                        bad.append(('le_coc-not-in-channels', f'{name(c)} in le_coc_channels but not in channels'))
                    if id(c) in seen:
                        bad.append(('dup-le_coc', f'{name(c)} appears twice in le_coc_channels'))
                    seen.add(id(c))
            # nothing missing; identifiers of open channels unique per connection
            scids, dcids = {}, {}
            for c in M.chans:
                if not current(c):
                    if not isinstance(c, l2cap.ClassicChannel) and not c.drained.is_set():
                        bad.append(('drain-stuck-deadlink', f'{name(c)}: link gone, drain() would wait forever'))
                    continue
                h = c.connection.handle
                if le_open(c):
                    if m.channels.get(h, {}).get(c.source_cid) is not c:
                        bad.append(('missing-channels', f'{name(c)} is {c.state.name} but not in channels[{h}][{c.source_cid}]'))
                    if self.cooperative and c not in m.le_coc_channels.get(h, {}).values():
                        bad.append(('missing-le_coc', f'{name(c)} is {c.state.name} but not in le_coc_channels[{h}]'))
                if isinstance(c, l2cap.ClassicChannel) and c.state == CS.OPEN:
                    if m.channels.get(h, {}).get(c.source_cid) is not c:
                        bad.append(('missing-channels', f'{name(c)} is OPEN but not in channels[{h}][{c.source_cid}]'))
                if not closed(c) and m.channels.get(h, {}).get(c.source_cid) is c:
                    if (h, c.source_cid) in scids:
                        bad.append(('dup-scid', f'{name(c)} and {scids[(h, c.source_cid)]} share source cid'))
                    scids[(h, c.source_cid)] = name(c)
                if not isinstance(c, l2cap.ClassicChannel) and c.state == LS.DISCONNECTED and not c.drained.is_set():
                    bad.append(('drain-stuck-closed', f'{name(c)} is DISCONNECTED, drain() would wait forever'))
            # an open that nobody waits for any more must not keep its channel filed, and a closed
            # channel must not keep a connect() waiting
            open_pending = {(h2, e2) for (mm, ww), (k2, h2, e2, _) in self.task_info.items()
                            if mm == mi and k2 == 'open' and not M.tasks[ww].done()}
            for h, d in m.channels.items():
                for cid, c in d.items():
                    if current(c) and not isinstance(c, l2cap.ClassicChannel) and c.state in (LS.INIT, LS.CONNECTING) \
                            and (h, self.epoch.get((mi, h), 0)) not in open_pending:
                        bad.append(('stale-channels-abandoned', f'{name(c)} is {c.state.name}, no open is pending on connection {h}, but it is still in channels[{h}][{cid}]'))
            for c in M.chans:
                cr = getattr(c, 'connection_result', None)
                if cr is not None and not cr.done() and closed(c):
                    bad.append(('connect-stuck-closed', f'{name(c)} is {c.state.name} but its connection_result is still pending'))
            # pending request tables
            for k, v in (m.le_coc_requests.items() if M.peer_ok else ()):
                items = [(k, i, r) for i, r in v.items()] if isinstance(v, dict) else [(None, k, v)]
                for h, ident, r in items:
                    owner = [c for c in M.chans if current(c) and not isinstance(c, l2cap.ClassicChannel)
                             and c.state == LS.CONNECTING and c.source_cid == r.source_cid
                             and (h is None or c.connection.handle == h)]
                    if not owner:
                        bad.append(('stale-le_coc_requests', f'mgr{mi}: request id {ident} (source cid {r.source_cid}) is not awaited by any connecting channel'))
            for h, d in m.pending_credit_based_connections.items():
                for ident, (fut, cs) in d.items():
                    if fut.done() or not all(current(c) for c in cs):
                        bad.append(('stale-pending_credit_based', f'mgr{mi}: pending_credit_based_connections[{h}][{ident}] is finished or of a dead link'))
            for h in m.identifiers:
                if h not in M.conns and any(h == hh for (mm, hh) in self.epoch if mm == mi):
                    pass    # a new connection object is only created on first use; nothing to check
            # waiters
            for w, t in M.tasks.items():
                if t.done():
                    continue
                kind, h, ep, uid = self.task_info[(mi, w)]
                if self.epoch.get((mi, h), 0) != ep and (M.peer_ok or kind == 'close'):
                    bad.append(('waiter-stuck-linkdown', f'mgr{mi}: {kind} call #{w} still pending after its link went down'))
                elif kind == 'close' and closed(M.chans[uid]):
                    bad.append(('waiter-stuck-closed', f'mgr{mi}: disconnect() #{w} still pending, channel is {M.chans[uid].state.name}'))
            for ev, exc in M.escaped:
                pass
        for b in bad:
            self.violations.append((b[0], f'after {opname}: {b[1]}'))
        return bad


# ----------------------------------------------------------------------------- topologies and generation
CFG_CENTRAL = {'le': [0x80], 'cl': [[0x1001, 0]]}
CFG_PERIPH = {'le': [0x80, 0x81], 'cl': [[0x1001, 0], [0x1003, 3]]}
TOPOLOGIES = {
    # name: (manager configs, links)
    'pair': ([CFG_CENTRAL, CFG_PERIPH], [[0, 1, 1, 5]]),
    'star': ([CFG_CENTRAL, CFG_PERIPH, CFG_PERIPH], [[0, 1, 1, 5], [0, 2, 2, 5]]),
    'foreign': ([CFG_PERIPH], [[0, 1, -1, 0], [0, 2, -1, 0]]),
}


def _ends(links):
    out = []
    for l, (mi, hi, mj, hj) in enumerate(links):
        out.append((mi, hi, l))
        if mj >= 0:
            out.append((mj, hj, l))
    return out


def gen_open(rng, ends, ltypes):
    m, h, l = rng.choice(ends)
    if ltypes[l] == 'cl':
        kind = KIND_CL
        psm = rng.choice([0x1001] * 6 + [0x1003] * 2 + [0x1005])
        mode = rng.choice([0] * 5 + [3])
        n = 1
    else:
        kind = rng.choice([KIND_LE] * 9 + [KIND_ENH] * 4)
        psm = rng.choice([0x80] * 6 + [0x81] * 2 + [0x90])
        mode = 0
        n = rng.choice([1, 2, 2, 3, 5]) if kind == KIND_ENH else 1
        if kind == KIND_ENH and rng.chance(1, 25):
            n = 0
    return ['open', m, h, kind, psm, n, mode]


def gen_foreign_frame(rng, w, m, h, ltype):
    """a signalling frame from a foreign peer on a link of the given transport: answers to what
    the manager sent (each request answered at most once), requests with fresh or clashing
    CIDs, unsolicited or duplicate responses.  The peer follows these rules (the hypotheses of
    the theorems, ev_ok in Proofs/ChanMgr.v): a CID it assigns in a successful response is not
    one it already uses on that connection; it answers a disconnection request at most once and
    does not send a disconnection request for a channel whose connection request it has not
    answered."""
    from bumble import l2cap
    M = w.mgrs[m]
    LS = l2cap.LeCreditBasedChannel.State
    sent = [f for (hh, f) in M.sent if hh == h]
    mine = [c for c in M.chans if M.conns.get(c.connection.handle) is c.connection and c.connection.handle == h]
    used_peer = set(M.mgr.le_coc_channels.get(h, {}).keys())
    fresh = [c for c in (0x40, 0x41, 0x42, 0x50, 0x51, 0x52, 0x53, 0x54, 0x7F) if c not in used_peer]
    answered = w.__dict__.setdefault('answered', set())
    reqs = [f for f in sent if f[0] in ('LeReq', 'EnhReq', 'ConnReq', 'DiscReq', 'ConfReq')]
    r = rng.below(100)
    if r < 45 and reqs:
        q = rng.choice(reqs[-4:])
        key = (m, q[0], q[1])
        if q[0] == 'LeReq' and ltype == 'le':
            return ['LeRsp', q[1], rng.choice(fresh), rng.choice([0, 1, 5]), rng.choice([0] * 4 + [2, 4]),
                    not rng.chance(1, 6)]
        if q[0] == 'EnhReq' and ltype == 'le':
            res = rng.choice([0] * 4 + [2, 4])
            cur = M.mgr.pending_credit_based_connections.get(h, {}).get(q[1])
            n = len(cur[1]) if cur is not None else len(q[4])
            return ['EnhRsp', q[1], rng.choice([0, 1, 5]), res, fresh[:n] if res == 0 and len(fresh) >= n else [],
                    not rng.chance(1, 6)] \
                if (res != 0 or len(fresh) >= n) else ['Reject', q[1]]
        if q[0] == 'ConnReq' and ltype == 'cl':
            return ['ConnRsp', q[1], rng.choice(fresh), q[3], rng.choice([0] * 4 + [1, 2, 4])]
        if q[0] == 'DiscReq':
            if key in answered:
                return ['Reject', q[1]]
            answered.add(key)
            return ['DiscRsp', q[1], q[2], q[3]]
        if q[0] == 'ConfReq' and ltype == 'cl':
            return ['ConfRsp', q[1], rng.choice([0x40, 0x41]), rng.choice([0] * 5 + [1, 1, 2, 3]), rng.choice([0, 1, 1])]
        return ['Reject', q[1]]
    peer_cid = rng.choice([0x40, 0x41, 0x42, 0x50, 0x51, 0x7F])
    local = rng.choice([0x40, 0x41, 0x42, 0x43])
    if r < 80:
        if ltype == 'le':
            if rng.chance(3, 5):
                return ['LeReq', rng.range(1, 255), rng.choice([0x80, 0x80, 0x81, 0x90]), peer_cid, rng.choice([0, 1, 4]),
                        not rng.chance(1, 6)]
            k = rng.choice([1, 2, 3])
            base = rng.choice([0x40, 0x50, 0x60])
            return ['EnhReq', rng.range(1, 255), rng.choice([0x80, 0x80, 0x90]), rng.choice([0, 2]),
                    [base + i for i in range(k)], not rng.chance(1, 6)]
        rr = rng.below(10)
        if rr < 5:
            return ['ConnReq', rng.range(1, 255), rng.choice([0x1001, 0x1001, 0x1003, 0x1005]), peer_cid]
        if rr < 8:
            return ['ConfReq', rng.range(1, 255), local, rng.choice([-1, -1, 0, 3]), rng.chance(1, 6)]
        return ['ConfRsp', rng.range(1, 255), local, rng.choice([0] * 5 + [1, 1, 2, 3]), rng.choice([0, 1, 1])]
    if r < 92:
        # disconnection request for one of the manager's established channels (or a stray CID)
        filed = list(M.mgr.channels.get(h, {}).values())
        est = [c for c in filed if not (hasattr(c, 'drained') and c.state in (LS.INIT, LS.CONNECTING))]
        if any(hasattr(c, 'drained') and c.state in (LS.INIT, LS.CONNECTING) for c in filed) and not est:
            return ['Reject', rng.range(1, 255)]
        if est and rng.chance(4, 5):
            c = rng.choice(est)
            return ['DiscReq', rng.range(1, 255), c.source_cid, c.destination_cid]
        return ['DiscReq', rng.range(1, 255), 0x3F, peer_cid]
    if ltype == 'le':
        return ['Credit', rng.range(1, 255), peer_cid, rng.choice([1, 3, 100])]
    return ['Reject', rng.range(1, 255)]


def _settled(op):
    """the property oracle looks at the implementation only when the event loop is idle"""
    return not (op[0] == 'deliver' and len(op) >= 4 and not op[3])


async def gen_and_run(rng, topo, ltypes, length, allow_abort=True, down_weight=8):
    """generate a history online (choices depend only on what is visible in the world) and run it;
    returns (world, ops).  The op list alone replays the run."""
    cfgs, links = TOPOLOGIES[topo]
    w = World(cfgs, links)
    ends = _ends(links)
    ops = []
    foreign = any(l[2] < 0 for l in links)
    for _ in range(length):
        r = rng.below(100)
        op = None
        busy = [k for k in sorted(w.queues) if w.queues[k]]
        if r < 22:
            op = gen_open(rng, ends, ltypes)
        elif r < 52:
            if foreign:
                m, h, l = rng.choice(ends)
                op = ['inject', m, h, gen_foreign_frame(rng, w, m, h, ltypes[l])]
            elif busy:
                op = ['deliver', *rng.choice(busy)]
                if rng.chance(1, 4):
                    op.append(0)        # the next event arrives before the woken coroutine resumes
            else:
                op = gen_open(rng, ends, ltypes)
        elif r < 58:
            op = ['flush']
        elif r < 74:
            m = rng.choice(ends)[0]
            n = len(w.mgrs[m].chans)
            if n:
                op = ['close', m, rng.below(n)]
        elif r < 78:
            m = rng.choice(ends)[0]
            n = len(w.mgrs[m].chans)
            if n and allow_abort:
                op = ['abort', m, rng.below(n)]
                if rng.chance(1, 3) and w.nw[m]:
                    op = ['cancel', m, rng.below(w.nw[m])]
        elif r < 86:
            m = rng.choice(ends)[0]
            n = len(w.mgrs[m].chans)
            if n:
                op = ['write', m, rng.below(n), rng.choice([1, 2, 4])]
        elif r < 89:
            m = rng.choice(ends)[0]
            n = len(w.mgrs[m].chans)
            if n:
                op = ['grant', m, rng.below(n), rng.choice([1, 2, 50])]
        elif r < 89 + down_weight:
            op = ['down', rng.below(len(links))]
        if op is None:
            op = ['flush'] if not foreign else gen_open(rng, ends, ltypes)
        ops.append(op)
        await w.apply(op)
        if _settled(op):
            w.check(op[0])
    if ops and not _settled(ops[-1]):
        await w.settle()
        w.check('settle')
    return w, ops


async def run_ops(topo, ops, check=True):
    cfgs, links = TOPOLOGIES[topo]
    w = World(cfgs, links)
    for op in ops:
        await w.apply(op)
        if check and _settled(op):
            w.check(op[0])
    if ops and not _settled(ops[-1]):
        await w.settle()
        if check:
            w.check('settle')
    return w


def audit_eligible(topo, ops):
    return topo != 'foreign' and not any(o[0] in ('abort', 'cancel', 'inject') for o in ops)


async def audit(w, topo, ltypes):
    """End of a history in which both ends of every link are real managers and nobody aborted
    unilaterally: (1) everything in flight is delivered, (2) new channels of every kind of the
    link's transport are opened in both directions and must succeed (identifiers are reusable),
    (3) every open channel is closed and every table must then be empty and every awaited call
    finished.  Returns the ops it applied."""
    from bumble import l2cap
    cfgs, links = TOPOLOGIES[topo]
    extra = [['flush']]
    probes = []
    for l, (mi, hi, mj, hj) in enumerate(links):
        if ltypes[l] == 'le':
            extra += [['open', mi, hi, KIND_LE, 0x80, 1, 0], ['open', mi, hi, KIND_ENH, 0x80, 2, 0],
                      ['open', mj, hj, KIND_LE, 0x80, 1, 0]]
        else:
            extra += [['open', mi, hi, KIND_CL, 0x1001, 1, 0], ['open', mj, hj, KIND_CL, 0x1001, 1, 0]]
    extra.append(['flush'])
    for op in extra:
        if op[0] == 'open':
            probes.append((op[1], w.nw[op[1]], op))
        await w.apply(op)
        w.check('audit-' + op[0])
    for m, wid, op in probes:
        o = _outcome(w.mgrs[m].tasks[wid])
        if o != OUTCOME_RESULT:
            w.violations.append(('reopen-failed:' + ['le', 'enh', 'classic'][op[3]],
                                 f'mgr{m}: opening a new channel {op} after the history did not succeed (outcome {o})'))
    closes = []
    LS = l2cap.LeCreditBasedChannel.State
    CS = l2cap.ClassicChannel.State
    for l, (mi, hi, mj, hj) in enumerate(links):
        M = w.mgrs[mi]
        for uid, c in enumerate(M.chans):
            if M.conns.get(c.connection.handle) is c.connection and c.connection.handle == hi and \
                    c.state in (LS.CONNECTED, CS.OPEN):
                closes.append(['close', mi, uid])
    for op in closes + [['flush']]:
        await w.apply(op)
        w.check('audit-' + op[0])
        extra.append(op)
    for mi, M in enumerate(w.mgrs):
        o = M.obs()
        for t in ('channels', 'le', 'reqs', 'pend'):
            if o[t]:
                w.violations.append((f'leak-{t}', f'mgr{mi}: {t} = {o[t]} after every channel was closed'))
        for wid, oc in o['waiters']:
            if oc == OUTCOME_PENDING:
                w.violations.append(('waiter-pending', f'mgr{mi}: awaited call #{wid} still pending after every channel was closed'))
    return extra


# ----------------------------------------------------------------------------- translator
def regen(ctx):
    from bumble import l2cap
    from translate import c09_tables
    text, consts, tables, pops = c09_tables.generate(l2cap)
    ctx.write_gen('C09Tables', text)
    ctx.extra['c09_constants'] = consts
    ctx.extra['c09_per_connection_tables'] = tables
    ctx.extra['c09_disconnection_pops'] = pops
    # ChannelManager.next_identifier as a Coq function (its own file: only Props/C09.v depends on it)
    ctx.write_gen('C09Ident', '(* GENERATED by tools/translate/c09_tables.py identifier_function() from '
                  'bumble/l2cap.py - do not edit *)\nFrom Coq Require Import ZArith.\nOpen Scope Z_scope.\n\n'
                  + c09_tables.identifier_function(l2cap))
    # effect skeleton of the anchored functions (compared in Coq with Proofs/ChanMgrSkeleton.v)
    sk = c09_tables.skeleton(l2cap)
    gen = ('(* GENERATED by tools/translate/c09_tables.py skeleton() from bumble/l2cap.py - do not edit *)\n'
           'From Coq Require Import List String.\nImport ListNotations.\nOpen Scope string_scope.\n\n'
           + c09_tables.skeleton_coq(sk, 'skeleton_of_source'))
    ctx.write_gen('C09Skeleton', gen)
    ctx.extra['c09_skeleton'] = {'functions': len(sk), 'tokens': sum(len(t) for _, t in sk)}
    try:    # name the functions whose shape differs from the modelled one (information only)
        here = os.path.dirname(os.path.dirname(os.path.dirname(os.path.abspath(__file__))))
        exp = open(os.path.join(here, 'coq', 'Proofs', 'ChanMgrSkeleton.v')).read()
        changed = [fn for fn, toks in sk
                   if c09_tables.skeleton_coq([(fn, toks)], 'x').split(':=', 1)[1].strip()[1:-2].strip() not in exp]
        if changed:
            ctx.extra['c09_skeleton_changed'] = changed
            ctx.log('shape of the code differs from the modelled skeleton in: ' + ', '.join(changed))
    except OSError:
        pass


# ----------------------------------------------------------------------------- model side
_FRAME_CTOR = {'ConnReq': 'FConnReq', 'ConnRsp': 'FConnRsp', 'ConfReq': 'FConfReq', 'ConfRsp': 'FConfRsp',
               'DiscReq': 'FDiscReq', 'DiscRsp': 'FDiscRsp', 'LeReq': 'FLeReq', 'LeRsp': 'FLeRsp',
               'EnhReq': 'FEnhReq', 'EnhRsp': 'FEnhRsp', 'Credit': 'FCredit', 'Reject': 'FReject', 'Data': 'FData'}
_CTOR_FRAME = {v: k for k, v in _FRAME_CTOR.items()}


def _cv(x):
    if isinstance(x, bool):
        return 'true' if x else 'false'
    if isinstance(x, int):
        return coq_z(x)
    if isinstance(x, list):
        return '[' + '; '.join(_cv(y) for y in x) + ']'
    raise TypeError(x)


def frame_coq(a):
    return '(' + _FRAME_CTOR[a[0]] + ''.join(' ' + _cv(x) for x in a[1:]) + ')'


def event_coq(e):
    k = e[0]
    if k == 'Open':
        _, _w, h, kind, psm, n, mode = e
        return f'EOpen {coq_z(h)} {kind} {coq_z(psm)} {coq_z(n)} {coq_z(mode)} {CLIENT_CREDITS}'
    if k == 'Close':
        return f'EClose {e[2]}'
    if k == 'Abort':
        return f'EAbort {e[1]}'
    if k == 'Cancel':
        return f'ECancel {e[1]}'
    if k == 'Write':
        return f'EWrite {e[1]} {e[2]}'
    if k == 'Grant':
        return f'EGrant {e[1]} {e[2]}'
    if k == 'Recv':
        return f'ERecv {coq_z(e[1])} {frame_coq(e[2])}'
    if k == 'Down':
        return f'EDown {coq_z(e[1])}'
    raise ValueError(e)


def model_expr(cfg, events):
    lesrv = '[' + '; '.join(f'({p}, {SERVER_CREDITS})' for p in cfg.get('le', [])) + ']'
    clsrv = '[' + '; '.join(f'({p}, {mo})' for p, mo in cfg.get('cl', [])) + ']'
    evs = '[' + '; '.join(event_coq(e) for e in events) + ']'
    return (f"let m0 := m_init {lesrv} {clsrv} in let evs := {evs} in "
            f"let '(m, outs) := run m0 evs in (outs, m_obs m, evs_ok m0 evs)")


def _frame_from_model(f):
    if isinstance(f, str):
        f = (f,)
    return [_CTOR_FRAME[f[0]]] + [list(x) if isinstance(x, (list, tuple)) else x for x in f[1:]]


def model_result_canon(res):
    outs, obs, ok = res
    outs = [[_frame_from_model(f) for f in out] for out in outs]
    chs, le, reqs, pend, ids, chans, ws = obs
    canon = {
        'channels': sorted(list(x) for x in chs),
        'le': sorted(list(x) for x in le),
        'reqs': sorted(list(x) for x in reqs),
        'pend': sorted([x[0], x[1], list(x[2])] for x in pend),
        'ids': sorted(list(x) for x in ids),
        'chans': [list(x) for x in chans],
        'waiters': [[i, o] for i, o in enumerate(ws)],
    }
    return outs, canon, ok


def impl_supported(events):
    """events the model has a constructor for"""
    for e in events:
        if e[0] == 'Recv' and e[2][0] == 'Other':
            return False
    return True


# ----------------------------------------------------------------------------- one case
class Case:
    def __init__(self, topo, ltypes, ops, tag, audited=False):
        self.topo, self.ltypes, self.ops, self.tag, self.audited = topo, ltypes, ops, tag, audited
        self.mgr_results = []     # per manager: (cfg, events, outs, obs, escaped)
        self.violations = []

    def replay_obj(self):
        return {'topo': self.topo, 'ltypes': self.ltypes, 'ops': self.ops, 'audit': self.audited}


def _snapshot(case, w):
    case.violations = list(w.violations)
    case.mgr_results = [(M.cfg, [] if M.unmodelled else list(M.events), [list(o) for o in M.outs], M.obs(),
                         list(M.escaped)) for M in w.mgrs]
    case.skipped = w.skipped
    case.cooperative = w.cooperative


def run_generated(rng, topo, ltypes, length, tag, **kw):
    async def go():
        w, ops = await gen_and_run(rng, topo, ltypes, length, **kw)
        audited = audit_eligible(topo, ops)
        if audited:
            await audit(w, topo, ltypes)
        case = Case(topo, ltypes, ops, tag, audited)
        _snapshot(case, w)
        return case
    return asyncio.run(go())


def run_fixed(topo, ltypes, ops, tag, with_audit=False):
    async def go():
        w = await run_ops(topo, ops)
        audited = with_audit and audit_eligible(topo, ops)
        if audited:
            await audit(w, topo, ltypes)
        case = Case(topo, ltypes, list(ops), tag, audited)
        _snapshot(case, w)
        return case
    return asyncio.run(go())


# ----------------------------------------------------------------------------- campaign
CORPUS = [
    # D09a: close an LE CoC then open again on the same connection
    ('D09a', 'pair', ['le'], [['open', 0, 1, 0, 0x80, 1, 0], ['flush'], ['close', 0, 0], ['flush'],
                              ['open', 0, 1, 0, 0x80, 1, 0], ['flush']]),
    # D09b: one central, two peripherals, first request on both links uses identifier 1
    ('D09b', 'star', ['le', 'le'], [['open', 0, 1, 0, 0x80, 1, 0], ['open', 0, 2, 0, 0x80, 1, 0], ['flush']]),
    # D09b': link lost while the request is pending, then the same identifier on the new link
    ('D09b-linkdown', 'pair', ['le'], [['open', 0, 1, 0, 0x80, 1, 0], ['down', 0],
                                       ['open', 0, 1, 0, 0x80, 1, 0], ['flush']]),
    # D09c: classic channel, link lost in WAIT_DISCONNECT
    ('D09c', 'pair', ['cl'], [['open', 0, 1, 2, 0x1001, 1, 0], ['flush'], ['close', 0, 0], ['down', 0]]),
    # D09c': abort() of an open classic channel leaves it registered
    ('D09c-abort', 'pair', ['cl'], [['open', 0, 1, 2, 0x1001, 1, 0], ['flush'], ['abort', 0, 0]]),
    # D09d: output pending, link lost / channel closed
    ('D09d', 'pair', ['le'], [['open', 0, 1, 0, 0x80, 1, 0], ['flush'], ['write', 0, 0, 4], ['down', 0]]),
    ('D09d-close', 'pair', ['le'], [['open', 0, 1, 0, 0x80, 1, 0], ['flush'], ['write', 0, 0, 4],
                                    ['close', 0, 0], ['flush']]),
    # D09e: classic disconnection collision
    ('D09e', 'pair', ['cl'], [['open', 0, 1, 2, 0x1001, 1, 0], ['flush'], ['close', 0, 0], ['close', 1, 0], ['flush']]),
    # D09g: the caller cancels a pending open / aborts the connecting channel
    ('D09g', 'pair', ['le'], [['open', 0, 1, 0, 0x80, 1, 0], ['cancel', 0, 0], ['flush']]),
    ('D09g-enh', 'pair', ['le'], [['open', 0, 1, 1, 0x80, 2, 0], ['cancel', 0, 0], ['flush']]),
    ('D09g-abort', 'pair', ['le'], [['open', 0, 1, 0, 0x80, 1, 0], ['abort', 0, 0], ['flush']]),
    # the caller cancels the open in the loop iteration in which the response arrived: the channel is
    # connected and must stay filed (the CONNECTED guard of the D09g handler; seeded edit T8)
    ('cancel-race', 'pair', ['le'], [['open', 0, 1, 0, 0x80, 1, 0], ['deliver', 0, 0], ['deliver', 0, 1, 0],
                                     ['cancel', 0, 0], ['flush'], ['write', 0, 0, 2], ['flush'], ['close', 0, 0], ['flush']]),
    ('cancel-race-enh', 'pair', ['le'], [['open', 0, 1, 1, 0x80, 2, 0], ['deliver', 0, 0], ['deliver', 0, 1, 0],
                                         ['cancel', 0, 0], ['flush'], ['close', 0, 0], ['flush']]),
    # D09h: the caller cancels disconnect(), then the response arrives
    ('D09h', 'pair', ['cl'], [['open', 0, 1, 2, 0x1001, 1, 0], ['flush'], ['close', 0, 0], ['cancel', 0, 1], ['flush']]),
    # D09i: a late disconnection request for an earlier channel that used the same CID
    ('D09i', 'pair', ['le'], [['open', 0, 1, 0, 0x80, 1, 0], ['flush'], ['abort', 0, 0], ['close', 1, 0],
                              ['open', 0, 1, 0, 0x80, 1, 0], ['deliver', 0, 1], ['flush'], ['down', 0]]),
    # D09j: unsolicited classic disconnection response while connecting
    ('D09j', 'foreign', ['cl', 'cl'], [['open', 0, 1, 2, 0x1001, 1, 0], ['inject', 0, 1, ['ConnRsp', 1, 0x50, 0x40, 0]],
                                       ['inject', 0, 1, ['DiscRsp', 9, 0x50, 0x40]]]),
    # D09f: the response and the loss of the link are processed in the same loop iteration
    ('D09f', 'pair', ['le'], [['open', 0, 1, 0, 0x80, 1, 0], ['deliver', 0, 0], ['deliver', 0, 1, 0], ['down', 0]]),
    ('D09f-enh', 'pair', ['le'], [['open', 0, 1, 1, 0x80, 2, 0], ['deliver', 0, 0], ['deliver', 0, 1, 0], ['down', 0]]),
    # model/implementation disagreement found by the thorough campaign: abort() of the orphaned
    # initiator channel of a mode mismatch (WAIT_DISCONNECT, filed nowhere) closes it
    ('abort-orphan', 'pair', ['cl'], [['open', 0, 1, 2, 0x1003, 1, 0], ['flush'], ['abort', 0, 0]]),
    # (4b0ae06) a credit-based connection request with an MTU / MPS below the minimum is refused and
    # leaves no trace; the same request with acceptable parameters is accepted afterwards
    ('bad-params', 'foreign', ['le', 'le'], [['inject', 0, 1, ['LeReq', 7, 0x80, 0x50, 1, False]],
                                             ['inject', 0, 1, ['EnhReq', 8, 0x80, 2, [0x51, 0x52], False]],
                                             ['inject', 0, 1, ['LeReq', 9, 0x80, 0x50, 1, True]],
                                             ['inject', 0, 1, ['EnhReq', 10, 0x80, 2, [0x51, 0x52], True]]]),
    # (D17g, 19ac8d3) a successful response with an MPS below the minimum is a refusal: the open fails,
    # nothing stays filed, the same CIDs are handed out again
    ('bad-params-rsp', 'foreign', ['le', 'le'], [['open', 0, 1, 0, 128, 1, 0], ['inject', 0, 1, ['LeRsp', 1, 80, 2, 0, False]], ['open', 0, 1, 0, 128, 1, 0], ['open', 0, 1, 1, 128, 2, 0], ['inject', 0, 1, ['EnhRsp', 3, 2, 0, [81, 82], False]], ['open', 0, 1, 1, 128, 2, 0]]),
    # D07 seen from the tables: enhanced server channel, peer CIDs differ from ours, close
    ('D07-tables', 'foreign', ['le', 'le'], [['inject', 0, 1, ['EnhReq', 7, 0x80, 2, [0x50, 0x51]]], ['close', 0, 0],
                                             ['inject', 0, 1, ['DiscRsp', 1, 0x50, 0x40]]]),
]


# signalling identifiers wrap from 255 to 1 (0 is skipped): 260 credit packets on one connection
CORPUS.append(('id-wrap', 'pair', ['le'], [['open', 0, 1, 0, 0x80, 1, 0], ['flush']] + [['grant', 0, 0, 1]] * 260
               + [['open', 0, 1, 0, 0x80, 1, 0], ['flush']]))


def _load_corpus():
    d = os.path.join(os.path.dirname(os.path.dirname(os.path.dirname(os.path.abspath(__file__)))), 'corpus', 'C09')
    out = []
    if os.path.isdir(d):
        for fn in sorted(os.listdir(d)):
            if fn.endswith('.json'):
                with open(os.path.join(d, fn)) as f:
                    o = json.load(f)
                out.append((fn[:-5], o['topo'], o['ltypes'], o['ops']))
    return out


def _sig(check):
    return check


def evaluate_cases(ctx, cases, extra_exprs=()):
    """model vs implementation for every manager of every case + oracle verdicts"""
    exprs, index = [], []
    for ci, case in enumerate(cases):
        for mi, (cfg, events, outs, obs, escaped) in enumerate(case.mgr_results):
            if events and impl_supported(events):
                exprs.append(model_expr(cfg, events))
                index.append((ci, mi))
    nmodel = len(exprs)
    results_all = ctx.coq_eval(['Model.ChanMgr'], exprs + list(extra_exprs), shard=150)
    results, extra_results = results_all[:nmodel], results_all[nmodel:]
    in_hyp = 0
    for (ci, mi), res in zip(index, results):
        case = cases[ci]
        cfg, events, outs, obs, escaped = case.mgr_results[mi]
        m_outs, m_obs, ok = model_result_canon(res)
        if ok:
            in_hyp += 1
        ctx.count('managers.hypotheses_hold' if ok else 'managers.outside_hypotheses')
        i_obs = dict(obs)
        if not ok:
            continue    # outside the modelled behaviour (recorded in the distribution)
        if m_outs != outs or m_obs != i_obs:
            diff = [k for k in m_obs if m_obs[k] != i_obs.get(k)]
            if m_outs != outs:
                first = next((i for i, (a, b) in enumerate(zip(m_outs, outs)) if a != b), min(len(m_outs), len(outs)))
                diff.append(f'frames emitted at event {first}: {events[first] if first < len(events) else None}')
            ctx.disagree(f'ChannelManager (manager {mi} of {case.topo}): ' + ', '.join(diff),
                         {'case': case.replay_obj(), 'manager': mi, 'events': events},
                         {'outs': m_outs, **{k: m_obs[k] for k in m_obs if m_obs[k] != i_obs.get(k)}},
                         {'outs': outs, **{k: i_obs[k] for k in m_obs if m_obs[k] != i_obs.get(k)}})
    for ci, case in enumerate(cases):
        nev = sum(len(r[1]) for r in case.mgr_results)
        closes = sum(1 for o in case.ops if o[0] in ('close', 'down', 'abort'))
        opens = sum(1 for o in case.ops if o[0] == 'open')
        ctx.case((case.topo, case.ltypes, case.ops), opens >= 1 and closes >= 1,
                 {'topology': case.topo, 'links': case.ltypes, 'ops': case.ops[:12]} if ci % 97 == 3 else None)
        ctx.count('histories.' + case.topo)
        ctx.count('histories.audited' if case.audited else 'histories.not_audited')
        ctx.count('events', nev)
        for o in case.ops:
            ctx.count('op.' + o[0])
            if o[0] == 'open':
                ctx.count('open.' + ['le', 'enhanced', 'classic'][o[3]])
            if o[0] == 'inject':
                ctx.count('inject.' + o[3][0])
        for cfg, events, outs, obs, escaped in case.mgr_results:
            for e in escaped:
                ctx.count('handler_exception.' + e[1])
        seen = set()
        for check, what in case.violations:
            if check in seen:
                continue
            seen.add(check)
            ctx.violation(_sig(check), f'{case.tag}: {what}', case.replay_obj())
    return extra_results


def alloc_gen(ctx):
    """direct tie of the CID allocators: inputs for the real static/class methods and the model"""
    from bumble import l2cap
    rng = ctx.rng
    cases = []
    lo, hi = l2cap.L2CAP_LE_U_DYNAMIC_CID_RANGE_START, l2cap.L2CAP_LE_U_DYNAMIC_CID_RANGE_END
    full = list(range(lo, hi + 1))
    for _ in range(ctx.n(150, 1500)):
        r = rng.below(6)
        if r == 0:
            used = rng.shuffle(full)[:rng.range(hi - lo - 3, hi - lo + 1)]
        elif r == 1:
            used = full[:rng.range(0, len(full))]
        else:
            used = rng.shuffle(list(range(lo - 2, lo + 12)))[:rng.below(12)]
        cases.append((used, rng.choice([0, 1, 1, 2, 3, 5, 64, 65])))
    exprs = [f'(find_free_le_n {_cv(u)} {c}%nat, find_free_le {_cv(u)}, find_free_bredr {_cv(u)})' for u, c in cases]
    return cases, exprs


def alloc_check(ctx, cases, res):
    from bumble import l2cap
    lo, hi = l2cap.L2CAP_LE_U_DYNAMIC_CID_RANGE_START, l2cap.L2CAP_LE_U_DYNAMIC_CID_RANGE_END
    full = list(range(lo, hi + 1))
    for (used, count), (mn, m1, mb) in zip(cases, res):
        impl_n = l2cap.ChannelManager.find_free_le_cids(used, count)
        impl_1 = l2cap.ChannelManager.find_free_le_cid(used)
        try:
            impl_b = l2cap.ChannelManager.find_free_br_edr_cid(used)
        except Exception:
            impl_b = None
        m1 = m1[1] if isinstance(m1, tuple) else None
        mb = mb[1] if isinstance(mb, tuple) else None
        ctx.case(('alloc', used, count), len(used) > 0, None)
        ctx.count('allocator.cases')
        if [list(mn), m1, mb] != [list(impl_n), impl_1, impl_b]:
            ctx.disagree('CID allocators', {'used': used, 'count': count}, [list(mn), m1, mb], [impl_n, impl_1, impl_b])
        free = [c for c in full if c not in used]
        want = free[:count] if 0 < count <= len(free) else []
        if list(impl_n) != want:
            ctx.violation('allocator:le', f'find_free_le_cids({used}, {count}) = {impl_n}, the smallest free CIDs are {want}',
                          {'kind': 'alloc', 'used': used, 'count': count})


def gen_campaign(ctx, n):
    rng = ctx.rng
    cases = []
    for i in range(n):
        topo = rng.choice(['pair', 'pair', 'pair', 'star', 'star', 'foreign', 'foreign'])
        nl = len(TOPOLOGIES[topo][1])
        ltypes = [rng.choice(['le', 'le', 'cl']) for _ in range(nl)]
        length = rng.choice([4, 8, 8, 16, 16, 30])
        kw = dict(allow_abort=rng.chance(1, 3), down_weight=rng.choice([4, 8, 11]))
        cases.append(run_generated(rng, topo, ltypes, length, f'random history #{i}', **kw))
    return cases


def run(ctx):
    ctx.rule = ('histories of open (LE credit-based / enhanced x1-5 / classic, served and unserved PSMs, matching '
                'and mismatching modes), close, abort (any state), cancellation of an awaiting task, write, credit '
                'grant, single-frame delivery, flush and link '
                'loss over three topologies of REAL ChannelManagers on a host shim: pair (one link), star (one '
                'central, two peripherals), foreign (the harness plays the peer and sends arbitrary signalling '
                'frames); every history that stays cooperative ends with an audit (reopen every kind in both '
                'directions, close everything, tables must be empty). Each manager\'s event sequence is replayed '
                'in the Coq model and frames, tables, channel objects and waiter outcomes are compared. '
                'A history is non-trivial when it opens and closes/aborts/cuts at least once; distinct by content. '
                'Plus direct allocator cases (real find_free_* vs model).')
    ctx.assumptions += [
        'one event = the synchronous handler plus the coroutine continuations it wakes; deliveries without a run '
        'of the event loop before the next event are generated too, except behind refused opens (unregistered '
        'only when the coroutine resumes) and a cancellation in the same loop iteration as the response it races '
        'with (such managers are checked by the oracle only)',
        'the peer follows ev_ok (Model/ChanMgr.v): fresh CIDs in successful responses, distinct CIDs in an '
        'enhanced request, no disconnection request carrying the null destination CID of a not yet answered LE '
        'channel, no FCS-on suggestion in a configure response, classic and LE channels do not share a connection',
        'timers do not exist on the modelled paths',
    ]
    ctx.trusted += ['Model/ChanMgr.v is a hand-written reading of bumble/l2cap.py (ChannelManager and the '
                    'connection/disconnection paths of the channel classes), tied to the code by differential '
                    'execution, by the regenerated Gen/C09Tables.v (CID ranges, per-connection tables, cleanup) and '
                    'by the regenerated effect skeleton Gen/C09Skeleton.v of the 40 functions it reads '
                    '(C09_skeleton_matches_source pins their shape, not their meaning)',
                    'the host shim of tools/harness/c09.py (ShimHost/ShimConnection) stands for bumble.host.Host and '
                    'bumble.device.Connection; the order of the two disconnection callbacks is the one of Device']
    cases = []
    builtin = {t[0] for t in CORPUS}
    for tag, topo, ltypes, ops in CORPUS + [t for t in _load_corpus() if t[0] not in builtin]:
        cases.append(run_fixed(topo, ltypes, ops, 'corpus ' + tag, with_audit=True))
    ctx.log(f'corpus: {len(cases)} histories run on the implementation')
    for tag, topo, ltypes, ops in long_histories(not ctx.quick()):
        cases.append(run_fixed(topo, ltypes, ops, tag, with_audit=True))
    ctx.log(f'long single-link histories (identifier wrap-around) done: {len(cases)} histories')
    cases += gen_campaign(ctx, ctx.n(260, 9000))
    ctx.log(f'random campaign done: {len(cases)} histories')
    if not ctx.quick():
        cases += exhaustive_cases(ctx)
        ctx.log(f'exhaustive short histories done: {len(cases)} histories')
    acases, aexprs = alloc_gen(ctx)
    ares = evaluate_cases(ctx, cases, aexprs)
    alloc_check(ctx, acases, ares)
    ctx.log('model evaluated and compared (histories and allocator cases)')


def long_histories(thorough):
    """Long histories on ONE link: open/close cycles that take the per-connection signalling identifier
    through its wrap-around (one byte, 0 excluded) at least once on the initiating side, with the 256th
    identifier landing on an open, on a close and on a credit / configuration frame (the three prefixes
    shift the phase of the 3-identifiers-per-cycle pattern).  The oracle runs after every step, so every
    cycle is checked: the open succeeds, disconnect() returns, the tables are empty again."""
    out = []

    def le(prefix, cycles, enh_every=0):
        ops, uid = [], 0
        for i in range(cycles):
            if enh_every and i % enh_every == enh_every - 1:
                ops += [['open', 0, 1, KIND_ENH, 0x80, 2, 0], ['flush'], ['close', 0, uid], ['close', 1, uid + 1], ['flush']]
                uid += 2
                continue
            ops += [['open', 0, 1, KIND_LE, 0x80, 1, 0], ['flush']]
            ops += [['grant', 0, uid, 1]] * (1 + (prefix if i == 0 else 0))
            ops += [['close', 0 if i % 5 else 1, uid], ['flush']]     # every fifth channel is closed by the acceptor
            uid += 1
        return ops

    def cl(prefix, cycles):
        ops, uid = [], 0
        for _ in range(prefix):       # a refused open costs the initiator one identifier
            ops += [['open', 0, 1, KIND_CL, 0x1005, 1, 0], ['flush']]
            uid += 1
        for i in range(cycles):
            ops += [['open', 0, 1, KIND_CL, 0x1001, 1, 0], ['flush'], ['close', 0, uid], ['flush']]
            uid += 1
        return ops

    def wrap_kind(ops):
        """which operation of manager 0 draws its 256th identifier"""
        n = 0
        for op in ops:
            if op[0] not in ('open', 'grant', 'close') or op[1] != 0:
                continue
            kinds = ['open', 'config'] if (op[0] == 'open' and op[3] == KIND_CL and op[4] == 0x1001) else \
                [{'grant': 'credit'}.get(op[0], op[0])]
            for kd in kinds:
                n += 1
                if n == 256:
                    return kd
        return None

    for fam, build, cycles, want in (('le', le, 115, ('open', 'close', 'credit')), ('cl', cl, 90, ('open', 'close', 'config'))):
        for kd in want:         # one history per kind of operation the wrap lands on
            prefix = next(p for p in range(12) if wrap_kind(build(p, cycles)) == kd)
            out.append((f'long-{fam}-wrap-on-{kd}', 'pair', [fam], build(prefix, cycles)))
    if thorough:
        out.append(('long-le-twice', 'pair', ['le'], le(1, 230)))                # two wraps
        out.append(('long-le-enh', 'pair', ['le'], le(0, 130, enh_every=4)))     # LE and enhanced opens mixed
        out.append(('long-cl-twice', 'pair', ['cl'], cl(0, 180)))
    return out


def exhaustive_cases(ctx):
    """every history of a given length over a small alphabet (thorough tier): all interleavings of
    open / deliver / close / abort / link loss on one link, for LE and for classic channels, and all
    short histories with concurrent opens on the two links of a star"""
    cases = []
    le = [['open', 0, 1, KIND_LE, 0x80, 1, 0], ['open', 1, 5, KIND_LE, 0x80, 1, 0], ['deliver', 0, 0], ['deliver', 0, 1],
          ['close', 0, 0], ['close', 1, 0], ['down', 0], ['write', 0, 0, 4], ['open', 0, 1, KIND_ENH, 0x80, 2, 0]]
    cl = [['open', 0, 1, KIND_CL, 0x1001, 1, 0], ['open', 1, 5, KIND_CL, 0x1003, 1, 0], ['deliver', 0, 0], ['deliver', 0, 1],
          ['flush'], ['close', 0, 0], ['close', 1, 0], ['down', 0], ['abort', 0, 0]]
    for alphabet, lt, depth in ((le, 'le', 4), (cl, 'cl', 4)):
        for d in range(2, depth + 1):
            for seq in itertools.product(alphabet, repeat=d):
                if seq[0][0] != 'open':
                    continue
                cases.append(run_fixed('pair', [lt], [list(o) for o in seq], f'exhaustive {lt} depth {d}', with_audit=True))
    star = [['open', 0, 1, KIND_LE, 0x80, 1, 0], ['open', 0, 2, KIND_LE, 0x80, 1, 0], ['deliver', 0, 0], ['deliver', 0, 1],
            ['deliver', 1, 0], ['deliver', 1, 1], ['close', 0, 0], ['down', 0], ['down', 1]]
    for d in range(2, 5):
        for seq in itertools.product(star, repeat=d):
            if seq[0][0] != 'open':
                continue
            cases.append(run_fixed('star', ['le', 'le'], [list(o) for o in seq], f'exhaustive star depth {d}', with_audit=True))
    ctx.extra['exhaustive'] = {'le_pair_depth': 4, 'classic_pair_depth': 4, 'star_depth': 4, 'histories': len(cases)}
    return cases


def search(ctx):
    cases = [run_fixed(topo, ltypes, ops, tag, with_audit=True) for tag, topo, ltypes, ops in long_histories(False)]
    cases += gen_campaign(ctx, 600)
    for case in cases:
        seen = set()
        for check, what in case.violations:
            if check not in seen:
                seen.add(check)
                ctx.violation(_sig(check), f'{case.tag}: {what}', case.replay_obj())


def replay(ctx, obj):
    if 'replay' not in obj:
        # a "no-failing-input-found" file: re-run the disagreeing histories on implementation and model
        cases = []
        for d in obj.get('disagreements', []):
            c = (d.get('case') or {}).get('case')
            if c:
                cases.append(run_fixed(c['topo'], c['ltypes'], c['ops'], 'replay', with_audit=c.get('audit', False)))
        evaluate_cases(ctx, cases)
        print(f'{len(cases)} histories replayed: {len(ctx.disagreements)} model/implementation disagreements, '
              f'{len(ctx.violations)} oracle violations')
        for d in ctx.disagreements[:3]:
            print('disagreement:', d['what'])
        for pf in obj.get('proof_failures', []):
            print('recorded proof failure:', pf[:300])
        return 0
    r = obj['replay']
    if r.get('kind') == 'alloc':
        from bumble import l2cap
        print('find_free_le_cids:', l2cap.ChannelManager.find_free_le_cids(r['used'], r['count']))
        return 0
    case = run_fixed(r['topo'], r['ltypes'], r['ops'], 'replay', with_audit=r.get('audit', False))
    for mi, (cfg, events, outs, obs, escaped) in enumerate(case.mgr_results):
        print(f'manager {mi}: events={events}')
        print(f'           tables={ {k: obs[k] for k in ("channels", "le", "reqs", "pend")} } waiters={obs["waiters"]}')
    if case.violations:
        for check, what in case.violations:
            print('oracle FAILS:', check, '-', what)
    else:
        print('oracle: holds')
    return 0
