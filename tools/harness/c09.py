"""C09 - L2CAP ChannelManager tables / identifiers / waiters.

Correspondence between the Coq model (Model/ChanMgr.v) and REAL bumble.l2cap.ChannelManager
objects (with their real LeCreditBasedChannel / ClassicChannel objects) joined by an in-memory
host shim, plus the property oracle on implementation observables.

World: N real managers; links (mgr_i, handle_i) <-> (mgr_j, handle_j) with one FIFO queue per
direction (the harness decides when each frame is delivered = the schedule); a link can be cut at
any step (both ends get the 'disconnection' events, frames in flight are lost, and the same handles
are immediately reused by a new connection).  A "foreign" link has the harness as the peer, which
then sends arbitrary signalling frames.  Every manager sees a sequence of EVENTS (API call, frame
received, link down); the same event sequence is given to the model, and the frames emitted, the
tables, the channel objects and the outcome of every awaited call are compared.
"""
import asyncio
import itertools
import json
import logging
import os

from lib.verif import coq_list, coq_z

PROP_FILES = ['Props/C09.v']
LEVEL = 'proof'

logging.disable(logging.CRITICAL)

# ----------------------------------------------------------------------------- constants of the scenarios
MPS = 64            # every LE spec in the scenarios uses this MPS (writes are whole frames)
MTU = 2048
SERVER_CREDITS = 2  # credits a server grants (small, so that writes stall)
CLIENT_CREDITS = 3  # credits a client grants
LE_PSMS = [0x80, 0x81]          # 0x81 is served only by some managers
CL_PSMS = [0x1001, 0x1003]
KIND_LE, KIND_ENH, KIND_CL = 0, 1, 2
SETTLE = 10         # event-loop rounds after every event (deterministic "run to idle")

_registry_installed = False


def _install_registry():
    """Record every channel object in creation order on its manager (uid = index).
    Wraps the constructors in this process only."""
    global _registry_installed
    if _registry_installed:
        return
    from bumble import l2cap
    for cls in (l2cap.LeCreditBasedChannel, l2cap.ClassicChannel):
        orig = cls.__init__

        def wrapped(self, *a, __orig=orig, **kw):
            __orig(self, *a, **kw)
            reg = getattr(self.manager, '_verif_registry', None)
            if reg is not None:
                reg.append(self)
        cls.__init__ = wrapped
    _registry_installed = True


def _shim_classes():
    from bumble import utils

    class ShimConnection(utils.EventEmitter):
        EVENT_DISCONNECTION = 'disconnection'

        def __init__(self, handle):
            super().__init__()
            self.handle = handle
            self.peer_address = 'shim'

        def cancel_on_disconnection(self, awaitable):
            # same as bumble.device.Connection.cancel_on_disconnection
            return utils.cancel_on_event(self, self.EVENT_DISCONNECTION, awaitable)

    class ShimHost(utils.EventEmitter):
        def __init__(self, sink):
            super().__init__()
            self.sink = sink

        def send_l2cap_pdu(self, connection_handle, cid, pdu):
            self.sink(connection_handle, cid, bytes(pdu))

        def send_acl_sdu(self, connection_handle, sdu):
            from bumble.l2cap import L2CAP_PDU
            p = L2CAP_PDU.from_bytes(sdu)
            self.sink(connection_handle, p.cid, bytes(p.payload))

    return ShimConnection, ShimHost


# ----------------------------------------------------------------------------- frames: abstract <-> bytes
def frame_to_abs(cid, pdu):
    """bytes on a CID -> abstract frame (a list; JSON-able)"""
    from bumble import l2cap
    if cid not in (l2cap.L2CAP_SIGNALING_CID, l2cap.L2CAP_LE_SIGNALING_CID):
        return ['Data', cid]
    f = l2cap.L2CAP_Control_Frame.from_bytes(pdu)
    n = type(f).__name__
    if n == 'L2CAP_Connection_Request':
        return ['ConnReq', f.identifier, f.psm, f.source_cid]
    if n == 'L2CAP_Connection_Response':
        return ['ConnRsp', f.identifier, f.destination_cid, f.source_cid, int(f.result)]
    if n == 'L2CAP_Configure_Request':
        rfc = -1
        bad = False
        for t, v in l2cap.L2CAP_Control_Frame.decode_configuration_options(f.options):
            if t == l2cap.L2CAP_Configure_Request.ParameterType.MTU:
                pass
            elif t == l2cap.L2CAP_Configure_Request.ParameterType.RETRANSMISSION_AND_FLOW_CONTROL:
                rfc = v[0]
            else:
                bad = True
        return ['ConfReq', f.identifier, f.destination_cid, rfc, bad]
    if n == 'L2CAP_Configure_Response':
        return ['ConfRsp', f.identifier, f.source_cid, int(f.result)]
    if n == 'L2CAP_Disconnection_Request':
        return ['DiscReq', f.identifier, f.destination_cid, f.source_cid]
    if n == 'L2CAP_Disconnection_Response':
        return ['DiscRsp', f.identifier, f.destination_cid, f.source_cid]
    if n == 'L2CAP_LE_Credit_Based_Connection_Request':
        return ['LeReq', f.identifier, f.le_psm, f.source_cid, f.initial_credits]
    if n == 'L2CAP_LE_Credit_Based_Connection_Response':
        return ['LeRsp', f.identifier, f.destination_cid, f.initial_credits, int(f.result)]
    if n == 'L2CAP_Credit_Based_Connection_Request':
        return ['EnhReq', f.identifier, f.spsm, f.initial_credits, list(f.source_cid)]
    if n == 'L2CAP_Credit_Based_Connection_Response':
        return ['EnhRsp', f.identifier, f.initial_credits, int(f.result), list(f.destination_cid)]
    if n == 'L2CAP_LE_Flow_Control_Credit':
        return ['Credit', f.identifier, f.cid, f.credits]
    if n == 'L2CAP_Command_Reject':
        return ['Reject', f.identifier]
    return ['Other', f.identifier, int(f.code)]


def abs_to_frame(a):
    """abstract frame -> (signalling cid, bytes), built with the real frame classes"""
    import struct
    from bumble import l2cap
    k = a[0]
    S, LS = l2cap.L2CAP_SIGNALING_CID, l2cap.L2CAP_LE_SIGNALING_CID
    if k == 'ConnReq':
        return S, bytes(l2cap.L2CAP_Connection_Request(identifier=a[1], psm=a[2], source_cid=a[3]))
    if k == 'ConnRsp':
        return S, bytes(l2cap.L2CAP_Connection_Response(identifier=a[1], destination_cid=a[2], source_cid=a[3],
                                                        result=a[4], status=0))
    if k == 'ConfReq':
        PT = l2cap.L2CAP_Configure_Request.ParameterType
        opts = [(PT.MTU, struct.pack('<H', 672))]
        if a[3] >= 0:
            opts.append((PT.RETRANSMISSION_AND_FLOW_CONTROL, struct.pack('<BBBHHH', a[3], 10, 3, 2000, 12000, 256)))
        if a[4]:
            opts.append((PT.FLUSH_TIMEOUT, struct.pack('<H', 0xFFFF)))
        return S, bytes(l2cap.L2CAP_Configure_Request(
            identifier=a[1], destination_cid=a[2], flags=0,
            options=l2cap.L2CAP_Control_Frame.encode_configuration_options(opts)))
    if k == 'ConfRsp':
        return S, bytes(l2cap.L2CAP_Configure_Response(identifier=a[1], source_cid=a[2], flags=0, result=a[3],
                                                       options=b''))
    if k == 'DiscReq':
        return S, bytes(l2cap.L2CAP_Disconnection_Request(identifier=a[1], destination_cid=a[2], source_cid=a[3]))
    if k == 'DiscRsp':
        return S, bytes(l2cap.L2CAP_Disconnection_Response(identifier=a[1], destination_cid=a[2], source_cid=a[3]))
    if k == 'LeReq':
        return LS, bytes(l2cap.L2CAP_LE_Credit_Based_Connection_Request(
            identifier=a[1], le_psm=a[2], source_cid=a[3], mtu=MTU, mps=MPS, initial_credits=a[4]))
    if k == 'LeRsp':
        return LS, bytes(l2cap.L2CAP_LE_Credit_Based_Connection_Response(
            identifier=a[1], destination_cid=a[2], mtu=MTU, mps=MPS, initial_credits=a[3], result=a[4]))
    if k == 'EnhReq':
        return LS, bytes(l2cap.L2CAP_Credit_Based_Connection_Request(
            identifier=a[1], spsm=a[2], mtu=MTU, mps=MPS, initial_credits=a[3], source_cid=list(a[4])))
    if k == 'EnhRsp':
        return LS, bytes(l2cap.L2CAP_Credit_Based_Connection_Response(
            identifier=a[1], mtu=MTU, mps=MPS, initial_credits=a[2],
            result=l2cap.L2CAP_Credit_Based_Connection_Response.Result(a[3]), destination_cid=list(a[4])))
    if k == 'Credit':
        return LS, bytes(l2cap.L2CAP_LE_Flow_Control_Credit(identifier=a[1], cid=a[2], credits=a[3]))
    if k == 'Reject':
        return LS, bytes(l2cap.L2CAP_Command_Reject(identifier=a[1], reason=0, data=b''))
    raise ValueError(a)


# ----------------------------------------------------------------------------- one real manager + shim
OUTCOME_PENDING, OUTCOME_RESULT, OUTCOME_ERROR, OUTCOME_CANCELLED = 0, 1, 2, 3


def _outcome(task):
    if not task.done():
        return OUTCOME_PENDING
    if task.cancelled():
        return OUTCOME_CANCELLED
    return OUTCOME_ERROR if task.exception() is not None else OUTCOME_RESULT


class Mgr:
    """A real ChannelManager on a shim host.  cfg: {'le': [psm...], 'cl': [[psm, mode]...]} servers."""

    def __init__(self, index, cfg):
        from bumble import l2cap
        _install_registry()
        ShimConnection, ShimHost = _shim_classes()
        self.ShimConnection = ShimConnection
        self.index = index
        self.cfg = cfg
        self.emitted = []            # frames emitted during the current event: (handle, cid, bytes)
        self.host = ShimHost(lambda h, cid, pdu: self.emitted.append((h, cid, pdu)))
        self.mgr = l2cap.ChannelManager()
        self.mgr._verif_registry = []
        self.mgr.host = self.host
        self.conns = {}
        self.events = []             # abstract events, in order
        self.outs = []               # abstract frames emitted, one list per event
        self.tasks = {}              # wid -> task
        self.escaped = []            # exceptions that escaped on_pdu (event index, type name)
        for psm in cfg.get('le', []):
            self.mgr.create_le_credit_based_server(
                l2cap.LeCreditBasedChannelSpec(psm=psm, mtu=MTU, mps=MPS, max_credits=SERVER_CREDITS))
        for psm, mode in cfg.get('cl', []):
            self.mgr.create_classic_server(
                l2cap.ClassicChannelSpec(psm=psm, mode=l2cap.TransmissionMode(mode)))

    def conn(self, h):
        if h not in self.conns:
            self.conns[h] = self.ShimConnection(h)
        return self.conns[h]

    @property
    def chans(self):
        return self.mgr._verif_registry

    # ---- events (each is followed by World.settle)
    def ev_open(self, w, h, kind, psm, n, mode):
        from bumble import l2cap
        m = self.mgr
        if kind == KIND_LE:
            co = m.create_le_credit_based_channel(
                self.conn(h), l2cap.LeCreditBasedChannelSpec(psm=psm, mtu=MTU, mps=MPS, max_credits=CLIENT_CREDITS))
        elif kind == KIND_ENH:
            co = m.create_enhanced_credit_based_channels(
                self.conn(h), l2cap.LeCreditBasedChannelSpec(psm=psm, mtu=MTU, mps=MPS, max_credits=CLIENT_CREDITS), n)
        else:
            co = m.create_classic_channel(
                self.conn(h), l2cap.ClassicChannelSpec(psm=psm, mode=l2cap.TransmissionMode(mode)))
        self.tasks[w] = asyncio.ensure_future(co)
        self.events.append(['Open', w, h, kind, psm, n, mode])

    def ev_close(self, w, uid):
        self.tasks[w] = asyncio.ensure_future(self.chans[uid].disconnect())
        self.events.append(['Close', w, uid])

    def ev_abort(self, uid):
        self.chans[uid].abort()
        self.events.append(['Abort', uid])

    def ev_cancel(self, w):
        self.tasks[w].cancel()
        self.events.append(['Cancel', w])

    def ev_write(self, uid, k):
        self.chans[uid].write(bytes(k * MPS - 2))
        self.events.append(['Write', uid, k])

    def ev_grant(self, uid, credits):
        from bumble import l2cap
        c = self.chans[uid]
        c.send_control_frame(l2cap.L2CAP_LE_Flow_Control_Credit(
            identifier=self.mgr.next_identifier(c.connection), cid=c.source_cid, credits=credits))
        self.events.append(['Grant', uid, credits])

    def ev_recv(self, h, cid, pdu):
        a = frame_to_abs(cid, pdu)
        if a[0] == 'Data':
            # data frames never change tables/waiters (the scenario channels have no sink)
            try:
                self.mgr.on_pdu(self.conn(h), cid, pdu)
            except Exception as e:      # pragma: no cover
                self.escaped.append([len(self.events), type(e).__name__])
            return False
        self.events.append(['Recv', h, a])
        try:
            self.mgr.on_pdu(self.conn(h), cid, pdu)
        except Exception as e:
            self.escaped.append([len(self.events) - 1, type(e).__name__])
        return True

    def ev_down(self, h):
        c = self.conn(h)
        # order of bumble.device.Device: the device handler (registered first on the host) emits the
        # connection's 'disconnection' event, then ChannelManager.on_disconnection runs
        c.emit('disconnection', 0x13)
        self.host.emit('disconnection', h, 0x13)
        del self.conns[h]
        self.events.append(['Down', h])

    def take_emitted(self):
        e, self.emitted = self.emitted, []
        return e

    # ---- observables
    def obs(self):
        from bumble import l2cap
        m = self.mgr
        uid_of = {id(c): i for i, c in enumerate(self.chans)}
        channels = sorted([h, cid, uid_of.get(id(c), -1)] for h, d in m.channels.items() for cid, c in d.items())
        le = sorted([h, cid, uid_of.get(id(c), -1)] for h, d in m.le_coc_channels.items() for cid, c in d.items())
        reqs = []
        for k, v in m.le_coc_requests.items():
            if isinstance(v, dict):
                reqs += [[k, ident, r.source_cid] for ident, r in v.items()]
            else:
                reqs.append([-1, k, v.source_cid])     # unfixed tree: keyed by identifier only
        pend = sorted([h, ident, [uid_of.get(id(c), -1) for c in cs]]
                      for h, d in m.pending_credit_based_connections.items() for ident, (_, cs) in d.items())
        ids = sorted([h, v] for h, v in m.identifiers.items())
        chans = []
        for c in self.chans:
            if isinstance(c, l2cap.ClassicChannel):
                chans.append([KIND_CL, c.connection.handle, c.source_cid, c.destination_cid, 100 + int(c.state),
                              0, True])
            else:
                chans.append([KIND_LE, c.connection.handle, c.source_cid, c.destination_cid, int(c.state),
                              c.credits, c.drained.is_set()])
        waiters = sorted([w, _outcome(t)] for w, t in self.tasks.items())
        return {'channels': channels, 'le': le, 'reqs': sorted(reqs), 'pend': pend, 'ids': ids,
                'chans': chans, 'waiters': waiters}


# ----------------------------------------------------------------------------- the world
class World:
    """links: [[mi, hi, mj, hj], ...]; mj == -1: the harness is the peer (foreign link)."""

    def __init__(self, cfgs, links):
        self.mgrs = [Mgr(i, c) for i, c in enumerate(cfgs)]
        self.links = links
        self.queues = {(l, d): [] for l in range(len(links)) for d in (0, 1)}
        self.route = {}
        for l, (mi, hi, mj, hj) in enumerate(links):
            self.route[(mi, hi)] = (l, 0)
            if mj >= 0:
                self.route[(mj, hj)] = (l, 1)
        self.nw = [0] * len(cfgs)       # waiter ids per manager
        self.epoch = {}                 # (m, h) -> number of link cuts so far
        self.task_info = {}             # (m, w) -> ['open'|'close', h, epoch, uid or None]
        self.steps = 0
        self.violations = []            # (check, description)
        self.skipped = 0
        # False once a peer stops following the protocol (unilateral abort, cancelled call, foreign
        # frames): the peer may then reuse a CID it still has open here, and the table filed by the
        # peer's CIDs can only hold one of the two channels
        self.cooperative = True

    async def settle(self):
        for _ in range(SETTLE):
            await asyncio.sleep(0)

    def collect(self, m):
        """route what manager m emitted during the event just executed"""
        M = self.mgrs[m]
        out = []
        for h, cid, pdu in M.take_emitted():
            out.append(frame_to_abs(cid, pdu))
            r = self.route.get((m, h))
            if r is not None:
                l, d = r
                if self.links[l][2] >= 0:
                    self.queues[(l, d)].append((cid, pdu))
        M.outs.append(out)

    async def after_event(self, m):
        await self.settle()
        self.collect(m)

    def end(self, l, d):
        """receiving end of queue (l, d)"""
        mi, hi, mj, hj = self.links[l]
        return (mj, hj) if d == 0 else (mi, hi)

    async def deliver(self, l, d):
        q = self.queues[(l, d)]
        if not q:
            return False
        cid, pdu = q.pop(0)
        m, h = self.end(l, d)
        if self.mgrs[m].ev_recv(h, cid, pdu):
            await self.after_event(m)
        else:
            await self.settle()
            for h2, cid2, pdu2 in self.mgrs[m].take_emitted():     # pragma: no cover (no sink: nothing)
                pass
        return True

    async def flush(self, budget=400):
        while budget > 0:
            busy = False
            for key in sorted(self.queues):
                if self.queues[key]:
                    busy = True
                    await self.deliver(*key)
                    budget -= 1
            if not busy:
                return True
        return False       # still frames in flight after the budget: reported by the caller

    async def apply(self, op):
        """apply one world-level op; ops that do not make sense in the current state are skipped"""
        k = op[0]
        self.steps += 1
        if k in ('abort', 'cancel', 'inject'):
            self.cooperative = False
        if k == 'open':
            _, m, h, kind, psm, n, mode = op
            w = self.nw[m]
            self.nw[m] += 1
            self.task_info[(m, w)] = ['open', h, self.epoch.get((m, h), 0), None]
            self.mgrs[m].ev_open(w, h, kind, psm, n, mode)
            await self.after_event(m)
        elif k in ('close', 'abort', 'write', 'grant'):
            m, uid = op[1], op[2]
            M = self.mgrs[m]
            if uid >= len(M.chans):
                self.skipped += 1
                return
            c = M.chans[uid]
            if k in ('write', 'grant') and not hasattr(c, 'drained'):
                self.skipped += 1
                return
            if k == 'close':
                w = self.nw[m]
                self.nw[m] += 1
                h = c.connection.handle
                self.task_info[(m, w)] = ['close', h, self.epoch.get((m, h), 0), uid]
                M.ev_close(w, uid)
            elif k == 'abort':
                M.ev_abort(uid)
            elif k == 'write':
                M.ev_write(uid, op[3])
            else:
                if M.conns.get(c.connection.handle) is not c.connection:
                    self.skipped += 1       # a dead connection object cannot send
                    return
                M.ev_grant(uid, op[3])
            await self.after_event(m)
        elif k == 'cancel':
            m, w = op[1], op[2]
            if w not in self.mgrs[m].tasks:
                self.skipped += 1
                return
            self.mgrs[m].ev_cancel(w)
            await self.after_event(m)
        elif k == 'deliver':
            if not await self.deliver(op[1], op[2]):
                self.skipped += 1
        elif k == 'flush':
            if not await self.flush():
                self.violations.append(('livelock', 'frames still in flight after 400 deliveries'))
        elif k == 'down':
            l = op[1]
            mi, hi, mj, hj = self.links[l]
            self.queues[(l, 0)].clear()
            self.queues[(l, 1)].clear()
            for m, h in ((mi, hi), (mj, hj)):
                if m >= 0:
                    self.epoch[(m, h)] = self.epoch.get((m, h), 0) + 1
                    self.mgrs[m].ev_down(h)
                    await self.after_event(m)
            self.queues[(l, 0)].clear()
            self.queues[(l, 1)].clear()
        elif k == 'inject':
            _, m, h, a = op
            cid, pdu = abs_to_frame(a)
            if self.mgrs[m].ev_recv(h, cid, pdu):
                await self.after_event(m)
        else:
            raise ValueError(op)

    # ---- property oracle on implementation observables only
    def check(self, opname):
        from bumble import l2cap
        LS = l2cap.LeCreditBasedChannel.State
        CS = l2cap.ClassicChannel.State
        bad = []
        for mi, M in enumerate(self.mgrs):
            m = M.mgr
            uid_of = {id(c): i for i, c in enumerate(M.chans)}

            def name(c):
                return f'mgr{mi}.chan{uid_of.get(id(c), "?")}'

            def current(c):
                return M.conns.get(c.connection.handle) is c.connection

            def closed(c):
                if isinstance(c, l2cap.ClassicChannel):
                    return c.state == CS.CLOSED
                return c.state in (LS.DISCONNECTED, LS.CONNECTION_ERROR)

            def le_open(c):
                return (not isinstance(c, l2cap.ClassicChannel)) and c.state in (LS.CONNECTED, LS.DISCONNECTING)

            seen = set()
            for h, d in m.channels.items():
                for cid, c in d.items():
                    if not current(c):
                        bad.append(('stale-channels-deadlink', f'{name(c)} of a dead link is in channels[{h}][{cid}]'))
                    elif closed(c):
                        bad.append(('stale-channels', f'{name(c)} is closed ({c.state.name}) but still in channels[{h}][{cid}]'))
                    elif c.source_cid != cid or c.connection.handle != h:
                        bad.append(('misfiled-channels', f'{name(c)} filed under channels[{h}][{cid}]'))
                    if id(c) in seen:
                        bad.append(('dup-channels', f'{name(c)} appears twice in channels'))
                    seen.add(id(c))
            seen = set()
            for h, d in m.le_coc_channels.items():
                for cid, c in d.items():
                    if not current(c):
                        bad.append(('stale-le_coc-deadlink', f'{name(c)} of a dead link is in le_coc_channels[{h}][{cid}]'))
                    elif not le_open(c):
                        bad.append(('stale-le_coc', f'{name(c)} is {c.state.name} but still in le_coc_channels[{h}][{cid}]'))
                    elif c.destination_cid != cid or c.connection.handle != h:
                        bad.append(('misfiled-le_coc', f'{name(c)} (destination cid {c.destination_cid}) filed under le_coc_channels[{h}][{cid}]'))
                    elif m.channels.get(h, {}).get(c.source_cid) is not c:
                        bad.append(('le_coc-not-in-channels', f'{name(c)} in le_coc_channels but not in channels'))
                    if id(c) in seen:
                        bad.append(('dup-le_coc', f'{name(c)} appears twice in le_coc_channels'))
                    seen.add(id(c))
            # nothing missing; identifiers of open channels unique per connection
            scids, dcids = {}, {}
            for c in M.chans:
                if not current(c):
                    if not isinstance(c, l2cap.ClassicChannel) and not c.drained.is_set():
                        bad.append(('drain-stuck-deadlink', f'{name(c)}: link gone, drain() would wait forever'))
                    continue
                h = c.connection.handle
                if le_open(c):
                    if m.channels.get(h, {}).get(c.source_cid) is not c:
                        bad.append(('missing-channels', f'{name(c)} is {c.state.name} but not in channels[{h}][{c.source_cid}]'))
                    if self.cooperative and c not in m.le_coc_channels.get(h, {}).values():
                        bad.append(('missing-le_coc', f'{name(c)} is {c.state.name} but not in le_coc_channels[{h}]'))
                if isinstance(c, l2cap.ClassicChannel) and c.state == CS.OPEN:
                    if m.channels.get(h, {}).get(c.source_cid) is not c:
                        bad.append(('missing-channels', f'{name(c)} is OPEN but not in channels[{h}][{c.source_cid}]'))
                if not closed(c) and m.channels.get(h, {}).get(c.source_cid) is c:
                    if (h, c.source_cid) in scids:
                        bad.append(('dup-scid', f'{name(c)} and {scids[(h, c.source_cid)]} share source cid'))
                    scids[(h, c.source_cid)] = name(c)
                if not isinstance(c, l2cap.ClassicChannel) and c.state == LS.DISCONNECTED and not c.drained.is_set():
                    bad.append(('drain-stuck-closed', f'{name(c)} is DISCONNECTED, drain() would wait forever'))
            # pending request tables
            for k, v in m.le_coc_requests.items():
                items = [(k, i, r) for i, r in v.items()] if isinstance(v, dict) else [(None, k, v)]
                for h, ident, r in items:
                    owner = [c for c in M.chans if current(c) and not isinstance(c, l2cap.ClassicChannel)
                             and c.state == LS.CONNECTING and c.source_cid == r.source_cid
                             and (h is None or c.connection.handle == h)]
                    if not owner:
                        bad.append(('stale-le_coc_requests', f'mgr{mi}: request id {ident} (source cid {r.source_cid}) is not awaited by any connecting channel'))
            for h, d in m.pending_credit_based_connections.items():
                for ident, (fut, cs) in d.items():
                    if fut.done() or not all(current(c) for c in cs):
                        bad.append(('stale-pending_credit_based', f'mgr{mi}: pending_credit_based_connections[{h}][{ident}] is finished or of a dead link'))
            for h in m.identifiers:
                if h not in M.conns and any(h == hh for (mm, hh) in self.epoch if mm == mi):
                    pass    # a new connection object is only created on first use; nothing to check
            # waiters
            for w, t in M.tasks.items():
                if t.done():
                    continue
                kind, h, ep, uid = self.task_info[(mi, w)]
                if self.epoch.get((mi, h), 0) != ep:
                    bad.append(('waiter-stuck-linkdown', f'mgr{mi}: {kind} call #{w} still pending after its link went down'))
                elif kind == 'close' and closed(M.chans[uid]):
                    bad.append(('waiter-stuck-closed', f'mgr{mi}: disconnect() #{w} still pending, channel is {M.chans[uid].state.name}'))
            for ev, exc in M.escaped:
                pass
        for b in bad:
            self.violations.append((b[0] + ':' + opname, b[1]))
        return bad


# ----------------------------------------------------------------------------- topologies and generation
CFG_CENTRAL = {'le': [0x80], 'cl': [[0x1001, 0]]}
CFG_PERIPH = {'le': [0x80, 0x81], 'cl': [[0x1001, 0], [0x1003, 3]]}
TOPOLOGIES = {
    # name: (manager configs, links)
    'pair': ([CFG_CENTRAL, CFG_PERIPH], [[0, 1, 1, 5]]),
    'star': ([CFG_CENTRAL, CFG_PERIPH, CFG_PERIPH], [[0, 1, 1, 5], [0, 2, 2, 5]]),
    'foreign': ([CFG_PERIPH], [[0, 1, -1, 0], [0, 2, -1, 0]]),
}


def _ends(links):
    out = []
    for l, (mi, hi, mj, hj) in enumerate(links):
        out.append((mi, hi, l))
        if mj >= 0:
            out.append((mj, hj, l))
    return out


def gen_open(rng, ends):
    m, h, _ = rng.choice(ends)
    kind = rng.choice([KIND_LE] * 9 + [KIND_ENH] * 4 + [KIND_CL] * 7)
    if kind == KIND_CL:
        psm = rng.choice([0x1001] * 6 + [0x1003] * 2 + [0x1005])
        mode = rng.choice([0] * 5 + [3])
        n = 1
    else:
        psm = rng.choice([0x80] * 6 + [0x81] * 2 + [0x90])
        mode = 0
        n = rng.choice([1, 2, 2, 3, 5]) if kind == KIND_ENH else 1
        if kind == KIND_ENH and rng.chance(1, 25):
            n = 0
    return ['open', m, h, kind, psm, n, mode]


def gen_foreign_frame(rng, M, h):
    """a signalling frame from a foreign peer: mostly plausible (answers to what the manager sent,
    requests with fresh or clashing CIDs), sometimes unsolicited"""
    sent = [f for out in M.outs for f in out]
    reqs = [f for f in sent if f[0] in ('LeReq', 'EnhReq', 'ConnReq', 'DiscReq', 'ConfReq')]
    peer_cid = rng.choice([0x40, 0x41, 0x42, 0x50, 0x51, 0x7F])
    r = rng.below(100)
    if r < 40 and reqs:
        q = rng.choice(reqs[-4:])
        if q[0] == 'LeReq':
            return ['LeRsp', q[1], peer_cid, rng.choice([0, 1, 5]), rng.choice([0] * 4 + [2, 4])]
        if q[0] == 'EnhReq':
            res = rng.choice([0] * 4 + [2, 4])
            n = len(q[4])
            return ['EnhRsp', q[1], rng.choice([0, 1, 5]), res,
                    [0x60 + i for i in range(n)] if res == 0 else []]
        if q[0] == 'ConnReq':
            return ['ConnRsp', q[1], peer_cid, q[3], rng.choice([0] * 4 + [1, 2, 4])]
        if q[0] == 'DiscReq':
            return ['DiscRsp', q[1], q[2], q[3]]
        return ['ConfRsp', q[1], q[3] if False else rng.choice([0x40, 0x41]), rng.choice([0] * 5 + [2, 3])]
    if r < 55:
        return ['LeReq', rng.range(1, 255), rng.choice([0x80, 0x80, 0x81, 0x90]), peer_cid, rng.choice([0, 1, 4])]
    if r < 65:
        k = rng.choice([1, 2, 3])
        base = rng.choice([0x40, 0x50, 0x60])
        return ['EnhReq', rng.range(1, 255), rng.choice([0x80, 0x80, 0x90]), rng.choice([0, 2]),
                [base + i for i in range(k)]]
    if r < 75:
        return ['ConnReq', rng.range(1, 255), rng.choice([0x1001, 0x1001, 0x1003, 0x1005]), peer_cid]
    local = rng.choice([0x40, 0x41, 0x42, 0x43])
    if r < 83:
        return ['ConfReq', rng.range(1, 255), local, rng.choice([-1, -1, 0, 3]), rng.chance(1, 6)]
    if r < 88:
        return ['ConfRsp', rng.range(1, 255), local, rng.choice([0] * 5 + [2, 3])]
    if r < 94:
        return ['DiscReq', rng.range(1, 255), local, peer_cid]
    if r < 97:
        return ['DiscRsp', rng.range(1, 255), peer_cid, local]
    return ['Credit', rng.range(1, 255), peer_cid, rng.choice([1, 3, 100])]


async def gen_and_run(rng, topo, length, allow_abort=True, allow_cancel=True, down_weight=8):
    """generate a history online (choices depend only on counts visible in the world) and run it;
    returns (world, ops).  The op list alone replays the run."""
    cfgs, links = TOPOLOGIES[topo]
    w = World(cfgs, links)
    ends = _ends(links)
    ops = []
    foreign = any(l[2] < 0 for l in links)
    for _ in range(length):
        r = rng.below(100)
        op = None
        busy = [k for k in sorted(w.queues) if w.queues[k]]
        if r < 22:
            op = gen_open(rng, ends)
        elif r < 50:
            if foreign:
                m, h, _l = rng.choice(ends)
                op = ['inject', m, h, gen_foreign_frame(rng, w.mgrs[m], h)]
            elif busy:
                op = ['deliver', *rng.choice(busy)]
            else:
                op = gen_open(rng, ends)
        elif r < 56:
            op = ['flush']
        elif r < 72:
            m = rng.choice(ends)[0]
            n = len(w.mgrs[m].chans)
            if n:
                op = ['close', m, rng.below(n)]
        elif r < 76:
            m = rng.choice(ends)[0]
            n = len(w.mgrs[m].chans)
            if n and allow_abort:
                op = ['abort', m, rng.below(n)]
        elif r < 84:
            m = rng.choice(ends)[0]
            n = len(w.mgrs[m].chans)
            if n:
                op = ['write', m, rng.below(n), rng.choice([1, 2, 4])]
        elif r < 87:
            m = rng.choice(ends)[0]
            n = len(w.mgrs[m].chans)
            if n:
                op = ['grant', m, rng.below(n), rng.choice([1, 2, 50])]
        elif r < 87 + down_weight:
            op = ['down', rng.below(len(links))]
        elif allow_cancel:
            m = rng.choice(ends)[0]
            if w.nw[m]:
                op = ['cancel', m, rng.below(w.nw[m])]
        if op is None:
            op = ['flush'] if not foreign else gen_open(rng, ends)
        ops.append(op)
        await w.apply(op)
        w.check(op[0])
    return w, ops


async def run_ops(topo, ops, check=True):
    cfgs, links = TOPOLOGIES[topo]
    w = World(cfgs, links)
    for op in ops:
        await w.apply(op)
        if check:
            w.check(op[0])
    return w


def audit_eligible(topo, ops):
    return topo != 'foreign' and not any(o[0] in ('abort', 'cancel', 'inject') for o in ops)


async def audit(w, topo, ops):
    """End of a history in which both ends of every link are real managers and nobody aborted
    unilaterally: (1) everything in flight is delivered, (2) a new channel of every kind is opened in
    both directions and must succeed (identifiers are reusable), (3) every open channel is closed and
    every table must then be empty and every awaited call finished."""
    from bumble import l2cap
    cfgs, links = TOPOLOGIES[topo]
    extra = [['flush']]
    probes = []
    for l, (mi, hi, mj, hj) in enumerate(links):
        extra += [['open', mi, hi, KIND_LE, 0x80, 1, 0], ['open', mj, hj, KIND_CL, 0x1001, 1, 0],
                  ['open', mi, hi, KIND_ENH, 0x80, 2, 0], ['open', mj, hj, KIND_LE, 0x80, 1, 0]]
    for op in extra:
        if op[0] == 'open':
            probes.append((op[1], w.nw[op[1]], op))
        await w.apply(op)
        w.check('audit-' + op[0])
    await w.apply(['flush'])
    extra.append(['flush'])
    for m, wid, op in probes:
        o = _outcome(w.mgrs[m].tasks[wid])
        if o != OUTCOME_RESULT:
            w.violations.append(('reopen-failed:' + ['le', 'enh', 'classic'][op[3]],
                                 f'mgr{m}: opening a new channel {op} after the history did not succeed (outcome {o})'))
    closes = []
    LS = l2cap.LeCreditBasedChannel.State
    CS = l2cap.ClassicChannel.State
    for l, (mi, hi, mj, hj) in enumerate(links):
        M = w.mgrs[mi]
        for uid, c in enumerate(M.chans):
            if M.conns.get(c.connection.handle) is c.connection and c.connection.handle == hi and \
                    c.state in (LS.CONNECTED, CS.OPEN):
                closes.append(['close', mi, uid])
    for op in closes + [['flush']]:
        await w.apply(op)
        w.check('audit-' + op[0])
        extra.append(op)
    for mi, M in enumerate(w.mgrs):
        o = M.obs()
        for t in ('channels', 'le', 'reqs', 'pend'):
            if o[t]:
                w.violations.append((f'leak-{t}:audit', f'mgr{mi}: {t} = {o[t]} after every channel was closed'))
        for wid, oc in o['waiters']:
            if oc == OUTCOME_PENDING:
                w.violations.append(('waiter-pending:audit', f'mgr{mi}: awaited call #{wid} still pending after every channel was closed'))
    return extra
