"""C01 — HCI packets survive serialise/parse unchanged, for every packet class.

regen(): tools/translate/c01_fieldspecs.py -> coq/Gen/C01Registry.v (fail closed).
run():   for EVERY registered class, K boundary-biased value lists:
           * Python builds the packet (cls(**values)), serialises it, HCI_Packet.from_bytes parses
             it back; the Coq model (Model/SpecCodec.v + Model/HciPacket.v over the regenerated
             registry, evaluated by vm_compute) does the same; bytes, accept/reject, class and
             field values must agree, also on mutated byte strings and on out-of-range values;
           * the property oracle (implementation only): from_bytes(bytes(pkt)) has the same class
             and equal field values, and bytes(from_bytes(b)) == b.
         plus ACL / SCO / ISO packets, unknown opcodes / event codes / sub-event codes, and the
         two hand-written commands (oracle only).
"""
import json
import logging

from lib.verif import coq_z
from translate import c01_fieldspecs as T
from translate import c01_source as S

PROP_FILES = ['Props/C01.v']
LEVEL = 'proof'

logging.disable(logging.CRITICAL)

REQUIRES = ['Base.Bytes', 'Model.SpecCodec', 'Model.HciPacket', 'Gen.C01Registry']
PREAMBLE = '''
Definition rt (b : list Z) :=
  match parse_packet registry b with
  | Some p => Some (p, packet_bytes registry p)
  | None => None
  end.
Definition mk (k c : Z) (vs : list value) :=
  match find_class registry k c with
  | Some x => match build registry x vs with Some p => packet_bytes registry p | None => None end
  | None => None
  end.
Definition mkp (op : Z) (vs : list value) :=
  match find_phy registry op with
  | Some pc => match build_phy pc vs with Some p => packet_bytes registry p | None => None end
  | None => None
  end.
Definition mkr (n : string) (num op : Z) (vs : list value) :=
  packet_bytes registry (PCmdComplete [VInt num; VInt op] n vs []).
'''

_STATE = {}


def regen(ctx):
    hci, infos = T.regen(ctx)
    S.regen(ctx)        # source pins (after the registering modules are imported)
    _STATE['hci'] = hci
    _STATE['infos'] = infos


# ----------------------------------------------------------------------------- canonical values
# canon: int | bytes | ('addr', type, bytes) | list
def coq_value(v):
    if isinstance(v, bool):
        raise TypeError('bool value')
    if isinstance(v, int):
        return f'VInt {coq_z(v)}'
    if isinstance(v, (bytes, bytearray)):
        return 'VBytes [' + '; '.join(str(x) for x in v) + ']'
    if isinstance(v, tuple) and v[0] == 'addr':
        return f'VAddr {coq_z(v[1])} [' + '; '.join(str(x) for x in v[2]) + ']'
    if isinstance(v, list):
        return 'VList [' + '; '.join(coq_value(x) for x in v) + ']'
    raise TypeError(f'coq_value: {v!r}')


def coq_values(vs):
    return '[' + '; '.join(coq_value(v) for v in vs) + ']'


def from_coq_value(t):
    """parsed Coq value -> canon"""
    if isinstance(t, tuple):
        if t[0] == 'VInt':
            return t[1]
        if t[0] == 'VBytes':
            return bytes(t[1])
        if t[0] == 'VAddr':
            return ('addr', t[1], bytes(t[2]))
        if t[0] == 'VList':
            return [from_coq_value(x) for x in t[1]]
    raise ValueError(f'unexpected Coq value {t!r}')


def js(v):
    if isinstance(v, (bytes, bytearray)):
        return {'hex': bytes(v).hex()}
    if isinstance(v, tuple):
        return {'addr': v[2].hex(), 'type': v[1]}
    if isinstance(v, list):
        return [js(x) for x in v]
    return v


def unjs(v):
    if isinstance(v, dict):
        if 'hex' in v:
            return bytes.fromhex(v['hex'])
        return ('addr', v['type'], bytes.fromhex(v['addr']))
    if isinstance(v, list):
        return [unjs(x) for x in v]
    return v


# ----------------------------------------------------------------------------- canon <-> Python objects
def py_atom(hci, a, v):
    k = a[0]
    if k == 'CodingFmt':
        return hci.CodingFormat(hci.CodecID(v[0]), v[1], v[2])
    if k in ('Addr', 'AddrAfterType'):
        return hci.Address(v[2], hci.AddressType(v[1]))
    return v


def py_fspec(hci, s, v):
    if s[0] == 'Atom':
        return py_atom(hci, s[1], v)
    return s[1](**kwargs_of(hci, [(_lift(f)) for f in s[2]], v))


def _lift(af):
    """afield -> field (wrap aspecs as Atom)"""
    if af[0] == 'One':
        return ('One', af[1], ('Atom', af[2]))
    return ('Arr', [(n, ('Atom', a)) for n, a in af[1]])


def kwargs_of(hci, fields, vals):
    kw = {}
    for f, v in zip(fields, vals):
        if f[0] == 'One':
            kw[f[1]] = py_fspec(hci, f[2], v)
        else:
            for j, (n, s) in enumerate(f[1]):
                kw[n] = [py_fspec(hci, s, row[j]) for row in v]
    return kw


def canon_atom(a, x):
    k = a[0]
    if k in ('UInt', 'SInt', 'UIntBE', 'Enum'):
        return int(x)
    if k in ('FixedBytes', 'FixedBytesPad', 'VarLen', 'Rest', 'LenPrefixedPadded'):
        return bytes(x)
    if k in ('Addr', 'AddrAfterType'):
        return ('addr', int(x.address_type), bytes(x.address_bytes))
    if k == 'CodingFmt':
        return [int(x.codec_id), int(x.company_id), int(x.vendor_specific_codec_id)]
    raise ValueError(k)


def canon_fspec(s, x):
    if s[0] == 'Atom':
        return canon_atom(s[1], x)
    return canon_obj([_lift(f) for f in s[2]], x)


def canon_obj(fields, obj):
    out = []
    for f in fields:
        if f[0] == 'One':
            out.append(canon_fspec(f[2], getattr(obj, f[1])))
        else:
            cols = [getattr(obj, n) for n, _ in f[1]]
            n0 = len(cols[0])
            if any(len(c) != n0 for c in cols):
                raise ValueError('ragged array columns')
            out.append([[canon_fspec(s, cols[j][i]) for j, (_, s) in enumerate(f[1])] for i in range(n0)])
    return out


# ----------------------------------------------------------------------------- value generation
UBOUND = [0, 1, 2, 127, 128, 129, 254, 255, 256, 257, 0x7FFF, 0x8000, 0xFFFF, 0x10000, 0x10001,
          0x7FFFFF, 0x800000, 0xFFFFFF, 0x1000000, 0x7FFFFFFF, 0x80000000, 0xFFFFFFFF, 0x01020304, 0x0102,
          0xA1B2C3D4, 0xA1B2]


def gen_uint(rng, n):
    lim = 256 ** n
    pool = [v for v in UBOUND if v < lim]
    return rng.choice(pool) if rng.chance(3, 4) else rng.below(lim)


def gen_sint(rng, n):
    half = 256 ** n // 2
    pool = [-half, -half + 1, -129, -128, -127, -2, -1, 0, 1, 126, 127, 128, 255, half - 2, half - 1]
    pool = [v for v in pool if -half <= v < half]
    return rng.choice(pool) if rng.chance(3, 4) else rng.range(-half, half - 1)


def gen_bytes(rng, n):
    r = rng.below(8)
    if r == 0:
        return bytes(n)
    if r == 1:
        return bytes([0xFF]) * n
    if r == 2:
        return bytes((i + 1) & 0xFF for i in range(n))
    return rng.bytes(n)


def gen_atom(rng, a, prev, budget):
    """in-range canon value for aspec a; prev = byte before the field (or None)."""
    k = a[0]
    if k == 'UInt':
        return gen_uint(rng, a[1])
    if k == 'UIntBE':
        return gen_uint(rng, a[1])
    if k == 'Enum':
        return gen_uint(rng, a[1])
    if k == 'SInt':
        return gen_sint(rng, a[1])
    if k in ('FixedBytes', 'FixedBytesPad'):
        return gen_bytes(rng, a[1])
    if k == 'VarLen':
        n = rng.choice([0, 1, 2, 3, 7, 16, 31, 32, 33, 64]) if rng.chance(9, 10) else rng.choice([200, 254, 255])
        return gen_bytes(rng, min(n, max(budget, 0)) if rng.chance(9, 10) else n)
    if k == 'Rest':
        n = rng.choice([0, 1, 2, 5, 16, 40])
        return gen_bytes(rng, n)
    if k == 'LenPrefixedPadded':
        p = a[1]
        n = rng.choice([0, 1, 2, max(p - 2, 0), max(p - 1, 0), p, p + 1, 40])
        return gen_bytes(rng, n)
    if k == 'Addr':
        return ('addr', 0 if a[1] == 'APublic' else 1, gen_bytes(rng, 6))
    if k == 'AddrAfterType':
        return ('addr', prev if prev is not None else 0, gen_bytes(rng, 6))
    if k == 'CodingFmt':
        return [gen_uint(rng, 1), gen_uint(rng, 2), gen_uint(rng, 2)]
    raise ValueError(k)


def last_byte(hci, s, v):
    """last byte the real serializer writes for this value (used only to pick the address
    type of a following parse_address_preceded_by_type field); None if empty."""
    if s[0] != 'Atom':
        return None
    a = s[1]
    if a[0] in ('UInt', 'Enum') and a[1] == 1:
        return v
    return None


def gen_fspec(rng, hci, s, prev, budget):
    if s[0] == 'Atom':
        return gen_atom(rng, s[1], prev, budget)
    return gen_fields(rng, hci, [_lift(f) for f in s[2]], prev, budget)


def gen_fields(rng, hci, fields, prev=None, budget=200):
    vals = []
    for f in fields:
        if f[0] == 'One':
            v = gen_fspec(rng, hci, f[2], prev, budget)
            prev = last_byte(hci, f[2], v)
            vals.append(v)
        else:
            count = rng.choice([0, 0, 1, 1, 2, 2, 3, 5, 9]) if rng.chance(19, 20) else rng.choice([17, 40])
            rows = []
            p = count
            for _ in range(count):
                row = []
                for _, s in f[1]:
                    v = gen_fspec(rng, hci, s, p, 24)
                    p = last_byte(hci, s, v)
                    row.append(v)
                rows.append(row)
            vals.append(rows)
            prev = None
    return vals


def mutate_value(rng, fields, vals):
    """one out-of-range edit of an in-range value list (serialise-side correspondence)."""
    idx = [i for i, f in enumerate(fields) if f[0] == 'One' and f[2][0] == 'Atom']
    if not idx:
        return None
    i = rng.choice(idx)
    a = fields[i][2][1]
    k = a[0]
    vals = list(vals)
    if k in ('UInt', 'UIntBE', 'Enum'):
        vals[i] = rng.choice([256 ** a[1], 256 ** a[1] + 1, -1, 256 ** 4, 256 ** 4 - 1, 2 ** 24])
    elif k == 'SInt':
        half = 256 ** a[1] // 2
        vals[i] = rng.choice([half, -half - 1, 2 * half - 1, 2 * half])
    elif k in ('FixedBytes', 'FixedBytesPad'):
        vals[i] = gen_bytes(rng, rng.choice([0, 1, a[1] - 1, a[1] + 1, a[1] + 7]))
    elif k in ('VarLen', 'LenPrefixedPadded'):
        vals[i] = gen_bytes(rng, rng.choice([255, 256, 300]))
    elif k == 'CodingFmt':
        vals[i] = [rng.choice([255, 256]), rng.choice([65535, 65536]), rng.choice([0, 65536])]
    else:
        return None
    return vals


# ----------------------------------------------------------------------------- implementation runs
def impl_parse(hci, b):
    try:
        return hci.HCI_Packet.from_bytes(b)
    except Exception:       # noqa: any exception is a rejection
        return None


def impl_bytes(p):
    try:
        return bytes(p)
    except Exception:
        return None


def describe(hci, infos_by, p):
    """implementation packet -> the model's constructor form (without the cached params)."""
    if p is None:
        return None
    H = hci
    if isinstance(p, H.HCI_Command):
        info = infos_by.get((T.KIND_COMMAND, p.op_code))
        if type(p) is H.HCI_Command:
            return ['PCommand', p.op_code, False, []]
        if info is None or type(p) is not info.pycls:
            return ['?', type(p).__name__]
        if info.custom:
            return ['PCommand', p.op_code, True, phy_flat(info, {n: getattr(p, n) for n in phy_names(info)})]
        return ['PCommand', p.op_code, True, canon_obj(info.fields, p)]
    if isinstance(p, H.HCI_LE_Meta_Event):
        if type(p) is H.HCI_LE_Meta_Event:
            return ['PLeMeta', p.subevent_code, False, []]
        info = infos_by.get((T.KIND_LE_EVENT, p.subevent_code))
        if info is None or type(p) is not info.pycls:
            return ['?', type(p).__name__]
        return ['PLeMeta', p.subevent_code, True, canon_obj(info.fields, p)]
    if isinstance(p, H.HCI_Extended_Event):       # a vendor sub-event class produced by a vendor factory
        info = infos_by.get((T.KIND_VENDOR, p.subevent_code))
        if info is None or type(p) is not info.pycls:
            return ['?', type(p).__name__]
        return ['PVendorSub', p.subevent_code, canon_obj(info.fields, p)]
    if isinstance(p, H.HCI_Command_Complete_Event):
        rp = p.return_parameters
        rinfo = infos_by.get(('ret', type(rp).__name__))
        if rinfo is None or type(rp) is not rinfo.pycls:
            return ['?', type(rp).__name__]
        return ['PCmdComplete', [int(p.num_hci_command_packets), int(p.command_opcode)],
                rinfo.name, canon_obj(rinfo.fields, rp)]
    if isinstance(p, H.HCI_Event):
        if type(p) is H.HCI_Event:
            return ['PEvent', p.event_code, False, []]
        info = infos_by.get((T.KIND_EVENT, p.event_code))
        if info is None or type(p) is not info.pycls:
            return ['?', type(p).__name__]
        return ['PEvent', p.event_code, True, canon_obj(info.fields, p)]
    if isinstance(p, H.HCI_AclDataPacket):
        return ['PAcl', p.connection_handle, p.pb_flag, p.bc_flag, p.data_total_length, bytes(p.data)]
    if isinstance(p, H.HCI_SynchronousDataPacket):
        return ['PSco', p.connection_handle, int(p.packet_status), p.data_total_length, bytes(p.data)]
    if isinstance(p, H.HCI_IsoDataPacket):
        sdu = None
        if p.packet_sequence_number is not None:
            sdu = [p.packet_sequence_number, p.iso_sdu_length, p.packet_status_flag]
        return ['PIso', p.connection_handle, p.pb_flag, p.data_total_length, p.time_stamp, sdu,
                bytes(p.iso_sdu_fragment)]
    if isinstance(p, H.HCI_CustomPacket):
        return ['PCustom', bytes(p.payload)]
    return ['?', type(p).__name__]


def describe_model(t):
    """parsed Coq packet -> same form"""
    if t is None:
        return None
    c = t[0]
    if c in ('PCommand', 'PEvent', 'PLeMeta'):
        return [c, t[1], t[2], [from_coq_value(v) for v in t[3]]]
    if c == 'PCmdComplete':
        return [c, [from_coq_value(v) for v in t[1]], t[2][1], [from_coq_value(v) for v in t[3]]]
    if c == 'PCmdCompleteCustom':
        return [c]
    if c == 'PVendorSub':
        return [c, t[1], [from_coq_value(v) for v in t[2]]]
    if c == 'PAcl':
        return [c, t[1], t[2], t[3], t[4], bytes(t[5])]
    if c == 'PSco':
        return [c, t[1], t[2], t[3], bytes(t[4])]
    if c == 'PIso':
        ts = t[4][1] if isinstance(t[4], tuple) else None
        sdu = None
        if isinstance(t[5], tuple):
            sdu = list(t[5][1])
        return [c, t[1], t[2], t[3], ts, sdu, bytes(t[6])]
    if c == 'PCustom':
        return [c, bytes(t[1])]
    if c == 'PCustomClass':
        return [c, t[1], t[2]]
    raise ValueError(f'unexpected model packet {t!r}')


def opt_bytes(t):
    """parsed Coq `option (list Z)` -> bytes | None"""
    if t is None:
        return None
    return bytes(t[1])


def mutations(rng, b, hdr):
    """byte strings derived from a serialised packet b (hdr = header length incl. type byte)."""
    out = []
    n = len(b)
    if n > hdr:
        out.append(('cut-nofix', b[:-1]))
        out.append(('cut-fix', _fixlen(b[:-1], hdr)))
        k = rng.range(hdr, n - 1)
        out.append(('cut-k-fix', _fixlen(b[:k], hdr)))
        i = rng.range(hdr, n - 1)
        for name, nv in (('byte-inc', (b[i] + 1) & 0xFF), ('byte-zero', 0), ('byte-ff', 0xFF)):
            if nv != b[i]:
                out.append((name, b[:i] + bytes([nv]) + b[i + 1:]))
    out.append(('ext-nofix', b + b'\x00'))
    out.append(('ext-fix', _fixlen(b + bytes([rng.below(256)]), hdr)))
    out.append(('hdr-only', _fixlen(b[:hdr], hdr)))
    return rng.shuffle(out)[:4]


def _fixlen(b, hdr):
    n = len(b) - hdr
    if n < 0 or n > 255:
        return b
    return b[:hdr - 1] + bytes([n]) + b[hdr:]


# ----------------------------------------------------------------------------- oracle (implementation only)
def oracle_fields(hci, info, kw, wrap=None):
    """cls(**kw) -> bytes -> from_bytes: same class, equal fields, same bytes.
    Returns (None | (signature, text)), bytes."""
    try:
        obj = info.pycls(**kw)
        pkt = wrap(obj) if wrap else obj
        b = bytes(pkt)
    except Exception as e:      # building an in-range packet must not fail
        return (f'{info.name}.build', f'{info.name}: building/serialising in-range values raised {type(e).__name__}'), None
    try:
        p2 = hci.HCI_Packet.from_bytes(b)
    except Exception as e:
        return (f'{info.name}.parse', f'{info.name}: from_bytes(bytes(pkt)) raised {type(e).__name__} for {b.hex()}'), b
    o2 = p2.return_parameters if wrap else p2
    if type(p2) is not type(pkt) or type(o2) is not type(obj):
        return (f'{info.name}.class', f'{info.name}: parsed back as {type(o2).__name__} from {b.hex()}'), b
    for f in info.fields:
        names = [f[1]] if f[0] == 'One' else [n for n, _ in f[1]]
        for n in names:
            v1, v2 = getattr(obj, n), getattr(o2, n)
            if not (v1 == v2):
                return (f'{info.name}.{n}', f'{info.name}.{n}: built with {v1!r}, parsed back {v2!r} (bytes {b.hex()})'), b
    try:
        b2 = bytes(p2)
    except Exception as e:
        return (f'{info.name}.rebytes', f'{info.name}: bytes(from_bytes(b)) raised {type(e).__name__}'), b
    if b2 != b:
        return (f'{info.name}.rebytes', f'{info.name}: bytes(from_bytes(b)) = {b2.hex()} != b = {b.hex()}'), b
    return None, b


# ----------------------------------------------------------------------------- run
def _infos(ctx):
    if 'infos' not in _STATE:
        # regen() failed (the check is already failing): keep going with the classes that do translate
        hci, infos = T.load(strict=False)
        _STATE['hci'], _STATE['infos'] = hci, infos
        _STATE['failed'] = list(T.FAILED)
        for kind, code, cls, msg in T.FAILED:
            ctx.log('class skipped by the lenient translator:', msg)
    return _STATE['hci'], _STATE['infos']


def flat_names(fields):
    out = []
    for f in fields:
        if isinstance(f, list):
            out.extend(n for n, _ in f)
        else:
            out.append(f[0])
    return out


def specfree_oracle(hci, kind, code, cls, rng, n):
    """Round-trip oracle that needs no knowledge of the field specs (used for classes the
    translator could not read): parse a long parameter block of small bytes, rebuild the
    packet from the parsed field values, serialise and parse again; the field values must
    come back equal.  The values are in range by construction (they came out of the parser
    with all the input it wanted)."""
    names = flat_names(cls.fields)
    for _ in range(n):
        params = bytes(rng.below(4) for _ in range(40)) + bytes(rng.below(256) for _ in range(200))
        if kind == T.KIND_COMMAND:
            b = bytes([1]) + code.to_bytes(2, 'little') + bytes([len(params)]) + params
        elif kind == T.KIND_EVENT:
            b = bytes([4, code, len(params)]) + params
        else:
            params = bytes([code]) + params[:-1]
            b = bytes([4, 0x3E, len(params)]) + params
        try:
            p = hci.HCI_Packet.from_bytes(b)
            if type(p) is not cls:
                continue
            kw = {n_: getattr(p, n_) for n_ in names}
            p2 = cls(**kw)
            b2 = bytes(p2)
        except Exception:
            continue
        try:
            p3 = hci.HCI_Packet.from_bytes(b2)
        except Exception as e:
            return (f'{cls.__name__}.parse', f'{cls.__name__}: values parsed from {b.hex()} were re-serialised as '
                    f'{b2.hex()}, which from_bytes rejects ({type(e).__name__})', b)
        if type(p3) is not cls:
            return (f'{cls.__name__}.class', f'{cls.__name__}: re-serialised packet {b2.hex()} parses as {type(p3).__name__}', b)
        for n_ in names:
            if not (getattr(p3, n_) == kw[n_]):
                return (f'{cls.__name__}.{n_}', f'{cls.__name__}.{n_}: built with {kw[n_]!r} (values parsed from {b.hex()}), '
                        f'serialised as {b2.hex()}, parsed back {getattr(p3, n_)!r}', b)
    return None


def run(ctx):
    hci, infos = _infos(ctx)
    rng = ctx.rng
    ctx.log('harness starts (translator + Coq build of the cone done)')
    ctx.rule = ('every registered class x K value lists (K=%d) drawn per field from boundary sets '
                '(0,1,127,128,255,256,2^15+-1,2^16-1,2^24-1,2^32-1, signed extremes, byte strings of length '
                '0/1/n-1/n, arrays of 0/1/2/many items); each built and serialised by the real class and by '
                'the model, parsed back by HCI_Packet.from_bytes and by the model, plus 3 mutated byte strings '
                '(truncate / extend / length byte / byte flips) and one out-of-range value list; ACL/SCO/ISO '
                'headers over boundary bit-field values; a complete sweep of all 256 event codes, all 256 LE sub-event '
                'codes, all 256 vendor sub-event codes and a boundary set of unregistered opcodes with payload lengths '
                '0/1/7/120/255, with every module that registers HCI classes imported. A case '
                'is non-trivial when the class has at least one field; distinct by (class, values).'
                % ctx.n(6, 200))
    ctx.assumptions += [
        'every module under bumble/ that uses a registration decorator or adds a vendor factory is imported '
        '(found by scanning the sources); registrations made elsewhere at run time are not seen',
        'values are well-typed for their field (ints for integer fields, bytes for byte fields, Address for addresses)',
    ]
    ctx.trusted += [
        'Model/SpecCodec.v and Model/HciPacket.v are hand-written readings of bumble/hci.py; the per-class field '
        'lists are regenerated (Gen/C01Registry.v); both are tied to the code by differential execution on every class',
        'tools/translate/c01_fieldspecs.py recognises named callables by identity and the three lambdas by code '
        'names plus a behavioural probe',
    ]
    infos_by = {}
    for i in infos:
        if i.kind == T.KIND_RETURN:
            infos_by[('ret', i.name)] = i
        else:
            infos_by[(i.kind, i.code)] = i
    ctx.extra['modules_imported'] = list(T.EXTRA.get('modules', []))
    ctx.extra['vendor_factories'] = [[sub, ids] for sub, ids in T.EXTRA.get('rules', [])]
    ctx.extra['classes'] = {'commands': sum(1 for i in infos if i.kind == 0), 'events': sum(1 for i in infos if i.kind == 1),
                            'vendor_subevents': sum(1 for i in infos if i.kind == 4),
                            'le_subevents': sum(1 for i in infos if i.kind == 2),
                            'return_parameter_classes': sum(1 for i in infos if i.kind == 3),
                            'custom': [i.name for i in infos if i.custom]}
    K = ctx.n(6, 200)
    cases = []      # (tag, info, ...)
    exprs = []

    def add_expr(e):
        exprs.append(e)
        return len(exprs) - 1

    # ---- corpus first
    for entry in load_corpus():
        r = entry['replay']
        if r['kind'] == 'bytes':
            b = bytes.fromhex(r['hex'])
            cases.append(('bytes', 'corpus', b, add_expr(f'rt {_cb(b)}'), True))

    # ---- every registered class
    first_cmd_for_ret = {}
    for i in infos:
        if i.kind == T.KIND_COMMAND and i.ret_name and i.ret_name not in first_cmd_for_ret:
            first_cmd_for_ret[i.ret_name] = i.code
    cmds_for_ret = {}
    for i in infos:
        if i.kind == T.KIND_COMMAND and i.ret_name:
            cmds_for_ret.setdefault(i.ret_name, []).append(i.code)

    lenient_ops = {i.code for i in infos if i.kind == T.KIND_COMMAND and i.custom_return}
    for info in infos:
        if info.custom:
            for k in range(ctx.n(12, 300)):
                kw = gen_custom(rng, hci, info)
                vals = phy_flat(info, kw)
                e = add_expr(f'mkp {info.code} {coq_values(vals)}')
                cases.append(('phy', info, vals, e, None, None, k, kw))
            continue
        if info.kind == T.KIND_EVENT and info.code == 0x0E:
            continue        # Command Complete is exercised through every return-parameters class
        for k in range(K):
            vals = gen_fields(rng, hci, info.fields)
            if info.selector:
                vals[0] = rng.choice(info.selector)     # the id the vendor factory selects on
            if info.kind == T.KIND_RETURN:
                if info.status_first and info.fields and k != 1:
                    vals[0] = 0                 # SUCCESS: the other fields are parsed
                if info.name == 'HCI_GenericReturnParameters':
                    op = rng.choice([0x3FFF, 0xFC77, 0x0401, 0x0405])      # unknown or asynchronous command
                elif info.name == 'HCI_StatusReturnParameters':
                    op = rng.choice(cmds_for_ret[info.name])
                else:
                    op = rng.choice(cmds_for_ret[info.name]) if not ctx.quick() else cmds_for_ret[info.name][k % len(cmds_for_ret[info.name])]
                num = rng.choice([0, 1, 255])
                e = add_expr(f'mkr "{info.name}" {num} {op} {coq_values(vals)}')
                cases.append(('ret', info, vals, e, num, op, k))
            else:
                e = add_expr(f'mk {info.kind} {info.code} {coq_values(vals)}')
                cases.append(('cls', info, vals, e, None, None, k))
            if k % 3 == 0:
                bad = mutate_value(rng, info.fields, vals)
                if bad is not None and info.kind != T.KIND_RETURN:
                    e = add_expr(f'mk {info.kind} {info.code} {coq_values(bad)}')
                    cases.append(('bad', info, bad, e, None, None, k))

    # the byte strings the model parses are the ones the implementation produced (and
    # mutations of them), so both sets of expressions go to Coq in one batch
    exprs2 = []
    todo = []
    ser_checks = []

    def add2(b):
        exprs2.append(f'rt {_cb(b)}')
        return len(exprs2) - 1

    for c in cases:
        tag = c[0]
        if tag == 'bytes':
            todo.append(('bytes', None, c[2], add2(c[2]), c[4]))
            continue
        info, vals, e = c[1], c[2], c[3]
        try:
            kw = c[7] if tag == 'phy' else kwargs_of(hci, info.fields, vals)
        except Exception as ex:
            _disagree(ctx, 'harness could not build keyword arguments', {'class': info.name, 'values': js(vals)}, None, repr(ex))
            continue
        if tag == 'ret':
            num, op = c[4], c[5]

            def wrap(o, num=num, op=op):
                return hci.HCI_Command_Complete_Event(num_hci_command_packets=num, command_opcode=op, return_parameters=o)
        else:
            wrap = None
        try:
            obj = info.pycls(**kw)
            ib = bytes(wrap(obj) if wrap else obj)
        except Exception:
            ib = None
        ctx.count('class-cases.' + ('phy-mask-command' if tag == 'phy' else
                                    ['command', 'event', 'le-subevent', 'return-parameters', 'vendor-subevent'][info.kind]))
        ctx.count('values.out-of-range' if tag == 'bad' else 'values.in-range')
        ser_checks.append((info, vals, tag, e, ib))
        if tag == 'bad':
            ctx.case(('bad', info.name, repr(vals)), bool(info.fields))
            ctx.count('serialise.' + ('rejected' if ib is None else 'accepted'))
            continue
        ctx.case((info.name, repr(vals)), bool(info.fields) or tag == 'phy',
                 {'class': info.name, 'values': js(vals), 'bytes': ib.hex() if ib else None})
        # property oracle on the implementation
        in_contract = not (tag == 'ret' and info.status_first and len(info.fields) > 1 and vals[0] != 0
                           and c[5] not in lenient_ops)
        if tag == 'phy':
            bad = oracle_custom(hci, info, kw)
            if bad:
                ctx.violation(bad[0], bad[1], {'kind': 'custom', 'class': info.name,
                                               'values': {k_: js(_cv(v)) for k_, v in kw.items()}})
        elif ib is not None and in_contract:
            bad, _ = oracle_fields(hci, info, kw, wrap)
            if bad:
                ctx.violation(bad[0], bad[1], {'kind': 'fields', 'class': info.name, 'values': js(vals),
                                               'num': c[4] if tag == 'ret' else None, 'op': c[5] if tag == 'ret' else None})
        if ib is None:
            if in_contract and tag != 'phy' and _fits(info, vals):
                ctx.violation(f'{info.name}.build', f'{info.name}: in-range values cannot be serialised',
                              {'kind': 'fields', 'class': info.name, 'values': js(vals),
                               'num': c[4] if tag == 'ret' else None, 'op': c[5] if tag == 'ret' else None})
            continue
        hdr = 4 if info.kind == T.KIND_COMMAND else 3
        todo.append(('orig', info, ib, add2(ib), in_contract))
        for name, mbts in mutations(rng, ib, hdr)[:3 if c[6] < 12 else 1]:
            todo.append((name, info, mbts, add2(mbts), False))

    # ---- data packets, unknown codes, custom classes
    todo.append(('data', None, b'', add2(b''), False))
    # ---- the whole spec vocabulary on ad-hoc field lists (arms no registered HCI class uses today:
    # '>2', '>4', -2 ...; other protocol layers build HCI_Object field lists from them)
    synth_checks = []
    for si, pyfields in enumerate(SYNTHETIC_FIELDS):
        fields = T.fields_of(hci, pyfields, f'synthetic{si}')
        coqfs = T.coq_fields(fields)
        for k in range(ctx.n(8, 200)):
            vals = gen_fields(rng, hci, fields)
            kw = kwargs_of(hci, fields, vals)
            try:
                ib = bytes(hci.HCI_Object(pyfields, **kw))
            except Exception:
                ib = None
            e1 = add_expr(f'serialize_fields {coqfs} {coq_values(vals)}')
            e2 = add_expr(f'parse_fields {coqfs} 0 {_cb(ib)}') if ib is not None else None
            ctx.count('synthetic-field-lists')
            ctx.case(('synthetic', si, repr(vals)), True)
            back = None
            if ib is not None:
                try:
                    d = hci.HCI_Object.dict_from_bytes(ib, 0, pyfields)
                    back = canon_obj(fields, type('O', (), d)())
                except Exception:
                    back = 'rejected'
                if back != vals:
                    ctx.violation(f'synthetic{si}.roundtrip', f'HCI_Object with fields {pyfields!r}: built with {vals!r}, '
                                  f'bytes {ib.hex()}, parsed back {back!r}',
                                  {'kind': 'synthetic', 'index': si, 'values': js(vals)})
            synth_checks.append((si, vals, e1, e2, ib, back))

    data_checks = []
    for entry in gen_data_packets(rng, hci, ctx.n(150, 6000)):
        if entry[0] == 'raw':
            todo.append(('data', None, entry[1], add2(entry[1]), entry[2]))
            continue
        _, dkind, f = entry
        ctx.count('data-fields.' + dkind)
        try:
            obj, term = build_data_packet(hci, dkind, f)
        except Exception as ex:
            _disagree(ctx, 'data packet class cannot be constructed', {'kind': dkind, 'fields': repr(f)}, None, repr(ex))
            continue
        ib = impl_bytes(obj)
        data_checks.append((dkind, f, add_expr(f'packet_bytes registry ({term})'), ib))
        ctx.case(('data-fields', dkind, repr(f)), True)
        if ib is None:
            continue
        # oracle, fields direction: the packet parses back equal, and to the same bytes
        p2 = impl_parse(hci, ib)
        if p2 is None or type(p2) is not type(obj) or not (p2 == obj) or impl_bytes(p2) != ib:
            ctx.violation(f'{dkind}.fields', f'{type(obj).__name__}: built {obj!r}, bytes {ib.hex()}, parsed back {p2!r}',
                          {'kind': 'data-fields', 'packet': dkind, 'fields': js(list(f) if not isinstance(f[-2], tuple) else
                                                                           [*f[:-2], list(f[-2]), f[-1]])})
        todo.append(('data', None, ib, add2(ib), True))
    sweep = gen_sweep(rng, infos, ctx.n(1, 4))
    for kind, code, known, b in sweep:
        todo.append(('sweep', (kind, code, known), b, add2(b), False))

    ctx.log('implementation side done; evaluating the model')
    allres = ctx.coq_eval(REQUIRES, exprs + exprs2, preamble=PREAMBLE, shard=_shard(len(exprs) + len(exprs2)))
    model, model2 = allres[:len(exprs)], allres[len(exprs):]
    ctx.log('model evaluated:', len(exprs), 'build +', len(exprs2), 'parse expressions')
    for si, vals, e1, e2, ib, back in synth_checks:
        mb = opt_bytes(model[e1])
        if mb != ib:
            _disagree(ctx, 'synthetic field list: serialisation differs', {'index': si, 'values': js(vals)},
                      mb.hex() if mb is not None else None, ib.hex() if ib is not None else None)
        if e2 is not None:
            m = model[e2]
            mvals = [from_coq_value(v) for v in m[1][0]] if m is not None else 'rejected'
            if mvals != back:
                _disagree(ctx, 'synthetic field list: parse differs', {'index': si, 'bytes': ib.hex()}, _jd(mvals), _jd(back))
    for dkind, f, e, ib in data_checks:
        mb = opt_bytes(model[e])
        if ib != mb:
            _disagree(ctx, 'data packet serialisation differs', {'kind': dkind, 'fields': repr(f)},
                      mb.hex() if mb is not None else None, ib.hex() if ib is not None else None)
    for info, vals, tag, e, ib in ser_checks:
        mb = opt_bytes(model[e])
        if ib != mb:
            _disagree(ctx, 'serialisation differs', {'class': info.name, 'values': js(vals), 'tag': tag},
                      mb.hex() if mb is not None else None, ib.hex() if ib is not None else None)
    alive = {}
    for name, info, b, e, wellformed in todo:
        m = model2[e]
        p = impl_parse(hci, b)
        ctx.count('parse.' + name)
        ctx.count('parse.accepted' if p is not None else 'parse.rejected')
        if name == 'sweep':
            skind, scode, sknown = info
            info = None
        if name in ('data', 'sweep', 'bytes'):
            ctx.case((name, b), True, {'kind': name, 'bytes': b.hex()} if e % 97 == 0 else None)
        try:
            idesc = describe(hci, infos_by, p)
        except Exception as ex:
            idesc = ['describe-failed', repr(ex)]
        if m is None:
            mdesc, mbytes = None, None
        else:
            mdesc = describe_model(m[1][0])
            mbytes = opt_bytes(m[1][1])
        ibytes = impl_bytes(p) if p is not None else None
        if idesc != mdesc or ibytes != mbytes:
            _disagree(ctx, 'parse / re-serialise differs (%s)' % name,
                         {'class': info.name if info else None, 'bytes': b.hex()},
                         [_jd(mdesc), mbytes.hex() if mbytes is not None else None],
                         [_jd(idesc), ibytes.hex() if ibytes is not None else None])
        # oracle, several packets alive at once: parsing a later packet of the same class must not
        # change what an earlier one serialises to (the parameter cache is per instance)
        if name == 'orig' and p is not None and ibytes is not None:
            key = type(p).__name__
            prev = alive.get(key)
            if prev is not None:
                pb = impl_bytes(prev[0])
                if pb != prev[1]:
                    ctx.violation(f'{key}.stale', f'{key}: packet parsed from {prev[2].hex()} serialised as {prev[1].hex()}, '
                                  f'but as {pb.hex() if pb is not None else None} after {b.hex()} was parsed',
                                  {'kind': 'pair', 'first': prev[2].hex(), 'second': b.hex()})
            alive[key] = (p, ibytes, b)
        # oracle, bytes direction: a well-formed packet re-serialises to itself
        if wellformed:
            if p is None:
                ctx.violation(f'{_sig(info, b)}.parse', f'well-formed packet {b.hex()} is rejected',
                              {'kind': 'bytes', 'hex': b.hex()})
            elif ibytes != b:
                ctx.violation(f'{_sig(info, b)}.rebytes',
                              f'bytes(from_bytes(b)) = {ibytes.hex() if ibytes is not None else None} != b = {b.hex()}',
                              {'kind': 'bytes', 'hex': b.hex()})
        if name == 'sweep':
            ctx.count('sweep.' + skind + ('.registered' if sknown else '.unregistered'))
            bad = sweep_oracle(hci, skind, scode, sknown, p, b)
            if bad:
                ctx.violation(f'sweep.{skind}.{scode:#x}', bad, {'kind': 'sweep', 'hex': b.hex(), 'code_kind': skind,
                                                                'code': scode, 'registered': sknown})


def _disagree(ctx, what, case, model, impl):
    if len(ctx.disagreements) < 8:
        ctx.log('DISAGREE', what, json.dumps(case, default=repr)[:600], '\n   model:', json.dumps(model, default=repr)[:600],
                '\n   impl: ', json.dumps(impl, default=repr)[:600])
    ctx.disagree(what, case, model, impl)


def _shard(n):
    import os
    jobs = int(os.environ.get('VERIF_JOBS', '8'))
    return max(400, min(3000, -(-n // jobs)))


def _cv(v):
    if hasattr(v, 'address_bytes'):
        return ('addr', int(v.address_type), bytes(v.address_bytes))
    return v


def _jd(d):
    return json.loads(json.dumps(d, default=lambda x: x.hex() if isinstance(x, (bytes, bytearray)) else repr(x)))


def _cb(b):
    return '[' + '; '.join(str(x) for x in b) + ']'


def _sig(info, b):
    if info is not None:
        return info.name
    return {1: 'command', 2: 'acl', 3: 'sco', 4: 'event', 5: 'iso'}.get(b[0] if b else -1, 'custom')


def _fits(info, vals):
    """does the serialised parameter block fit the 255-byte length field (rough upper bound)?"""
    def size(v):
        if isinstance(v, int):
            return 4
        if isinstance(v, (bytes, bytearray)):
            return len(v) + 33
        if isinstance(v, tuple):
            return 6
        return 1 + sum(size(x) for x in v)
    return size(vals) <= 255


def unknown_oracle(hci, p, b):
    if b[0] == 1:
        if type(p) is not hci.HCI_Command or p.parameters != b[4:] or p.op_code != int.from_bytes(b[1:3], 'little'):
            return f'unknown opcode packet {b.hex()} is not carried as a generic HCI_Command with its parameters'
    elif b[0] == 4 and b[1] == 0x3E:
        if type(p) is not hci.HCI_LE_Meta_Event or p.parameters != b[3:] or p.subevent_code != b[3]:
            return f'unknown sub-event packet {b.hex()} is not carried as a generic HCI_LE_Meta_Event'
    elif b[0] == 4:
        if type(p) is not hci.HCI_Event or p.parameters != b[3:] or p.event_code != b[1]:
            return f'unknown event packet {b.hex()} is not carried as a generic HCI_Event with its parameters'
    else:
        if type(p) is not hci.HCI_CustomPacket or p.payload != b:
            return f'packet of unknown type {b.hex()} is not carried as HCI_CustomPacket'
    return None


# ad-hoc field lists covering every arm of parse_field / serialize_field
SYNTHETIC_FIELDS = [
    [('a', '>2'), ('b', '>4'), ('c', -2), ('d', -1), ('e', 3), ('f', 4), ('g', 2), ('h', 1), ('i', 'v'), ('j', 5),
     ('k', {'size': 3}), ('l', 256), ('m', '*')],
    [('n', 1), [('x', '>2'), ('y', -2), ('z', 'v')], ('t', '>4'), [('u', 3), ('w', -1)]],
]

SWEEP_LENGTHS = [0, 1, 7, 120, 255]


def registered_codes(infos):
    """codes that have a class of the RIGHT kind in the dispatcher's registry (a class sitting
    in a registry whose event code it does not write is not a class for that code)"""
    ev = {i.code for i in infos if i.kind == T.KIND_EVENT and i.event == i.code}
    le = {i.code for i in infos if i.kind == T.KIND_LE_EVENT and i.event == 0x3E}
    ops = {i.code for i in infos if i.kind == T.KIND_COMMAND}
    return ev, le, ops


def gen_sweep(rng, infos, reps):
    """(kind, code, registered?, packet) over ALL 256 event codes, ALL 256 LE sub-event codes, ALL
    256 vendor sub-event codes and a boundary set of unregistered opcodes, payload lengths
    0, 1, 7, 120, 255."""
    ev, le, ops = registered_codes(infos)
    rules = T.EXTRA.get('rules', [])
    out = []
    for _ in range(reps):
        for code in range(256):
            if code in (0x3E, 0xFF):
                continue
            for n in SWEEP_LENGTHS:
                params = rng.bytes(n)
                out.append(('event', code, code in ev, bytes([4, code, len(params)]) + params))
        for sub in range(256):
            for n in SWEEP_LENGTHS:
                params = bytes([sub]) + rng.bytes(min(n, 254))
                out.append(('le', sub, sub in le, bytes([4, 0x3E, len(params)]) + params))
        for sub in range(256):
            for n in SWEEP_LENGTHS:
                params = bytes([sub]) + rng.bytes(min(n, 254))
                claimed = any(sub == rsub and len(params) >= 2 and params[1] in ids for rsub, ids in rules)
                out.append(('vendor', sub, claimed, bytes([4, 0xFF, len(params)]) + params))
        out.append(('vendor', -1, False, bytes([4, 0xFF, 0])))
        for rsub, ids in rules:                 # payloads a factory claims (random ones rarely are)
            for rid in ids:
                for n in (0, 7, 120, 200):
                    params = bytes([rsub, rid]) + rng.bytes(n)
                    out.append(('vendor', rsub, True, bytes([4, 0xFF, len(params)]) + params))
        cands = [0x0000, 0x0001, 0x03FF, 0x0400, 0x0402, 0x07FF, 0x0800, 0x0BFF, 0x0C00, 0x0C02, 0x0FFF, 0x1000,
                 0x13FF, 0x1400, 0x17FF, 0x1800, 0x1FFF, 0x2000, 0x20FF, 0x23FF, 0x2400, 0x3FFF, 0x4000, 0x7FFF,
                 0x8000, 0xFBFF, 0xFC00, 0xFC02, 0xFC7F, 0xFCFF, 0xFD00, 0xFD52, 0xFDFF, 0xFE00, 0xFFFE, 0xFFFF]
        cands += [rng.below(65536) for _ in range(12)]
        for op in cands:
            if op in ops:
                continue
            for n in SWEEP_LENGTHS:
                params = rng.bytes(n)
                out.append(('opcode', op, False, bytes([1]) + op.to_bytes(2, 'little') + bytes([len(params)]) + params))
        for t in (0, 6, 7, 9, 0x80, 0xFF):
            out.append(('type', t, False, bytes([t]) + rng.bytes(rng.choice([0, 1, 7]))))
    return out


def sweep_oracle(hci, kind, code, registered, p, b):
    """implementation only.  Unregistered code: generic class of the right kind, same code,
    parameters preserved byte for byte, same bytes back.  Registered code: the parser may
    reject the random payload; if it accepts, the packet keeps its event code and (with a
    non-empty parameter block) its bytes."""
    what = f'{kind} code {code:#x}, packet {b.hex()[:60]}'
    if kind == 'type':
        if type(p) is not hci.HCI_CustomPacket or p.payload != b or bytes(p) != b:
            return f'{what}: packet of unknown type is not carried as HCI_CustomPacket with its payload'
        return None
    if kind == 'opcode':
        if p is None:
            return f'{what}: unregistered opcode rejected'
        if type(p) is not hci.HCI_Command or p.op_code != code or p.parameters != b[4:] or bytes(p) != b:
            return (f'{what}: not carried as a generic HCI_Command with its parameters '
                    f'(got {type(p).__name__}, re-serialised {bytes(p).hex()[:40]})')
        return None
    params = b[3:]
    evcode = b[1]
    if not registered:
        want = {'event': hci.HCI_Event, 'le': hci.HCI_LE_Meta_Event, 'vendor': hci.HCI_Vendor_Event}[kind]
        if p is None:
            return f'{what}: unregistered code rejected'
        try:
            rb = bytes(p)
        except Exception as e:
            return f'{what}: re-serialisation raised {type(e).__name__}'
        if type(p) is not want:
            return (f'{what}: parsed as {type(p).__name__} (event_code {getattr(p, "event_code", None)!r}), expected a generic '
                    f'{want.__name__}; re-serialised as {rb.hex()[:24]}')
        if p.event_code != evcode or p.parameters != params or rb != b:
            return f'{what}: code / parameters not preserved (re-serialised {rb.hex()[:40]})'
        if kind == 'le' and p.subevent_code != code:
            return f'{what}: sub-event code {p.subevent_code:#x}'
        if kind == 'vendor' and p.data != params:
            return f'{what}: data not preserved'
        return None
    if p is None:
        return None
    if getattr(p, 'event_code', None) != evcode:
        return f'{what}: parsed as {type(p).__name__} with event_code {getattr(p, "event_code", None)!r}'
    if params:
        try:
            rb = bytes(p)
        except Exception as e:
            return f'{what}: re-serialisation raised {type(e).__name__}'
        if rb != b:
            return f'{what}: re-serialised as {rb.hex()[:40]}'
    return None


def gen_unknown(rng, hci, infos, n):
    ops = {i.code for i in infos if i.kind == T.KIND_COMMAND}
    evs = {i.code for i in infos if i.kind == T.KIND_EVENT} | {0x3E}
    subs = {i.code for i in infos if i.kind == T.KIND_LE_EVENT}
    out = []
    for k in range(n):
        params = rng.bytes(rng.choice([0, 1, 2, 7, 31, 255]) if rng.chance(1, 8) else rng.below(20))
        r = k % 4
        if r == 0:
            op = rng.choice([0x0000, 0xFFFF, 0xFC00, 0x3FFF, rng.below(65536)])
            if op in ops:
                continue
            out.append(bytes([1]) + op.to_bytes(2, 'little') + bytes([len(params)]) + params)
        elif r == 1:
            ev = rng.below(256)
            if ev in evs:
                continue
            out.append(bytes([4, ev, len(params)]) + params)
        elif r == 2:
            sub = rng.below(256)
            if sub in subs:
                continue
            params = (bytes([sub]) + params)[:255]
            out.append(bytes([4, 0x3E, len(params)]) + params)
        else:
            t = rng.choice([0, 6, 7, 9, 0x80, 0xFF])
            out.append(bytes([t]) + params)
    return out


def gen_data_packets(rng, hci, n):
    """ACL / SCO / ISO cases: ('fields', kind, field tuple) to be built by the real classes from
    boundary field values, and ('raw', bytes, well-formed?) header words."""
    out = []
    H12 = [0, 1, 0x0FF, 0x100, 0x7FF, 0x800, 0xEFF, 0xFFE, 0xFFF]
    for k in range(n):
        r = k % 6
        data = rng.bytes(rng.choice([0, 1, 2, 27, 255, 256, 300]) if rng.chance(1, 3) else rng.below(12))
        if r == 0:
            out.append(('fields', 'acl', (rng.choice(H12), rng.below(4), rng.below(4), len(data), data)))
        elif r == 1:
            data = data[:255]
            out.append(('fields', 'sco', (rng.choice(H12), rng.below(4), len(data), data)))
        elif r == 2:
            pb = rng.below(4)
            ts = rng.choice([None, 0, 1, 0xFFFFFFFF, 0x01020304])
            sdu = None
            if pb in (0, 2):
                sdu = (rng.choice([0, 1, 0xFFFF, 0x0102]), rng.choice([0, 1, 0xFFF, 0x123, len(data)]), rng.below(4))
            out.append(('fields', 'iso', (rng.choice(H12), pb, rng.choice([len(data), 0, 0x3FFF]), ts, sdu, data)))
        elif r == 3:
            # raw ISO with any header words; well-formed when the reserved bits are zero
            info = rng.below(65536)
            total = rng.below(65536)
            body = rng.bytes(rng.below(14))
            b = bytes([5]) + info.to_bytes(2, 'little') + total.to_bytes(2, 'little') + body
            pb = (info >> 12) & 3
            ts = (info >> 14) & 1
            pos = 4 * ts
            wf = (info >> 15) == 0 and len(body) >= pos + (4 if pb in (0, 2) else 0)
            if wf and pb in (0, 2):
                w = int.from_bytes(body[pos + 2:pos + 4], 'little')
                wf = ((w >> 12) & 3) == 0
            out.append(('raw', b, wf))
        elif r == 4:
            h = rng.below(65536)
            b = bytes([2]) + h.to_bytes(2, 'little') + len(data).to_bytes(2, 'little') + data
            if rng.chance(1, 5):
                out.append(('raw', b[:-1] if data else b + b'\x00', False))
            else:
                out.append(('raw', b, True))
        else:
            h = rng.below(65536)
            data = data[:255]
            b = bytes([3]) + h.to_bytes(2, 'little') + bytes([len(data)]) + data
            if rng.chance(1, 5):
                out.append(('raw', b + b'\x01', False))
            else:
                out.append(('raw', b, (h >> 14) == 0))
    # short headers
    for t in (1, 2, 3, 4, 5):
        for ln in range(0, 5):
            out.append(('raw', bytes([t]) + bytes(ln), False))
    return out


def build_data_packet(hci, kind, f):
    """-> (object, Coq term of the model packet)"""
    if kind == 'acl':
        h, pb, bc, total, data = f
        return (hci.HCI_AclDataPacket(h, pb, bc, total, data), f'PAcl {h} {pb} {bc} {total} {_cb(data)}')
    if kind == 'sco':
        h, st, total, data = f
        return (hci.HCI_SynchronousDataPacket(h, hci.HCI_SynchronousDataPacket.Status(st), total, data),
                f'PSco {h} {st} {total} {_cb(data)}')
    h, pb, total, ts, sdu, data = f
    obj = hci.HCI_IsoDataPacket(connection_handle=h, data_total_length=total, iso_sdu_fragment=data, pb_flag=pb,
                                time_stamp=ts, packet_sequence_number=sdu[0] if sdu else None,
                                iso_sdu_length=sdu[1] if sdu else None, packet_status_flag=sdu[2] if sdu else None)
    cts = f'(Some {ts})' if ts is not None else 'None'
    csdu = f'(Some ({sdu[0]}, {sdu[1]}, {sdu[2]}))' if sdu else 'None'
    return obj, f'PIso {h} {pb} {total} {cts} {csdu} {_cb(data)}'


# ----------------------------------------------------------------------------- hand-written classes
def phy_names(info):
    head, idx, row = info.phy
    return [n for n, _ in head] + [n for n, _ in row]


def phy_flat(info, kw):
    """keyword values of a PHY-mask command -> the model's flat value list: head values, then
    the per-PHY items one after the other (as many as the mask has bits)"""
    head, idx, row = info.phy
    out = [canon_atom(a, kw[n]) for n, a in head]
    k = bin(int(kw[head[idx][0]])).count('1')
    for i in range(k):
        for n, a in row:
            out.append(canon_atom(a, kw[n][i]))
    return out


def gen_custom(rng, hci, info):
    phys = rng.choice([0, 1, 2, 4, 3, 5, 7])
    n = bin(phys).count('1')
    u16 = lambda: rng.choice([0, 1, 255, 256, 0x7FFF, 0x8000, 0xFFFF, 0x0102])      # noqa: E731
    if info.name == 'HCI_LE_Set_Extended_Scan_Parameters_Command':
        return dict(own_address_type=rng.choice([0, 1, 255]), scanning_filter_policy=rng.choice([0, 3, 255]),
                    scanning_phys=phys, scan_types=[rng.choice([0, 1, 255]) for _ in range(n)],
                    scan_intervals=[u16() for _ in range(n)], scan_windows=[u16() for _ in range(n)])
    t = rng.choice([0, 1, 2, 3])
    return dict(initiator_filter_policy=rng.choice([0, 1, 255]), own_address_type=rng.choice([0, 1, 3, 255]),
                peer_address_type=t, peer_address=hci.Address(gen_bytes(rng, 6), hci.AddressType(t)),
                initiating_phys=phys,
                scan_intervals=[u16() for _ in range(n)], scan_windows=[u16() for _ in range(n)],
                connection_interval_mins=[u16() for _ in range(n)], connection_interval_maxs=[u16() for _ in range(n)],
                max_latencies=[u16() for _ in range(n)], supervision_timeouts=[u16() for _ in range(n)],
                min_ce_lengths=[u16() for _ in range(n)], max_ce_lengths=[u16() for _ in range(n)])


def oracle_custom(hci, info, kw):
    try:
        p = info.pycls(**kw)
        b = bytes(p)
        p2 = hci.HCI_Packet.from_bytes(b)
    except Exception as e:
        return (f'{info.name}.build', f'{info.name}: round trip raised {type(e).__name__}')
    if type(p2) is not info.pycls:
        return (f'{info.name}.class', f'{info.name}: parsed back as {type(p2).__name__}')
    for n, v in kw.items():
        if not (getattr(p2, n) == v):
            return (f'{info.name}.{n}', f'{info.name}.{n}: built with {v!r}, parsed back {getattr(p2, n)!r} (bytes {b.hex()})')
    if bytes(p2) != b:
        return (f'{info.name}.rebytes', f'{info.name}: bytes(from_bytes(b)) != b for {b.hex()}')
    return None


# ----------------------------------------------------------------------------- corpus / search / replay
def load_corpus():
    import glob
    import os
    here = os.path.dirname(os.path.dirname(os.path.dirname(os.path.abspath(__file__))))
    out = []
    for path in sorted(glob.glob(os.path.join(here, 'corpus', 'C01', '*.json'))):
        with open(path) as f:
            out.append(json.load(f))
    return out


def search(ctx):
    """Directed search after a broken obligation / disagreement: the classes named by the
    failure (all classes when none is named) get a large boundary sample through the
    property oracle."""
    hci, infos = _infos(ctx)
    rng0 = ctx.rng.fork('specfree')
    for kind, code, cls, msg in _STATE.get('failed', []):
        bad = specfree_oracle(hci, kind, code, cls, rng0, 300)
        if bad:
            ctx.violation(bad[0], bad[1], {'kind': 'specfree', 'class': cls.__name__, 'hex': bad[2].hex()})
            return
    named = set()
    text = json.dumps(ctx.disagreements, default=repr) + ' '.join(ctx.proof_failures)
    for i in infos:
        if i.name in text:
            named.add(i.name)
    rng = ctx.rng.fork('search')
    order = [i for i in infos if i.name in named] + [i for i in infos if i.name not in named]
    cmds_for_ret = {}
    for i in infos:
        if i.kind == T.KIND_COMMAND and i.ret_name:
            cmds_for_ret.setdefault(i.ret_name, []).append(i.code)
    for info in order:
        if info.custom or (info.kind == T.KIND_EVENT and info.code == 0x0E):
            continue
        for _ in range(400 if info.name in named else 40):
            vals = gen_fields(rng, hci, info.fields)
            if info.selector:
                vals[0] = rng.choice(info.selector)     # in contract: an id the vendor factory selects on
            wrap = None
            if info.kind == T.KIND_RETURN:
                if info.status_first and info.fields:
                    vals[0] = 0
                ops = cmds_for_ret.get(info.name) or [0x3FFF]
                op = rng.choice(ops)

                def wrap(o, op=op):
                    return hci.HCI_Command_Complete_Event(num_hci_command_packets=1, command_opcode=op, return_parameters=o)
            try:
                kw = kwargs_of(hci, info.fields, vals)
            except Exception:
                continue
            if not _fits(info, vals):
                continue
            bad, _ = oracle_fields(hci, info, kw, wrap)
            if bad and not bad[0].endswith('.build'):
                ctx.violation(bad[0], bad[1], {'kind': 'fields', 'class': info.name, 'values': js(vals),
                                               'num': 1, 'op': op if info.kind == T.KIND_RETURN else None})
                return
    for entry in gen_data_packets(rng, hci, 3000):
        if entry[0] == 'fields':
            try:
                obj, _ = build_data_packet(hci, entry[1], entry[2])
                ib = bytes(obj)
                p2 = hci.HCI_Packet.from_bytes(ib)
                ok = type(p2) is type(obj) and p2 == obj and bytes(p2) == ib
            except Exception:
                ok = False
            if not ok and not (entry[1] == 'iso' and entry[2][4] and entry[2][4][2] > 3):
                f = entry[2]
                ctx.violation(f'{entry[1]}.fields', f'{entry[1]} packet built from {f!r} does not round-trip',
                              {'kind': 'data-fields', 'packet': entry[1],
                               'fields': js(list(f) if not isinstance(f[-2], tuple) else [*f[:-2], list(f[-2]), f[-1]])})
                return
            continue
        b, wf = entry[1], entry[2]
        if wf:
            p = impl_parse(hci, b)
            if p is None or impl_bytes(p) != b:
                ctx.violation(f'{_sig(None, b)}.rebytes', f'bytes(from_bytes(b)) != b for {b.hex()}',
                              {'kind': 'bytes', 'hex': b.hex()})
                return


def replay(ctx, obj):
    hci, infos = _infos(ctx)
    r = obj['replay']
    if r['kind'] == 'bytes':
        b = bytes.fromhex(r['hex'])
        p = impl_parse(hci, b)
        print('from_bytes:', 'rejected' if p is None else type(p).__name__)
        if p is not None:
            b2 = impl_bytes(p)
            print('bytes(from_bytes(b)):', b2.hex() if b2 is not None else None)
            print('oracle:', 'holds' if b2 == b else 'VIOLATED: re-serialised bytes differ from the input')
        else:
            print('oracle: VIOLATED: well-formed packet rejected')
        return 0
    if r['kind'] == 'synthetic':
        pyfields = SYNTHETIC_FIELDS[r['index']]
        fields = T.fields_of(hci, pyfields, 'synthetic')
        vals = unjs(r['values'])
        ib = bytes(hci.HCI_Object(pyfields, **kwargs_of(hci, fields, vals)))
        try:
            back = canon_obj(fields, type('O', (), hci.HCI_Object.dict_from_bytes(ib, 0, pyfields))())
        except Exception as e:
            back = 'rejected: ' + type(e).__name__
        print('values:', vals, '\nbytes:', ib.hex(), '\nparsed back:', back)
        print('oracle:', 'holds' if back == vals else 'VIOLATED: field values differ after the round trip')
        return 0
    if r['kind'] == 'data-fields':
        f = unjs(r['fields'])
        if r['packet'] == 'iso':
            f = [*f[:4], tuple(f[4]) if f[4] is not None else None, f[5]]
        obj, _ = build_data_packet(hci, r['packet'], tuple(f))
        ib = impl_bytes(obj)
        p2 = impl_parse(hci, ib) if ib is not None else None
        print('built:', obj, '\nbytes:', ib.hex() if ib else None, '\nparsed back:', p2)
        ok = p2 is not None and type(p2) is type(obj) and p2 == obj and impl_bytes(p2) == ib
        print('oracle:', 'holds' if ok else 'VIOLATED: the data packet does not round-trip')
        return 0
    if r['kind'] == 'pair':
        b1, b2 = bytes.fromhex(r['first']), bytes.fromhex(r['second'])
        p1 = impl_parse(hci, b1)
        before = impl_bytes(p1)
        impl_parse(hci, b2)
        after = impl_bytes(p1)
        print('first packet serialised before / after parsing the second:', before.hex(), '/', after.hex())
        print('oracle:', 'holds' if before == after else 'VIOLATED: an earlier packet changed when a later one was parsed')
        return 0
    if r['kind'] == 'sweep':
        b = bytes.fromhex(r['hex'])
        p = impl_parse(hci, b)
        print('from_bytes:', 'rejected' if p is None else f'{type(p).__name__} event_code={getattr(p, "event_code", None)!r}')
        if p is not None:
            print('bytes(from_bytes(b)):', (impl_bytes(p) or b'').hex())
        bad = sweep_oracle(hci, r['code_kind'], r['code'], r['registered'], p, b)
        print('oracle:', 'holds' if not bad else 'VIOLATED: ' + bad)
        return 0
    if r['kind'] == 'specfree':
        b = bytes.fromhex(r['hex'])
        p = hci.HCI_Packet.from_bytes(b)
        cls = type(p)
        kw = {n_: getattr(p, n_) for n_ in flat_names(cls.fields)}
        b2 = bytes(cls(**kw))
        print('values parsed from', b.hex(), ':', kw)
        print('re-serialised:', b2.hex())
        try:
            p3 = hci.HCI_Packet.from_bytes(b2)
            bad = [n_ for n_ in kw if not (getattr(p3, n_) == kw[n_])]
            print('oracle:', 'holds' if not bad and type(p3) is cls else f'VIOLATED: fields {bad} differ after the round trip')
        except Exception as e:
            print('oracle: VIOLATED: re-serialised packet rejected:', type(e).__name__)
        return 0
    info = next(i for i in infos if i.name == r['class'])
    if r['kind'] == 'custom':
        kw = {}
        for k, v in r['values'].items():
            v = unjs(v)
            kw[k] = hci.Address(v[2], hci.AddressType(v[1])) if isinstance(v, tuple) else v
        bad = oracle_custom(hci, info, kw)
    else:
        vals = unjs(r['values'])
        kw = kwargs_of(hci, info.fields, vals)
        wrap = None
        if info.kind == T.KIND_RETURN:
            def wrap(o):
                return hci.HCI_Command_Complete_Event(num_hci_command_packets=r.get('num') or 1,
                                                      command_opcode=r.get('op') or 0x3FFF, return_parameters=o)
        bad, _ = oracle_fields(hci, info, kw, wrap)
    print('oracle:', 'holds' if not bad else 'VIOLATED: ' + bad[1])
    return 0
