"""C06 — the virtual link (bumble/link.py LocalLink + bumble/controller.py Controller):
correspondence with the Coq model Model/Link.v and the property oracle on the implementation.

Every scenario runs 2-4 REAL Device + Host + Controller stacks on one REAL LocalLink inside a
deterministic event loop (frozen clock, so no timer ever fires by itself).  Class-level logging
wrappers (installed in this process only) record every atomic controller callback as a model
label: HCI command / ACL packet from the host, advertising timer, link message delivery.  The
loop intercepts the call_soon that LocalLink uses for a delivery: the message is held and the
scenario's schedule decides when it is delivered (per-(source,destination) FIFO, otherwise any
delay).  The recorded label list is replayed on the Coq model (vm_compute) and, per label, the
HCI events of every controller and the messages put on the link are compared, plus the final
connection tables.  The Device glue is exercised, not modelled: the model is driven by the HCI
commands the real hosts actually sent.

The oracle speaks only about Device-level observables (connection / disconnection events,
payloads received on a fixed L2CAP channel, advertisement events, results of connect())."""
import asyncio
import json
import logging
import os

from lib.verif import coq_list, coq_z

PROP_FILES = ['Props/C06.v']
LEVEL = 'partial'

logging.disable(logging.CRITICAL)
import warnings
warnings.simplefilter('ignore')

FIXED_CID = 0x3F
SETTLE_BUDGET = 3000          # loop turns per settle before a hang is reported
MAX_PAYLOAD = 23              # one ACL packet (fragmentation belongs to C05)


def regen(ctx):
    """translator obligation: the tables allocate_connection_handle consults vs the tables in which a
    connection handle can be resolved, read from the current bumble/controller.py (fail closed)"""
    from translate.c06_handles import coq_text
    ctx.write_gen('C06Handles', coq_text(ctx.repo))
    # the shape of every anchored function (comparisons, table stores / deletes, calls, constructor arguments)
    from translate import c06_shape
    ctx.write_gen('C06Shape', c06_shape.coq_text(ctx.repo))


class Unsupported(Exception):
    """The implementation did something the model has no label for: fail closed."""


# ----------------------------------------------------------------------------- encoding
def enc_addr(a):
    return int.from_bytes(bytes(a.address_bytes), 'little') * 2 + (1 if a.is_public else 0)


def pub_str(i):
    return ':'.join([f'F{i}'] * 6)


def rnd_str(i):
    return ':'.join([f'C{i}'] * 6)


def rnd_str_n(i, n):
    """the n-th random address device i takes later on (n >= 1), a static random address"""
    return ':'.join([f'D{i}'] * 5 + [f'{n:02X}'])


def set_str(i, n):
    """random address of the n-th advertising set of device i that has one of its own"""
    return ':'.join([f'E{i}'] * 5 + [f'{n:02X}'])


def target_addr(target, cur_rnd):
    """scenario target -> bumble Address.  ['pub', j] / ['none', j]: public address; ['rnd', j]: the random
    address device j has at this moment; ['set', j, n]: the own random address of an advertising set"""
    from bumble.hci import Address
    kind = target[0]
    if kind in ('pub', 'none'):
        return Address(pub_str(target[1]), Address.PUBLIC_DEVICE_ADDRESS)
    if kind == 'set':
        return Address(set_str(target[1], target[2]))
    return Address(cur_rnd[target[1]])


# ----------------------------------------------------------------------------- event loop
class VLoop(asyncio.SelectorEventLoop):
    """Frozen virtual clock; call_soon made from inside a LocalLink send is captured."""

    def __init__(self):
        super().__init__()
        self.rec = None

    def time(self):
        return 1000.0

    def call_soon(self, callback, *args, context=None):
        rec = self.rec
        if rec is not None and rec.in_link is not None:
            if rec.hold(callback, args):
                return asyncio.Handle(callback, args, self)
        return super().call_soon(callback, *args, context=context)

    def really_soon(self, callback, *args):
        return super().call_soon(callback, *args)


# ----------------------------------------------------------------------------- recorder
class Recorder:
    """Current scenario's log; the class-level wrappers write into the active one."""
    active = None

    def __init__(self, controllers):
        self.ctrl = controllers
        self.index = {id(c): i for i, c in enumerate(controllers)}
        self.labels = []          # model labels, in execution order
        self.events = []          # per label: list of (ctrl, event)
        self.sent = []            # per label: list of (src, dst, msg) captured
        self.cur = None           # index of the label being executed
        self.cur_ctrl = None
        self.last_label_of = {}   # ctrl -> last label index (late events go there)
        self.in_link = None       # descriptor of the link send in progress
        self.held = []            # messages in flight: dict(src,dst,msg,cb,args)
        self.new_held = []
        self.releasing = None
        self.errors = []
        self.unsupported = None
        self.seen_commands = set()

    # --- labels
    def begin(self, ci, label):
        if self.cur is not None:
            raise Unsupported(f'nested controller callbacks: {label} inside {self.labels[self.cur]}')
        self.labels.append(label)
        self.events.append([])
        self.sent.append([])
        self.cur = len(self.labels) - 1
        self.cur_ctrl = ci
        self.last_label_of[ci] = self.cur
        self.new_held = []

    def end(self):
        # canonical order of one step's sends: by destination (LocalLink iterates a set)
        self.new_held.sort(key=lambda m: m['dst'])
        for m in self.new_held:
            self.sent[self.cur].append((m['src'], m['dst'], m['msg']))
        self.held.extend(self.new_held)
        self.new_held = []
        self.cur = None
        self.cur_ctrl = None

    def event(self, ci, e):
        if self.cur is not None and self.cur_ctrl == ci:
            self.events[self.cur].append((ci, e))
        elif ci in self.last_label_of:
            self.events[self.last_label_of[ci]].append((ci, e))
        else:
            raise Unsupported(f'event {e} of controller {ci} before any label')

    # --- link capture
    def hold(self, callback, args):
        d = self.in_link
        if d is None or d.get('passthrough'):
            return False
        if self.cur is None:
            raise Unsupported('link send outside a controller callback')
        dst = self._dst_of(callback, args)
        msg = d['msg']
        if msg[0] == 'MAcl':
            try:
                src_addr = _freevar(callback, 'source_address')
            except KeyError:
                from bumble.hci import Address
                src_addr = next((a for a in args if isinstance(a, Address)), None)
            msg = ('MAcl', None if src_addr is None else enc_addr(src_addr), msg[2], msg[3])
        self.new_held.append({'src': self.cur_ctrl, 'dst': dst, 'msg': msg, 'cb': callback, 'args': args})
        return True

    def _dst_of(self, callback, args):
        from bumble.controller import Controller
        owner = getattr(callback, '__self__', None)
        if isinstance(owner, Controller):
            return self.index[id(owner)]
        for name in ('destination_controller', 'receiver_controller'):
            try:
                c = _freevar(callback, name)
            except KeyError:
                continue
            return self.index[id(c)]
        raise Unsupported('cannot tell the destination of a link delivery')


def _freevar(fn, name):
    code = getattr(fn, '__code__', None)
    if code is None or name not in code.co_freevars:
        raise KeyError(name)
    return fn.__closure__[code.co_freevars.index(name)].cell_contents


# commands that do not touch the modelled state (names as in bumble.hci)
IGNORED_COMMANDS = {
    'HCI_RESET_COMMAND', 'HCI_READ_LOCAL_SUPPORTED_COMMANDS_COMMAND', 'HCI_READ_LOCAL_SUPPORTED_FEATURES_COMMAND',
    'HCI_READ_LOCAL_VERSION_INFORMATION_COMMAND', 'HCI_READ_BD_ADDR_COMMAND', 'HCI_READ_BUFFER_SIZE_COMMAND',
    'HCI_LE_READ_BUFFER_SIZE_COMMAND', 'HCI_LE_READ_BUFFER_SIZE_V2_COMMAND',
    'HCI_LE_READ_LOCAL_SUPPORTED_FEATURES_COMMAND', 'HCI_LE_READ_ALL_LOCAL_SUPPORTED_FEATURES_COMMAND',
    'HCI_SET_EVENT_MASK_COMMAND', 'HCI_SET_EVENT_MASK_PAGE_2_COMMAND', 'HCI_LE_SET_EVENT_MASK_COMMAND',
    'HCI_WRITE_LE_HOST_SUPPORT_COMMAND', 'HCI_READ_LOCAL_EXTENDED_FEATURES_COMMAND',
    'HCI_LE_READ_SUGGESTED_DEFAULT_DATA_LENGTH_COMMAND', 'HCI_LE_WRITE_SUGGESTED_DEFAULT_DATA_LENGTH_COMMAND',
    'HCI_LE_READ_MAXIMUM_DATA_LENGTH_COMMAND', 'HCI_LE_SET_DEFAULT_PHY_COMMAND',
    'HCI_LE_CLEAR_RESOLVING_LIST_COMMAND', 'HCI_LE_ADD_DEVICE_TO_RESOLVING_LIST_COMMAND',
    'HCI_LE_SET_ADDRESS_RESOLUTION_ENABLE_COMMAND', 'HCI_LE_SET_RESOLVABLE_PRIVATE_ADDRESS_TIMEOUT_COMMAND',
    'HCI_WRITE_LOCAL_NAME_COMMAND', 'HCI_WRITE_CLASS_OF_DEVICE_COMMAND', 'HCI_WRITE_SIMPLE_PAIRING_MODE_COMMAND',
    'HCI_WRITE_SCAN_ENABLE_COMMAND', 'HCI_WRITE_EXTENDED_INQUIRY_RESPONSE_COMMAND',
    'HCI_WRITE_SECURE_CONNECTIONS_HOST_SUPPORT_COMMAND', 'HCI_WRITE_AUTHENTICATED_PAYLOAD_TIMEOUT_COMMAND',
    'HCI_LE_READ_REMOTE_FEATURES_COMMAND', 'HCI_READ_REMOTE_SUPPORTED_FEATURES_COMMAND',
    'HCI_READ_REMOTE_EXTENDED_FEATURES_COMMAND', 'HCI_LE_SET_HOST_FEATURE_COMMAND',
    'HCI_LE_READ_MAXIMUM_ADVERTISING_DATA_LENGTH_COMMAND', 'HCI_LE_READ_NUMBER_OF_SUPPORTED_ADVERTISING_SETS_COMMAND',
    'HCI_SET_CONTROLLER_TO_HOST_FLOW_CONTROL_COMMAND', 'HCI_HOST_BUFFER_SIZE_COMMAND',
    'HCI_READ_LE_HOST_SUPPORT_COMMAND', 'HCI_LE_READ_PHY_COMMAND', 'HCI_LE_RAND_COMMAND',
    'HCI_LE_READ_LOCAL_P_256_PUBLIC_KEY_COMMAND', 'HCI_LE_READ_SUPPORTED_STATES_COMMAND',
    'HCI_LE_CLEAR_FILTER_ACCEPT_LIST_COMMAND', 'HCI_LE_READ_FILTER_ACCEPT_LIST_SIZE_COMMAND',
    'HCI_LE_READ_RESOLVING_LIST_SIZE_COMMAND', 'HCI_LE_READ_TRANSMIT_POWER_COMMAND',
    'HCI_READ_LOCAL_NAME_COMMAND', 'HCI_READ_CLASS_OF_DEVICE_COMMAND', 'HCI_WRITE_PAGE_TIMEOUT_COMMAND',
    'HCI_WRITE_INQUIRY_MODE_COMMAND', 'HCI_WRITE_DEFAULT_LINK_POLICY_SETTINGS_COMMAND',
    'HCI_WRITE_SYNCHRONOUS_FLOW_CONTROL_ENABLE_COMMAND', 'HCI_READ_SYNCHRONOUS_FLOW_CONTROL_ENABLE_COMMAND',
    'HCI_WRITE_CONNECTION_ACCEPT_TIMEOUT_COMMAND', 'HCI_WRITE_PAGE_SCAN_ACTIVITY_COMMAND',
    'HCI_WRITE_INQUIRY_SCAN_ACTIVITY_COMMAND', 'HCI_READ_ENCRYPTION_KEY_SIZE_COMMAND',
    'HCI_LE_SET_PRIVACY_MODE_COMMAND', 'HCI_LE_SET_DEFAULT_SUBRATE_COMMAND',
    'HCI_REJECT_CONNECTION_REQUEST_COMMAND',     # no handler in the controller: answered as unknown, nothing changes
}

# events that carry nothing the property talks about
IGNORED_EVENTS = {
    'HCI_Command_Complete_Event', 'HCI_LE_Read_Remote_Features_Complete_Event',
    'HCI_Read_Remote_Supported_Features_Complete_Event', 'HCI_Read_Remote_Extended_Features_Complete_Event',
    'HCI_Encryption_Change_Event', 'HCI_Role_Change_Event',
}


def command_label(ci, packet):
    """HCI packet from host ci -> model label (tuple), or None when it is ignored."""
    from bumble import hci
    if isinstance(packet, hci.HCI_AclDataPacket):
        data = bytes(packet.data)
        if packet.pb_flag not in (0, 2) or len(data) < 4 or int.from_bytes(data[:2], 'little') + 4 != len(data):
            raise Unsupported('fragmented ACL packet from the host (outside the C06 model, see C05)')
        return ('LAcl', ci, packet.connection_handle, list(data))
    if not isinstance(packet, hci.HCI_Command):
        raise Unsupported(f'unexpected packet from host: {type(packet).__name__}')
    name = packet.name
    c = packet
    if name == 'HCI_LE_SET_RANDOM_ADDRESS_COMMAND':
        return ('LSetRandom', ci, enc_addr(c.random_address))
    if name == 'HCI_LE_SET_ADVERTISING_PARAMETERS_COMMAND':
        return ('LAdvParams', ci, int(c.own_address_type) == 0, int(c.advertising_type) == 0)
    if name == 'HCI_LE_SET_ADVERTISING_DATA_COMMAND':
        return ('LAdvData', ci, list(bytes(c.advertising_data)))
    if name == 'HCI_LE_SET_SCAN_RESPONSE_DATA_COMMAND':
        return ('LScanRsp', ci, list(bytes(c.scan_response_data)))
    if name == 'HCI_LE_SET_ADVERTISING_ENABLE_COMMAND':
        return ('LAdvEnable', ci, bool(c.advertising_enable))
    if name == 'HCI_LE_SET_ADVERTISING_SET_RANDOM_ADDRESS_COMMAND':
        return ('LExtRandom', ci, c.advertising_handle, enc_addr(c.random_address))
    if name == 'HCI_LE_SET_EXTENDED_ADVERTISING_PARAMETERS_COMMAND':
        return ('LExtParams', ci, c.advertising_handle, int(c.own_address_type) == 0)
    if name in ('HCI_LE_SET_EXTENDED_ADVERTISING_DATA_COMMAND', 'HCI_LE_SET_EXTENDED_SCAN_RESPONSE_DATA_COMMAND'):
        op = int(c.operation)
        data = bytes(c.advertising_data if name.endswith('ADVERTISING_DATA_COMMAND') else c.scan_response_data)
        if op in (1, 3):
            first = True
        elif op in (0, 2):
            first = False
        else:
            first = None
        kind = 'LExtData' if name.endswith('ADVERTISING_DATA_COMMAND') else 'LExtSrsp'
        if first is None:
            # operation 4 (unchanged data): the handler changes nothing for a known set
            return None
        return (kind, ci, c.advertising_handle, first, list(data))
    if name == 'HCI_LE_SET_EXTENDED_ADVERTISING_ENABLE_COMMAND':
        return ('LExtEnable', ci, bool(c.enable), [int(h) for h in c.advertising_handles])
    if name == 'HCI_LE_REMOVE_ADVERTISING_SET_COMMAND':
        return ('LExtRemove', ci, c.advertising_handle)
    if name == 'HCI_LE_CLEAR_ADVERTISING_SETS_COMMAND':
        return ('LExtClear', ci)
    if name == 'HCI_LE_SET_SCAN_PARAMETERS_COMMAND':
        return ('LScanParams', ci, int(c.le_scan_type) == 1)
    if name == 'HCI_LE_SET_SCAN_ENABLE_COMMAND':
        return ('LScanEnable', ci, bool(c.le_scan_enable))
    if name in ('HCI_LE_CREATE_CONNECTION_COMMAND', 'HCI_LE_EXTENDED_CREATE_CONNECTION_COMMAND'):
        return ('LConnect', ci, enc_addr(c.peer_address), int(c.own_address_type) == 0)
    if name == 'HCI_LE_CREATE_CONNECTION_CANCEL_COMMAND':
        return ('LCancel', ci)
    if name == 'HCI_DISCONNECT_COMMAND':
        return ('LDisconnect', ci, c.connection_handle, int(c.reason))
    if name == 'HCI_CREATE_CONNECTION_COMMAND':
        return ('LClConnect', ci, enc_addr(c.bd_addr))
    if name == 'HCI_ACCEPT_CONNECTION_REQUEST_COMMAND':
        if int(c.role) != 1:
            raise Unsupported('accept with role switch is not modelled')
        return ('LClAccept', ci, enc_addr(c.bd_addr))
    if name == 'HCI_ENHANCED_SETUP_SYNCHRONOUS_CONNECTION_COMMAND':
        return ('LScoSetup', ci, c.connection_handle)
    if name == 'HCI_ENHANCED_ACCEPT_SYNCHRONOUS_CONNECTION_REQUEST_COMMAND':
        return ('LScoAccept', ci, enc_addr(c.bd_addr))
    if name == 'HCI_LE_SET_CIG_PARAMETERS_COMMAND':
        return ('LSetCig', ci, int(c.cig_id), [int(x) for x in c.cis_id])
    if name == 'HCI_LE_REMOVE_CIG_COMMAND':
        return ('LRemoveCig', ci, int(c.cig_id))
    if name in IGNORED_COMMANDS:
        return None
    raise Unsupported(f'HCI command without a model label: {name}')


STATUS_COMMANDS = None


def event_of(packet):
    """HCI packet to the host -> list of model events ([] when ignored)."""
    from bumble import hci
    global STATUS_COMMANDS
    if STATUS_COMMANDS is None:
        STATUS_COMMANDS = {hci.HCI_LE_CREATE_CONNECTION_COMMAND, hci.HCI_LE_EXTENDED_CREATE_CONNECTION_COMMAND,
                           hci.HCI_DISCONNECT_COMMAND, hci.HCI_CREATE_CONNECTION_COMMAND,
                           hci.HCI_ACCEPT_CONNECTION_REQUEST_COMMAND,
                           hci.HCI_ENHANCED_SETUP_SYNCHRONOUS_CONNECTION_COMMAND,
                           hci.HCI_ENHANCED_ACCEPT_SYNCHRONOUS_CONNECTION_REQUEST_COMMAND}
    t = type(packet).__name__
    if isinstance(packet, hci.HCI_AclDataPacket):
        return [('EAcl', packet.connection_handle, list(bytes(packet.data)))]
    if t == 'HCI_Command_Status_Event':
        if packet.command_opcode in STATUS_COMMANDS:
            return [('EStatus', int(packet.status))]
        return []
    if t == 'HCI_LE_Connection_Complete_Event':
        if int(packet.status) != 0:
            return [('ELeConnFail', int(packet.status), enc_addr(packet.peer_address))]
        return [('ELeConn', packet.connection_handle, int(packet.role) == 0, enc_addr(packet.peer_address))]
    if t == 'HCI_LE_Advertising_Set_Terminated_Event':
        return [('ESetTerminated', packet.advertising_handle, packet.connection_handle)]
    if t == 'HCI_Disconnection_Complete_Event':
        return [('EDisc', packet.connection_handle, int(packet.reason))]
    if t == 'HCI_Number_Of_Completed_Packets_Event':
        out = []
        for h, k in zip(packet.connection_handles, packet.num_completed_packets):
            out += [('ECompleted', h)] * int(k)
        return out
    if t == 'HCI_LE_Advertising_Report_Event':
        return [('EAdvReport', False, int(r.event_type) == 4, enc_addr(r.address), list(bytes(r.data)))
                for r in packet.reports]
    if t == 'HCI_LE_Extended_Advertising_Report_Event':
        return [('EAdvReport', True, bool(int(r.event_type) & 0x08), enc_addr(r.address), list(bytes(r.data)))
                for r in packet.reports]
    if t == 'HCI_Connection_Request_Event':
        if int(packet.link_type) == 2:
            return [('EScoReq', enc_addr(packet.bd_addr))]
        if int(packet.link_type) != 1:
            raise Unsupported('SCO (not eSCO) connection request')
        return [('EClReq', enc_addr(packet.bd_addr))]
    if t == 'HCI_Synchronous_Connection_Complete_Event':
        if int(packet.status) != 0 or int(packet.link_type) != 2:
            raise Unsupported('synchronous connection complete: error status or not eSCO')
        return [('EScoConn', packet.connection_handle, enc_addr(packet.bd_addr))]
    if t == 'HCI_Command_Complete_Event' and packet.command_opcode == hci.HCI_LE_SET_CIG_PARAMETERS_COMMAND:
        rp = packet.return_parameters
        if int(rp.status) != 0:
            raise Unsupported('LE Set CIG Parameters failed')
        return [('ECig', [int(h) for h in rp.connection_handle])]
    if t == 'HCI_Connection_Complete_Event':
        if int(packet.status) != 0:
            return [('EClFail', int(packet.status), enc_addr(packet.bd_addr))]
        return [('EClConn', packet.connection_handle, enc_addr(packet.bd_addr))]
    if t in IGNORED_EVENTS:
        return []
    raise Unsupported(f'HCI event without a model counterpart: {t}')


_installed = False


def install():
    """Class-level logging wrappers around the real methods (this process only)."""
    global _installed
    if _installed:
        return
    _installed = True
    from bumble import controller as bc, hci, ll, lmp, link as bl
    C = bc.Controller

    def rec_of(ctrl):
        r = Recorder.active
        if r is None or id(ctrl) not in r.index:
            return None, None
        return r, r.index[id(ctrl)]

    def guarded(r, fn, *a):
        """run one atomic controller callback; an escaping exception is an EError event"""
        try:
            return fn(*a)
        except Unsupported as e:
            r.unsupported = r.unsupported or str(e)
        except Exception as e:  # noqa: the model predicts where the code raises
            r.events[r.cur].append((r.cur_ctrl, ('EError',)))
            r.errors.append(type(e).__name__)
        finally:
            r.end()

    orig_on_packet = C.on_packet

    def on_packet(self, packet):
        r, ci = rec_of(self)
        if r is None:
            return orig_on_packet(self, packet)
        try:
            p = hci.HCI_Packet.from_bytes(packet)
            if isinstance(p, hci.HCI_Command):
                r.seen_commands.add(p.name)
            label = command_label(ci, p)
        except Unsupported as e:
            r.unsupported = r.unsupported or str(e)
            label = None
        if label is None:
            return orig_on_packet(self, packet)
        r.begin(ci, label)
        return guarded(r, orig_on_packet, self, packet)
    C.on_packet = on_packet

    orig_send = C.send_hci_packet

    def send_hci_packet(self, packet):
        r, ci = rec_of(self)
        if r is not None:
            try:
                for e in event_of(packet):
                    r.event(ci, e)
            except Unsupported as e:
                r.unsupported = r.unsupported or str(e)
        return orig_send(self, packet)
    C.send_hci_packet = send_hci_packet

    def delivery(name):
        orig = getattr(C, name)

        def wrapper(self, *a, **kw):
            r, ci = rec_of(self)
            if r is None or r.releasing is None:
                return orig(self, *a, **kw)          # unmodelled traffic passes through
            k = r.releasing
            r.releasing = None
            r.begin(ci, ('LDeliver', k))
            return guarded(r, lambda: orig(self, *a, **kw))
        setattr(C, name, wrapper)
    for name in ('on_ll_advertising_pdu', 'on_ll_control_pdu', 'on_link_acl_data', 'on_lmp_packet'):
        delivery(name)

    orig_leg = bc.LegacyAdvertiser._on_timer_fired

    def leg_fired(self):
        r, ci = rec_of(self.controller)
        if r is None:
            return orig_leg(self)
        r.begin(ci, ('LTick', ci))
        return guarded(r, orig_leg, self)
    bc.LegacyAdvertiser._on_timer_fired = leg_fired

    orig_ext = bc.AdvertisingSet._on_extended_advertising_timer_fired

    def ext_fired(self):
        r, ci = rec_of(self.controller)
        if r is None:
            return orig_ext(self)
        r.begin(ci, ('LExtTick', ci, self.handle))
        return guarded(r, orig_ext, self)
    bc.AdvertisingSet._on_extended_advertising_timer_fired = ext_fired

    # LocalLink sends: describe the message, then let the real method route it
    L = bl.LocalLink

    def link_wrap(name, describe):
        orig = getattr(L, name)

        def wrapper(self, *a, **kw):
            r = Recorder.active
            if r is None:
                return orig(self, *a, **kw)
            prev = r.in_link
            try:
                r.in_link = describe(*a, **kw)
            except Unsupported as e:
                r.unsupported = r.unsupported or str(e)
                r.in_link = {'passthrough': True}
            try:
                return orig(self, *a, **kw)
            finally:
                r.in_link = prev
        setattr(L, name, wrapper)

    def d_acl(sender_controller, destination_address, transport, data):
        return {'msg': ('MAcl', None, int(transport) == 1, list(bytes(data)))}

    def d_adv(sender_controller, packet):
        if isinstance(packet, ll.ConnectInd):
            return {'msg': ('MConnInd', enc_addr(packet.initiator_address), enc_addr(packet.advertiser_address))}
        if type(packet) is ll.AdvInd:
            srsp = getattr(packet, 'scan_response_data', None)
            return {'msg': ('MAdv', enc_addr(packet.advertiser_address), list(bytes(packet.data)),
                            None if srsp is None else list(bytes(srsp)))}
        raise Unsupported(f'advertising PDU {type(packet).__name__}')

    def d_ctl(sender_address, receiver_address, packet):
        if isinstance(packet, ll.TerminateInd):
            return {'msg': ('MTerm', enc_addr(sender_address), int(packet.error_code))}
        return {'passthrough': True}

    def d_lmp(sender_controller, receiver_address, packet):
        pub = enc_addr(sender_controller.public_address)
        if isinstance(packet, lmp.LmpHostConnectionReq):
            return {'msg': ('MLmpConnReq', pub)}
        if isinstance(packet, lmp.LmpAccepted) and packet.response_opcode == lmp.Opcode.LMP_HOST_CONNECTION_REQ:
            return {'msg': ('MLmpAccepted', pub)}
        if isinstance(packet, lmp.LmpDetach):
            return {'msg': ('MLmpDetach', pub, int(packet.error_code))}
        if isinstance(packet, lmp.LmpEscoLinkReq):
            return {'msg': ('MLmpEscoReq', pub)}
        if isinstance(packet, lmp.LmpAcceptedExt) and packet.response_opcode == lmp.Opcode.LMP_ESCO_LINK_REQ:
            return {'msg': ('MLmpAcceptedEsco', pub)}
        if isinstance(packet, (lmp.LmpRemoveScoLinkReq, lmp.LmpRemoveEscoLinkReq)):
            return {'msg': ('MLmpRemoveSco', pub, int(packet.error_code))}
        if isinstance(packet, (lmp.LmpFeaturesReq, lmp.LmpFeaturesRes, lmp.LmpFeaturesReqExt,
                               lmp.LmpFeaturesResExt, lmp.LmpNameReq, lmp.LmpNameRes)):
            return {'passthrough': True}
        raise Unsupported(f'LMP packet {type(packet).__name__}')

    link_wrap('send_acl_data', d_acl)
    link_wrap('send_advertising_pdu', d_adv)
    link_wrap('send_ll_control_pdu', d_ctl)
    link_wrap('send_lmp_packet', d_lmp)


# ----------------------------------------------------------------------------- scenario execution
class World:
    """n real stacks on one real LocalLink, plus the Device-level observation log."""

    def __init__(self, cfg):
        self.cfg = cfg
        self.n = cfg['n']

    async def build(self):
        from bumble.controller import Controller
        from bumble.device import Device
        from bumble.hci import Address, LeFeatureMask
        from bumble.host import Host
        from bumble.link import LocalLink
        from bumble.transport.common import AsyncPipeSink
        n = self.n
        self.link = LocalLink()
        self.ctrl = []
        for i in range(n):
            c = Controller(f'C{i}', link=self.link, public_address=pub_str(i))
            if self.cfg['ext'][i]:
                c.le_features = c.le_features | LeFeatureMask.LE_EXTENDED_ADVERTISING
            self.ctrl.append(c)
        self.rec = Recorder(self.ctrl)
        Recorder.active = self.rec
        asyncio.get_running_loop().rec = self.rec
        self.dev = []
        self.obs = [[] for _ in range(n)]        # per device: observation log
        self.conns = [[] for _ in range(n)]      # per device: Connection objects in event order
        self.scos = [[] for _ in range(n)]       # per device: ScoLink objects in event order
        self.cigs = [{} for _ in range(n)]       # per device: cig id -> CIS handles
        self.tasks = []                          # (kind, device, target, task)
        self.pub = [enc_addr(Address(pub_str(i), Address.PUBLIC_DEVICE_ADDRESS)) for i in range(n)]
        self.rnd = [enc_addr(Address(rnd_str(i))) for i in range(n)]       # random address at power-on
        self.cur_rnd = [rnd_str(i) for i in range(n)]                        # random address now
        self.addrs = [{self.pub[i], self.rnd[i]} for i in range(n)]          # every address device i ever used
        for i in range(n):
            d = Device(address=Address(rnd_str(i)), host=Host(self.ctrl[i], AsyncPipeSink(self.ctrl[i])))
            d.classic_enabled = True
            d.classic_accept_any = True
            self.dev.append(d)
        for i, d in enumerate(self.dev):
            await d.power_on()
            d.l2cap_channel_manager.register_fixed_channel(
                FIXED_CID, lambda h, pdu, i=i: self.obs[i].append(('rx', h, list(bytes(pdu)))))
            d.on('connection', lambda c, i=i: self._on_conn(i, c))
            d.on('sco_request', lambda c, link_type, i=i: self._on_sco_request(i, c, link_type))
            d.on('sco_connection', lambda l, i=i: self._on_sco(i, l))
            # a.data is the (merged) list of AD structures the application reads
            d.on('advertisement', lambda a, i=i: self.obs[i].append(
                ('adv', enc_addr(a.address), list(bytes(a.data)), bool(a.is_scan_response))))

    def _on_conn(self, i, c):
        self.conns[i].append(c)
        k = len(self.conns[i]) - 1
        self.obs[i].append(('conn', k, c.handle, enc_addr(c.peer_address), int(c.role) == 0, int(c.transport) == 1))
        if int(c.transport) == 0 and int(c.role) == 0:
            # BR/EDR: the paged device answers before the initiator completes, so at this moment the peer must
            # already hold (and have reported) its end of the connection
            j = self.owner(enc_addr(c.peer_address))
            held = j is not None and any(int(x.transport) == 0 and enc_addr(x.peer_address) in self.addrs[i]
                                         for x in self.dev[j].connections.values())
            if not held:
                self.obs[i].append(('early', k, j))
        c.on('disconnection', lambda reason, i=i, k=k, c=c: self.obs[i].append(('disc', k, c.handle, int(reason))))

    def _on_sco_request(self, i, connection, link_type):
        # the application accepts every synchronous connection request (as tests/hfp_test.py does)
        from bumble import hci, hfp
        params = hfp.ESCO_PARAMETERS[hfp.DefaultCodecParameters.ESCO_CVSD_S1]
        self.tasks.append(('sco_accept', i, None, asyncio.ensure_future(self.dev[i].send_command(
            hci.HCI_Enhanced_Accept_Synchronous_Connection_Request_Command(
                bd_addr=connection.peer_address, **params.asdict())))))

    def _on_sco(self, i, l):
        self.scos[i].append(l)
        k = len(self.scos[i]) - 1
        self.obs[i].append(('sco', k, l.handle, enc_addr(l.acl_connection.peer_address)))
        l.on('disconnection', lambda reason, i=i, k=k, l=l: self.obs[i].append(('sdisc', k, l.handle, int(reason))))

    def live_snapshot(self):
        return [sorted(self.live_links(i)) for i in range(self.n)]

    def live_links(self, i):
        """links of device i that have been announced and not reported gone, from the observation log:
        list of (kind, index, handle)"""
        live = []
        for o in self.obs[i]:
            if o[0] == 'conn':
                live.append(('acl', o[1], o[2]))
            elif o[0] == 'sco':
                live.append(('sco', o[1], o[2]))
            elif o[0] == 'disc':
                live = [x for x in live if not (x[0] == 'acl' and x[1] == o[1])]
            elif o[0] == 'sdisc':
                live = [x for x in live if not (x[0] == 'sco' and x[1] == o[1])]
        return live

    async def settle(self):
        loop = asyncio.get_running_loop()
        for _ in range(SETTLE_BUDGET):
            await asyncio.sleep(0)
            if not loop._ready:
                return True
        return False

    def owner(self, addr):
        for i in range(self.n):
            if addr in self.addrs[i]:
                return i
        return None

    def mine(self, i):
        return tuple(sorted(self.addrs[i]))


def deliverable(held):
    """indices whose (src,dst) pair has no older message waiting"""
    seen = set()
    out = []
    for k, m in enumerate(held):
        key = (m['src'], m['dst'])
        if key not in seen:
            out.append(k)
            seen.add(key)
    return out


class Hang(Exception):
    pass


async def run_ops(cfg, ops_source):
    """Run one scenario.  ops_source(world) yields ops; each op is a JSON list.  Returns world."""
    from bumble import hci
    from bumble.core import PhysicalTransport
    from bumble.device import AdvertisingParameters
    w = World(cfg)
    await w.build()
    if not await w.settle():
        raise Hang('power on')
    w.ops = []
    w.windows = []           # (device, kind, index, live links before, live links after) per disconnect
    w.last_adv_addr = [None] * w.n
    w.adv_log = []           # (device, encoded address, data, data + scan response) of every advertising start
    w.target_enc = []        # encoded address of every connect target, resolved when the op ran
    w.cancelled = set()      # connect tasks for which a cancel was issued
    w.deaf_at_connect = set()
    w.deaf = [False] * w.n   # devices whose application currently does not accept BR/EDR connection requests
    for op in ops_source(w):
        w.ops.append(op)
        kind = op[0]
        r = w.rec
        if kind == 'adv':                       # legacy API (legacy commands or legacy-PDU set)
            _, i, own_pub, data, srsp = op
            from bumble.hci import Address
            w.last_adv_addr[i] = w.pub[i] if own_pub else enc_addr(Address(w.cur_rnd[i]))
            w.adv_log.append((i, w.last_adv_addr[i], list(data), list(data) + list(srsp)))
            w.tasks.append(('adv', i, None, asyncio.ensure_future(w.dev[i].start_advertising(
                own_address_type=hci.OwnAddressType.PUBLIC if own_pub else hci.OwnAddressType.RANDOM,
                advertising_data=bytes(data), scan_response_data=bytes(srsp), advertising_interval_min=100.0,
                advertising_interval_max=100.0))))
        elif kind == 'adv_stop':
            w.tasks.append(('adv_stop', op[1], None, asyncio.ensure_future(w.dev[op[1]].stop_advertising())))
        elif kind == 'ext':                     # extended advertising set (optionally with its own random address)
            i, own_pub, data = op[1], op[2], op[3]
            setrnd = op[4] if len(op) > 4 else None
            extra = {}
            from bumble.hci import Address
            if setrnd is not None:
                extra['random_address'] = Address(set_str(i, setrnd))
                w.addrs[i].add(enc_addr(extra['random_address']))
            w.last_adv_addr[i] = w.pub[i] if own_pub else enc_addr(
                extra.get('random_address') or Address(w.cur_rnd[i]))
            w.adv_log.append((i, w.last_adv_addr[i], list(data), list(data)))
            w.tasks.append(('ext', i, None, asyncio.ensure_future(w.dev[i].create_advertising_set(
                advertising_parameters=AdvertisingParameters(
                    own_address_type=hci.OwnAddressType.PUBLIC if own_pub else hci.OwnAddressType.RANDOM),
                advertising_data=bytes(data), **extra))))
        elif kind == 'set_random':              # the device takes a new random address (also while connected)
            _, i, k = op
            from bumble.hci import Address
            a = Address(rnd_str_n(i, k))
            w.cur_rnd[i] = rnd_str_n(i, k)
            w.addrs[i].add(enc_addr(a))
            w.dev[i].random_address = a
            w.tasks.append(('set_random', i, None, asyncio.ensure_future(w.dev[i].send_sync_command(
                hci.HCI_LE_Set_Random_Address_Command(random_address=a)))))
        elif kind == 'accept_any':              # the application of device i stops / resumes accepting BR/EDR requests
            _, i, flag = op
            w.dev[i].classic_accept_any = bool(flag)
            w.deaf[i] = not flag
        elif kind == 'cancel':                  # LE Create Connection Cancel while connect() is pending
            _, i = op
            pend = [t for (kd, d, tg, t) in w.tasks if kd == 'connect' and d == i and not t.done()]
            if pend:
                w.cancelled.add(id(pend[-1]))
                w.tasks.append(('cancel', i, None, asyncio.ensure_future(w.dev[i].send_command(
                    hci.HCI_LE_Create_Connection_Cancel_Command()))))
        elif kind == 'scan':
            _, i, active = op
            w.tasks.append(('scan', i, None, asyncio.ensure_future(w.dev[i].start_scanning(legacy=True, active=active))))
        elif kind == 'scan_stop':
            w.tasks.append(('scan_stop', op[1], None, asyncio.ensure_future(w.dev[op[1]].stop_scanning(legacy=True))))
        elif kind == 'connect':
            i, target, own_pub = op[1], op[2], op[3]
            # optional 5th element: a message in flight that is delivered while connect() is still sending its
            # command (an incoming connection can arrive in that window)
            concurrent = op[4] if len(op) > 4 else None
            a = target_addr(target, w.cur_rnd)
            w.target_enc.append(enc_addr(a))
            target = list(target) + ['@', len(w.target_enc) - 1]
            w.tasks.append(('connect', i, target, asyncio.ensure_future(w.dev[i].connect(
                a, own_address_type=hci.OwnAddressType.PUBLIC if own_pub else hci.OwnAddressType.RANDOM))))
            if concurrent is not None and concurrent < len(r.held) and concurrent in deliverable(r.held):
                m = r.held.pop(concurrent)
                r.releasing = concurrent
                asyncio.get_running_loop().really_soon(m['cb'], *m['args'])
        elif kind == 'cl_connect':
            _, i, target = op
            a = target_addr(target, w.cur_rnd)
            w.target_enc.append(enc_addr(a))
            if w.deaf[target[1]] if target[0] == 'pub' else False:
                w.deaf_at_connect.add(len(w.target_enc) - 1)
            target = list(target) + ['@', len(w.target_enc) - 1]
            w.tasks.append(('cl_connect', i, target, asyncio.ensure_future(w.dev[i].connect(
                a, transport=PhysicalTransport.BR_EDR))))
        elif kind == 'send':
            _, i, k, payload = op
            if k < len(w.conns[i]) and w.conns[i][k].handle in w.dev[i].connections \
                    and w.dev[i].connections[w.conns[i][k].handle] is w.conns[i][k]:
                w.dev[i].l2cap_channel_manager.send_pdu(w.conns[i][k], FIXED_CID, bytes(payload))
                w.obs[i].append(('tx', k, list(payload)))
        elif kind == 'disconnect':
            _, i, k = op
            if k < len(w.conns[i]) and w.dev[i].connections.get(w.conns[i][k].handle) is w.conns[i][k]:
                await drain(w)
                before = w.live_snapshot()
                w.obs[i].append(('disc_req', k))
                w.tasks.append(('disconnect', i, k, asyncio.ensure_future(w.conns[i][k].disconnect())))
                await drain(w)
                w.windows.append((i, 'acl', k, before, w.live_snapshot()))
        elif kind == 'sco':                     # eSCO link on the BR/EDR connection #k of device i
            _, i, k = op
            if k < len(w.conns[i]) and w.dev[i].connections.get(w.conns[i][k].handle) is w.conns[i][k] \
                    and int(w.conns[i][k].transport) == 0:
                from bumble import hfp
                params = hfp.ESCO_PARAMETERS[hfp.DefaultCodecParameters.ESCO_CVSD_S1]
                w.tasks.append(('sco', i, k, asyncio.ensure_future(w.dev[i].send_command(
                    hci.HCI_Enhanced_Setup_Synchronous_Connection_Command(
                        connection_handle=w.conns[i][k].handle, **params.asdict())))))
        elif kind == 'sco_disconnect':
            _, i, k = op
            if k < len(w.scos[i]) and w.dev[i].sco_links.get(w.scos[i][k].handle) is w.scos[i][k]:
                await drain(w)
                before = w.live_snapshot()
                w.obs[i].append(('sdisc_req', k))
                w.tasks.append(('sco_disconnect', i, k, asyncio.ensure_future(w.scos[i][k].disconnect())))
                await drain(w)
                w.windows.append((i, 'sco', k, before, w.live_snapshot()))
        elif kind == 'cig':                     # LE Set CIG Parameters: one handle per CIS
            _, i, cig, cis_ids = op
            from bumble.device import CigParameters
            t = asyncio.ensure_future(w.dev[i].setup_cig(CigParameters(
                cig_id=cig, cis_parameters=[CigParameters.CisParameters(cis_id=x) for x in cis_ids],
                sdu_interval_c_to_p=10000, sdu_interval_p_to_c=10000)))
            w.tasks.append(('cig', i, cig, t))
            if not await w.settle():
                raise Hang(str(op))
            if t.done() and not t.cancelled() and t.exception() is None:
                w.obs[i].append(('cig', cig, [int(h) for h in t.result()]))
        elif kind == 'cig_remove':
            _, i, cig = op
            t = asyncio.ensure_future(w.dev[i].send_sync_command(hci.HCI_LE_Remove_CIG_Command(cig_id=cig)))
            w.tasks.append(('cig_remove', i, cig, t))
            if not await w.settle():
                raise Hang(str(op))
            if t.done() and not t.cancelled() and t.exception() is None:
                w.obs[i].append(('cig_removed', cig))
        elif kind == 'tick':                    # the advertising timer of device i fires
            _, i = op
            c = w.ctrl[i]
            if c.le_legacy_advertiser.enabled:
                c.le_legacy_advertiser._on_timer_fired()
            for s in list(c.advertising_sets.values()):
                if s.enabled:
                    s._on_extended_advertising_timer_fired()
        elif kind == 'deliver':                 # deliver the k-th message in flight
            k = op[1]
            if k < len(r.held) and k in deliverable(r.held):
                m = r.held.pop(k)
                r.releasing = k
                asyncio.get_running_loop().really_soon(m['cb'], *m['args'])
        elif kind == 'flush':                   # deliver everything, oldest first, until quiet
            for _ in range(2000):
                if not r.held:
                    break
                m = r.held.pop(0)
                r.releasing = 0
                asyncio.get_running_loop().really_soon(m['cb'], *m['args'])
                if not await w.settle():
                    raise Hang('flush')
            else:
                raise Hang('flush never ends')
        else:
            raise ValueError(op)
        if not await w.settle():
            raise Hang(str(op))
        if r.releasing is not None:
            r.unsupported = r.unsupported or 'released message reached no controller entry point'
            r.releasing = None
    # results of the API calls
    w.results = []
    for kind, i, target, t in w.tasks:
        if not t.done():
            w.results.append((kind, i, target, 'cancel-ignored' if id(t) in w.cancelled else 'pending', None))
            t.cancel()
        elif t.cancelled():
            w.results.append((kind, i, target, 'cancelled', None))
        elif t.exception() is not None:
            w.results.append((kind, i, target, 'cancelled' if id(t) in w.cancelled else 'error',
                              type(t.exception()).__name__))
        else:
            res = t.result()
            if kind in ('connect', 'cl_connect'):
                k = next((k for k, c in enumerate(w.conns[i]) if c is res), None)
                w.results.append((kind, i, target, 'ok', k))
            else:
                w.results.append((kind, i, target, 'ok', None))
    await w.settle()
    # which addresses are still being advertised at the end (Device API + the op list)
    w.advertised = set()     # (device, encoded address) still advertised at the end
    for i in range(w.n):
        if w.dev[i].is_advertising and w.last_adv_addr[i] is not None:
            w.advertised.add((i, w.last_adv_addr[i]))
    # final implementation tables
    w.tables = []
    for c in w.ctrl:
        def tab(d):
            return [[enc_addr(k.peer_address), enc_addr(k.self_address), k.handle, int(k.role) == 0] for k in d.values()]
        p = c.pending_le_connection
        w.tables.append([tab(c.le_connections), tab(c.classic_connections),
                         None if p is None else [enc_addr(p.peer_address), int(p.own_address_type) == 0],
                         bool(c.le_legacy_advertiser.enabled),
                         [[h, bool(s.enabled)] for h, s in c.advertising_sets.items()],
                         [bool(c.le_scan_enable), int(c.le_scan_type) == 1],
                         [[[enc_addr(k.peer_address), k.handle] for k in c.sco_links.values()],
                          [[l.handle, l.cig_id, l.cis_id] for l in c.central_cis_links.values()]]])
        if c.peripheral_cis_links:
            w.rec.unsupported = w.rec.unsupported or 'peripheral CIS links are not modelled'
    w.in_flight = [[m['src'], m['dst'], _js(m['msg'])] for m in w.rec.held]
    Recorder.active = None
    return w


async def drain(w):
    """deliver everything in flight, oldest first, until the link is quiet"""
    r = w.rec
    for _ in range(2000):
        if not await w.settle():
            raise Hang('drain')
        if not r.held:
            return
        m = r.held.pop(0)
        r.releasing = 0
        asyncio.get_running_loop().really_soon(m['cb'], *m['args'])
    raise Hang('drain never ends')


def _js(v):
    if isinstance(v, tuple):
        return [_js(x) for x in v]
    if isinstance(v, list):
        return [_js(x) for x in v]
    return v


def execute(cfg, ops_source):
    """run one scenario in a fresh deterministic loop; returns (world, failure or None)"""
    install()
    loop = VLoop()
    asyncio.set_event_loop(loop)
    failure = None
    w = None
    try:
        w = loop.run_until_complete(run_ops(cfg, ops_source))
    except Hang as e:
        failure = f'hang: step budget exceeded at {e}'
    finally:
        Recorder.active = None
        try:
            for t in asyncio.all_tasks(loop):
                t.cancel()
            loop.run_until_complete(asyncio.sleep(0))
        except Exception:
            pass
        loop.close()
        asyncio.set_event_loop(None)
    return w, failure


# ----------------------------------------------------------------------------- scenario generation
def gen_config(rng):
    n = rng.choice([2, 2, 3, 3, 3, 4])
    return {'n': n, 'ext': [rng.chance(1, 3) for _ in range(n)]}


def data_for(i, which):
    """fixed, distinct advertising / scan-response payload per device (valid AD structures)"""
    name = {'adv': b'A', 'srsp': b'S', 'ext': b'X'}[which] + bytes([0x30 + i]) * (1 + i)
    return list(bytes([len(name) + 1, 0x09]) + name)


class Generator:
    """Random walk over device-level operations, kept inside the hypotheses of the theorems:
    one pending central per advertised address (the two-centrals race is known finding D06d),
    an advertiser with a connect pending towards it is not stopped, at most one LE and one
    classic connection per pair of devices at a time."""

    def __init__(self, rng, length, mode):
        self.rng = rng
        self.length = length
        self.mode = mode            # 'natural' | 'delayed'
        self.seq = 0
        self.nset = 0
        self.nrnd = 0

    def __call__(self, w):
        rng = self.rng
        n = w.n
        adv = {}                    # device -> ('leg'|'ext', own_pub) while advertising (as far as we asked)
        scanning = {}
        pending = {}                # central device -> target address (kind, j)
        payload_id = 0
        for _ in range(self.length):
            r = w.rec
            # bookkeeping from observations
            live = {}               # (i, k) -> Connection
            for i in range(n):
                for k, c in enumerate(w.conns[i]):
                    if w.dev[i].connections.get(c.handle) is c:
                        live[(i, k)] = c
            for i in list(pending):
                t = [t for (kind, d, tg, t) in w.tasks if kind in ('connect', 'cl_connect') and d == i][-1]
                if t.done():
                    del pending[i]
            for i in list(adv):
                if not w.ctrl[i].is_advertising and not any(kind in ('adv', 'ext') and d == i and not t.done()
                                                            for (kind, d, tg, t) in w.tasks):
                    del adv[i]
            linked_le = {frozenset((i, w.owner(enc_addr(c.peer_address)))) for (i, k), c in live.items()
                         if int(c.transport) == 1}
            linked_cl = {frozenset((i, w.owner(enc_addr(c.peer_address)))) for (i, k), c in live.items()
                         if int(c.transport) == 0}
            def busy(j):
                # somebody is (still) connecting to device j: a connect() aimed at it is pending, or the
                # ConnectInd / LMP exchange of one is still on its way
                if any(tg[1] == j for tg in pending.values()):
                    return True
                for m in r.held:
                    if m['msg'][0] == 'MConnInd' and w.owner(m['msg'][2]) == j:
                        return True
                    if m['msg'][0].startswith('MLmp') and j in (m['src'], m['dst']):
                        return True
                return False

            def pair_busy(i, j):
                # a connection between i and j is being made, in either direction
                if (i in pending and pending[i][1] == j) or (j in pending and pending[j][1] == i):
                    return True
                return any(m['msg'][0] == 'MConnInd' and {m['src'], w.owner(m['msg'][2])} == {i, j} for m in r.held)

            def established(i, c):
                for m in r.held:
                    if m['msg'][0] == 'MConnInd' and m['src'] == i and m['msg'][1] == enc_addr(c.self_address) \
                            and m['msg'][2] == enc_addr(c.peer_address):
                        return False
                    if int(c.transport) == 0 and m['msg'][0].startswith('MLmp') and i in (m['src'], m['dst']):
                        return False
                return True
            usable = sorted(key for key, c in live.items() if established(key[0], c))
            # since D06d.patch several centrals may race for one advertiser, and an advertiser may stop while a
            # ConnectInd is on its way: the losers are refused (connection, then disconnection 0x3E)
            race = rng.chance(1, 3)
            choices = []
            if r.held:
                choices += ['deliver'] * (6 if self.mode == 'delayed' else 12)
            idle_adv = [i for i in range(n) if i not in adv]
            idle_ext = [i for i in idle_adv if w.cfg['ext'][i]]
            if idle_adv:
                choices += ['adv', 'adv']
            if idle_ext:
                choices += ['ext', 'ext']
            if adv:
                choices += ['tick'] * 3
                stoppable = [i for i in adv if race or not busy(i)]
                if stoppable:
                    choices += ['adv_stop']
            if len(scanning) < n:
                choices += ['scan']
            if scanning:
                choices += ['scan_stop']
            connectable = [(i, j) for i in range(n) if i not in pending for j in adv if j != i
                           and frozenset((i, j)) not in linked_le and (race or not busy(j)) and not pair_busy(i, j)]
            if connectable:
                choices += ['connect'] * 4
            cl_pairs = [(i, j) for i in range(n) for j in range(n) if i != j and i not in pending
                        and frozenset((i, j)) not in linked_cl and not busy(j) and not busy(i)]
            if cl_pairs:
                choices += ['cl_connect']
            if usable:
                choices += ['send'] * 5 + ['disconnect']
            live_sco = sorted((i, k) for i in range(n) for k, l in enumerate(w.scos[i])
                              if w.dev[i].sco_links.get(l.handle) is l)
            lmp_quiet = not any(m['msg'][0].startswith('MLmp') for m in r.held)
            sco_able = [key for key in usable if int(live[key].transport) == 0 and lmp_quiet
                        and not any(l.acl_connection is live[key] for l in w.scos[key[0]]
                                    if w.dev[key[0]].sco_links.get(l.handle) is l)
                        and not any(kind in ('sco', 'sco_accept') and not t.done() for (kind, d, tg, t) in w.tasks)]
            # one synchronous link per pair of devices at a time
            sco_pairs = {frozenset((i, w.owner(enc_addr(w.scos[i][k].acl_connection.peer_address)))) for (i, k) in live_sco}
            sco_able = [key for key in sco_able
                        if frozenset((key[0], w.owner(enc_addr(live[key].peer_address)))) not in sco_pairs]
            if sco_able:
                choices += ['sco'] * 2
            if live_sco and lmp_quiet:
                choices += ['sco_disconnect']
            choices += ['cig']
            if any(w.cigs[i] for i in range(n)):
                choices += ['cig_remove']
            # a device that neither advertises nor connects nor is being connected to may take a new random
            # address, also while it holds connections
            movable = [i for i in range(n) if i not in adv and i not in pending and not busy(i)
                       and not any(kind in ('adv', 'ext', 'adv_stop') and d == i and not t.done() for (kind, d, tg, t) in w.tasks)]
            if movable:
                choices += ['set_random']
            cancellable = [i for i in pending if pending[i][0] != 'pub' or True]
            cancellable = [i for i in cancellable
                           if any(kind == 'connect' and d == i and not t.done() for (kind, d, tg, t) in w.tasks)]
            if cancellable:
                choices += ['cancel']
            if not choices:
                choices = ['adv']
            ch = rng.choice(choices)
            if ch == 'deliver':
                ks = deliverable(r.held)
                if self.mode == 'natural':
                    yield ['deliver', 0]
                else:
                    yield ['deliver', rng.choice(ks)]
            elif ch == 'adv':
                i = rng.choice(idle_adv)
                own_pub = rng.chance(1, 2)
                adv[i] = ('leg', own_pub)
                yield ['adv', i, own_pub, data_for(i, 'adv'), data_for(i, 'srsp')]
            elif ch == 'ext':
                i = rng.choice(idle_ext)
                own_pub = rng.chance(1, 2)
                if not own_pub and rng.chance(1, 2):
                    # the set gets a random address of its own
                    self.nset += 1
                    adv[i] = ('ext', own_pub, self.nset)
                    yield ['ext', i, own_pub, data_for(i, 'ext'), self.nset]
                else:
                    adv[i] = ('ext', own_pub, None)
                    yield ['ext', i, own_pub, data_for(i, 'ext')]
            elif ch == 'set_random':
                i = rng.choice(movable)
                self.nrnd += 1
                yield ['set_random', i, self.nrnd]
            elif ch == 'cancel':
                i = rng.choice(cancellable)
                yield ['cancel', i]
                yield ['flush']
            elif ch == 'adv_stop':
                i = rng.choice(stoppable)
                if adv[i][0] == 'leg':
                    del adv[i]
                    yield ['adv_stop', i]
                else:
                    yield ['tick', i]
            elif ch == 'tick':
                yield ['tick', rng.choice(sorted(adv))]
            elif ch == 'scan':
                i = rng.choice([i for i in range(n) if i not in scanning])
                scanning[i] = rng.chance(1, 2)
                yield ['scan', i, scanning[i]]
            elif ch == 'scan_stop':
                i = rng.choice(sorted(scanning))
                del scanning[i]
                yield ['scan_stop', i]
            elif ch == 'connect':
                i, j = rng.choice(connectable)
                if adv[j][1]:
                    target = ['pub', j]
                elif adv[j][0] == 'ext' and adv[j][2] is not None:
                    target = ['set', j, adv[j][2]]
                else:
                    target = ['rnd', j]
                pending[i] = target
                # a ConnectInd addressed to this very device may be on its way: deliver it while connect() starts
                incoming = [k for k in deliverable(r.held) if r.held[k]['msg'][0] == 'MConnInd' and r.held[k]['dst'] == i
                            and w.owner(r.held[k]['msg'][2]) == i]
                if incoming and rng.chance(2, 3):
                    yield ['connect', i, target, rng.chance(1, 2), incoming[0]]
                else:
                    yield ['connect', i, target, rng.chance(1, 2)]
            elif ch == 'cl_connect':
                i, j = rng.choice(cl_pairs)
                pending[i] = ['pub', j]
                yield ['cl_connect', i, ['pub', j]]
            elif ch == 'send':
                i, k = rng.choice(usable)
                payload_id += 1
                body = [payload_id % 256, payload_id // 256] + list(rng.bytes(rng.choice([0, 1, 5, MAX_PAYLOAD - 2])))
                yield ['send', i, k, body]
            elif ch == 'sco':
                i, k = rng.choice(sco_able)
                yield ['sco', i, k]
                yield ['flush']
            elif ch == 'sco_disconnect':
                i, k = rng.choice(live_sco)
                yield ['sco_disconnect', i, k]
            elif ch == 'cig':
                i = rng.below(n)
                cig = rng.choice([0, 1, 2])
                w.cigs[i][cig] = True
                yield ['cig', i, cig, list(range(rng.choice([1, 2, 3])))]
            elif ch == 'cig_remove':
                i = rng.choice([i for i in range(n) if w.cigs[i]])
                cig = rng.choice(sorted(w.cigs[i]))
                del w.cigs[i][cig]
                yield ['cig_remove', i, cig]
            elif ch == 'disconnect':
                i, k = rng.choice(usable)
                # drain first: a PDU racing with the disconnection may legitimately be lost
                yield ['flush']
                yield ['disconnect', i, k]
        yield ['flush']
        # one more advertising round so that pending connects complete, then drain
        for i in sorted(adv):
            yield ['tick', i]
        yield ['flush']


def gen_multilink(rng):
    """Device 0 collects links of every kind -- BR/EDR ACL, eSCO, CIS handles, LE ACL -- towards devices 1 and 2
    in a random order, while the others hold links of their own; then every link of device 0 is taken down, in a
    random order.  Returns (cfg, ops); connection / sco indices are those of the event order at device 0."""
    cfg = {'n': 3, 'ext': [False, False, False]}
    ops = []
    acl = {}                      # peer -> connection index at device 0
    nconn = 0
    nconn_peer = {1: 0, 2: 0}     # connection indices at the peers
    nsco = 0
    links = []                    # what device 0 holds: ('acl', idx) / ('sco', idx) / ('cig', id)
    steps = ['acl1', 'sco1', 'cig', 'acl2'] + rng.choice([[], ['sco2'], ['le2'], ['sco2', 'le2'], ['cig2']])
    # the first ACL comes first (the eSCO link needs it); everything else in any order that respects "ACL before its SCO"
    rest = rng.shuffle(steps[1:])
    order = ['acl1']
    for st in rest:
        if st == 'sco2' and 'acl2' not in order:
            order.append('acl2')
        if st not in order:
            order.append(st)
    if rng.chance(1, 2):
        # the peers are also connected to each other, so their handle numbering differs from device 0's
        ops += [['cl_connect', 1, ['pub', 2]], ['flush']]
        nconn_peer[1] += 1
        nconn_peer[2] += 1
    for st in order:
        if st in ('acl1', 'acl2'):
            p = 1 if st == 'acl1' else 2
            if rng.chance(1, 2):
                ops += [['cl_connect', 0, ['pub', p]], ['flush']]
            else:
                ops += [['cl_connect', p, ['pub', 0]], ['flush']]
            acl[p] = nconn
            links.append(('acl', nconn))
            nconn += 1
            nconn_peer[p] += 1
        elif st in ('sco1', 'sco2'):
            p = 1 if st == 'sco1' else 2
            if rng.chance(2, 3):
                ops += [['sco', 0, acl[p]], ['flush']]
            else:
                ops += [['sco', p, nconn_peer[p] - 1], ['flush']]
            links.append(('sco', nsco))
            nsco += 1
        elif st in ('cig', 'cig2'):
            cig = 0 if st == 'cig' else 1
            ops += [['cig', 0, cig, list(range(rng.choice([1, 2])))]]
            links.append(('cig', cig))
        elif st == 'le2':
            own_pub = rng.chance(1, 2)
            ops += [['adv', 2, own_pub, data_for(2, 'adv'), data_for(2, 'srsp')], ['flush'],
                    ['connect', 0, ['pub' if own_pub else 'rnd', 2], rng.chance(1, 2)], ['tick', 2], ['flush']]
            links.append(('acl', nconn))
            nconn += 1
            nconn_peer[2] += 1
    # some traffic, then every link of device 0 goes, in a random order
    pid = 0
    for kind, idx in links:
        if kind == 'acl':
            pid += 1
            ops += [['send', 0, idx, [pid, 0, 7]]]
    ops += [['flush']]
    for kind, idx in rng.shuffle(links):
        if kind == 'acl':
            ops += [['disconnect', 0, idx]]
        elif kind == 'sco':
            ops += [['sco_disconnect', rng.choice([0, 0, 'peer']), idx]]
        else:
            ops += [['cig_remove', 0, idx]]
    ops += [['flush']]
    # 'peer' placeholders: the sco link is disconnected from device 0 (index known there)
    ops = [[o[0], 0, o[2]] if o[0] == 'sco_disconnect' and o[1] == 'peer' else o for o in ops]
    return cfg, ops


def gen_reconnect(rng):
    """BR/EDR reconnect histories between the same two controllers: connect, (data,) disconnect by either side,
    connect again -- in either direction, with the LMP packets of the second attempt delivered at once, held while
    the initiator already talks, or with a peer whose application no longer accepts (never answers)."""
    n = rng.choice([2, 3])
    cfg = {'n': n, 'ext': [False] * n}
    a, b = rng.choice([(0, 1), (1, 0)])
    ops = []
    ka = kb = 0                   # next connection index at a and b
    pid = 0
    first_refused = rng.chance(1, 5)
    if first_refused:
        # the first attempt is never answered: the initiator's attempt stays pending; a third device (if any) connects
        ops += [['accept_any', b, False], ['cl_connect', a, ['pub', b]], ['flush'], ['accept_any', b, True]]
        if n == 3:
            ops += [['cl_connect', 2, ['pub', b]], ['flush'], ['send', 2, 0, [200, 0]], ['flush']]
        return cfg, ops
    ops += [['cl_connect', a, ['pub', b]], ['flush']]
    ia, ib = ka, kb
    ka += 1
    kb += 1
    if rng.chance(2, 3):
        pid += 1
        ops += [['send', a, ia, [pid, 0, 1]]]
        pid += 1
        ops += [['send', b, ib, [pid, 0]]]
        ops += [['flush']]
    ops += [['disconnect', rng.choice([a, b]), 0], ['flush']]
    rounds = rng.choice([1, 1, 2])
    for _ in range(rounds):
        c, d = (a, b) if rng.chance(2, 3) else (b, a)        # who initiates this time
        mode = rng.choice(['natural', 'held', 'held', 'deaf'])
        kc, kd = (ka, kb) if c == a else (kb, ka)
        if mode == 'deaf':
            ops += [['accept_any', d, False], ['cl_connect', c, ['pub', d]], ['flush']]
            # if the initiator believes it is connected it talks
            pid += 1
            ops += [['send', c, kc, [pid, 0, 9]], ['flush']]
            return cfg, ops
        ops += [['cl_connect', c, ['pub', d]]]
        if mode == 'held':
            # the initiator's request is still on the link: whatever it reports now is premature; it talks if it can
            pid += 1
            ops += [['send', c, kc, [pid, 0, 7]], ['deliver', 0], ['deliver', 0]]
        ops += [['flush']]
        pid += 1
        ops += [['send', c, kc, [pid, 0]]]
        pid += 1
        ops += [['send', d, kd, [pid, 0, 3]], ['flush']]
        ka += 1
        kb += 1
        ops += [['disconnect', rng.choice([c, d]), kc if True else 0], ['flush']]
        # the disconnect op takes the index at the chosen device: fix it up
        who = ops[-2][1]
        ops[-2][2] = kc if who == c else kd
    return cfg, ops


def replay_source(ops):
    def src(w):
        for op in ops:
            yield op
    return src


# ----------------------------------------------------------------------------- property oracle
def oracle(w):
    """The property over Device-level observables only.  Returns a list of (signature, text)."""
    bad = []
    n = w.n
    own = lambda a: w.owner(a)
    # connection records per device
    recs = []                                   # (i, k, handle, peer, central, le)
    for i in range(n):
        for o in w.obs[i]:
            if o[0] == 'conn':
                recs.append((i,) + tuple(o[1:]))
    # 0. a BR/EDR connection is announced to the initiator only once the paged device holds its end
    for i in range(n):
        for o in w.obs[i]:
            if o[0] == 'early':
                bad.append(('connection-before-peer', f'device {i}: BR/EDR connection #{o[1]} was reported while device '
                                                      f'{o[2]} did not hold (had not accepted) it'))
    # 1. handles live and distinct per device, over every kind of link (ACL LE / BR/EDR, SCO, CIS)
    for i in range(n):
        live = []                               # (kind, index, handle)
        def add(kind, idx, h):
            clash = [x for x in live if x[2] == h]
            if clash:
                bad.append(('handle-reuse', f'device {i}: handle {h} given to {kind} #{idx} while '
                                            f'{clash[0][0]} #{clash[0][1]} still uses it'))
            live.append((kind, idx, h))
        for o in w.obs[i]:
            if o[0] == 'conn':
                add('connection', o[1], o[2])
            elif o[0] == 'sco':
                add('sco link', o[1], o[2])
            elif o[0] == 'cig':
                # LE Set CIG Parameters replaces the CIG: its old CIS handles are released first
                live = [x for x in live if not (x[0] == 'cis of cig' and x[1] == o[1])]
                for h in o[2]:
                    add('cis of cig', o[1], h)
            elif o[0] == 'disc':
                live = [x for x in live if not (x[0] == 'connection' and x[1] == o[1])]
            elif o[0] == 'sdisc':
                live = [x for x in live if not (x[0] == 'sco link' and x[1] == o[1])]
            elif o[0] == 'cig_removed':
                live = [x for x in live if not (x[0] == 'cis of cig' and x[1] == o[1])]
    # 1b. a disconnect of one link concludes exactly that link, at both ends, and nothing else goes away
    peer_of = {}
    for i in range(n):
        for o in w.obs[i]:
            if o[0] == 'conn':
                peer_of[(i, 'acl', o[1])] = o[3]
            elif o[0] == 'sco':
                peer_of[(i, 'sco', o[1])] = o[3]
    for (i, kind, k, before, after) in w.windows:
        gone = [[x for x in before[d] if x not in after[d]] for d in range(n)]
        new = [[x for x in after[d] if x not in before[d]] for d in range(n)]
        j = own(peer_of.get((i, kind, k)))
        mine = w.mine(i)
        what = f'device {i} disconnected its {kind} link #{k}'
        if [x[:2] for x in gone[i]] != [(kind, k)]:
            bad.append(('disconnect-wrong-link', f'{what}: at device {i} the links that went away are {gone[i]}'))
        for d in range(n):
            if new[d]:
                bad.append(('disconnect-wrong-link', f'{what}: new links {new[d]} appeared at device {d}'))
            if d == i:
                continue
            if d == j:
                ok = len(gone[d]) == 1 and gone[d][0][0] == kind and peer_of.get((d, kind, gone[d][0][1])) in mine
                if not ok:
                    bad.append(('disconnect-wrong-link', f'{what} (peer device {j}): at device {d} the links that '
                                                         f'went away are {gone[d]}'))
            elif gone[d]:
                bad.append(('disconnect-wrong-link', f'{what} (peer device {j}): device {d} lost {gone[d]}'))
    # 2. the caller of connect() is handed the connection to the address it asked for
    asked = {}                                  # (i, target enc) -> count
    for kind, i, target, status, k in w.results:
        if kind not in ('connect', 'cl_connect'):
            continue
        if target[0] == 'none':
            # nobody owns the address: the attempt must not produce a connection
            if status == 'ok':
                bad.append(('connect-to-nobody', f'device {i}: connect to an address nobody owns returned a connection'))
            elif kind == 'cl_connect' and status != 'error':
                bad.append(('connect-never-completes', f'device {i}: BR/EDR connect to an address nobody owns is {status}'))
            continue
        t = w.target_enc[target[-1]]
        asked[(i, t)] = asked.get((i, t), 0) + 1
        if status == 'cancel-ignored':
            bad.append(('cancel-ignored', f'device {i}: connect({target[:2]}) is still pending after LE Create Connection Cancel'))
            continue
        if status == 'cancelled':
            continue
        if status == 'ok':
            if k is None:
                bad.append(('connect-result', f'device {i}: connect() returned a connection that was never announced'))
                continue
            rec = next(x for x in recs if x[0] == i and x[1] == k)
            if rec[3] != t or not rec[4] or rec[5] != (kind == 'connect'):
                bad.append(('connect-wrong-connection',
                            f'device {i}: connect({target}) returned connection #{k} with peer {rec[3]} '
                            f'central={rec[4]} le={rec[5]}'))
        elif status == 'error':
            bad.append(('connect-error', f'device {i}: connect({target}) raised {k}'))
        elif status == 'pending':
            # everything in flight was delivered and every advertiser had one more advertising event
            if kind == 'cl_connect' and target[-1] not in w.deaf_at_connect:
                bad.append(('connect-never-completes', f'device {i}: BR/EDR connect({target}) never completed'))
            elif (target[1], t) in w.advertised:
                bad.append(('connect-never-completes', f'device {i}: connect({target}) never completed although '
                                                       f'device {target[1]} is advertising that address'))
    # 3. only the target gets the connection; both ends report matching peers
    for (i, k, h, peer, central, le) in recs:
        j = own(peer)
        if j is None or j == i:
            bad.append(('peer-unknown', f'device {i}: connection #{k} with peer {peer} that no other device owns'))
            continue
        if central:
            if asked.get((i, peer), 0) == 0:
                bad.append(('unasked-central', f'device {i}: central connection to {peer} without a connect() to it'))
        else:
            # somebody owning `peer` must have asked for an address of ours
            mine = w.mine(i)
            if not any(asked.get((j, a), 0) for a in mine):
                bad.append(('not-the-target', f'device {i}: incoming connection from {peer} (device {j}) although '
                                              f'device {j} never connected to an address of device {i}'))
    # final symmetry: every live connection has a live mirror at the owner of its peer address
    def live_of(i):
        out = []
        for k, c in enumerate(w.conns[i]):
            if w.dev[i].connections.get(c.handle) is c:
                out.append((k, enc_addr(c.peer_address), int(c.role) == 0, int(c.transport) == 1))
        return out
    lives = [live_of(i) for i in range(n)]
    for i in range(n):
        for (k, peer, central, le) in lives[i]:
            j = own(peer)
            if j is None:
                continue
            mine = w.mine(i)
            mirrors = [x for x in lives[j] if x[1] in mine and x[2] != central and x[3] == le]
            if len(mirrors) != 1:
                bad.append(('asymmetric', f'device {i} holds connection #{k} to {peer} (device {j}, '
                                          f'{"central" if central else "peripheral"}, {"LE" if le else "BR/EDR"}) but device '
                                          f'{j} holds {len(mirrors)} matching connections'))
    # synchronous links: every live one has a live mirror on the peer device
    def live_sco(i):
        return [(k, enc_addr(l.acl_connection.peer_address)) for k, l in enumerate(w.scos[i])
                if w.dev[i].sco_links.get(l.handle) is l]
    for i in range(n):
        for (k, peer) in live_sco(i):
            j = own(peer)
            if j is None or sum(1 for (_, p) in live_sco(j) if p in w.mine(i)) != 1:
                bad.append(('asymmetric-sco', f'device {i} holds sco link #{k} with {peer} (device {j}) without exactly '
                                              f'one matching link there'))
    # 4. every PDU is delivered exactly once, in order, to the peer of its connection and to nobody else
    sent = {}                                   # (i, k) -> [payload]
    for i in range(n):
        for o in w.obs[i]:
            if o[0] == 'tx':
                sent.setdefault((i, o[1]), []).append(o[2])
    where = {}                                  # payload id -> (device, handle) list
    rx_by = {}                                  # (j, handle-epoch k') -> [payload]
    for j in range(n):
        cur = {}                                # handle -> connection index
        for o in w.obs[j]:
            if o[0] == 'conn':
                cur[o[2]] = o[1]
            elif o[0] == 'rx':
                kk = cur.get(o[1])
                rx_by.setdefault((j, kk), []).append(o[2])
                where.setdefault(tuple(o[2][:2]), []).append((j, kk))
    disconnected = set()
    for i in range(n):
        for o in w.obs[i]:
            if o[0] == 'disc':
                disconnected.add((i, o[1]))
    for (i, k), payloads in sorted(sent.items()):
        rec = next(x for x in recs if x[0] == i and x[1] == k)
        j = own(rec[3])
        mine = w.mine(i)
        # the mirror connection at j: same transport, opposite role, peer one of our addresses, overlapping in time
        cands = [x for x in recs if x[0] == j and x[3] in mine and x[4] != rec[4] and x[5] == rec[5]]
        got_all = []
        for p in payloads:
            places = where.get(tuple(p[:2]), [])
            for (d, kk) in places:
                if d != j or not any(x[1] == kk for x in cands):
                    bad.append(('pdu-misdelivered', f'PDU {p[:2]} sent by device {i} on connection #{k} (peer device {j}) '
                                                    f'was received by device {d} on its connection #{kk}'))
            if len(places) > 1:
                bad.append(('pdu-duplicated', f'PDU {p[:2]} sent by device {i} on connection #{k} received {len(places)} times'))
        for x in cands:
            got_all += [p for p in rx_by.get((j, x[1]), []) if any(p == q for q in payloads)]
        if got_all != payloads[:len(got_all)]:
            bad.append(('pdu-order', f'device {j} received {[p[:2] for p in got_all]} from device {i} connection #{k}, '
                                     f'sent {[p[:2] for p in payloads]}'))
        elif len(got_all) < len(payloads) and (i, k) not in disconnected:
            bad.append(('pdu-lost', f'device {i} connection #{k} (own address {"public" if _self_pub(w, i, k) else "random"}, '
                                    f'{"LE" if rec[5] else "BR/EDR"}): {len(payloads) - len(got_all)} of {len(payloads)} '
                                    f'PDUs never reached device {j}'))
    # 5. a disconnection by either side is reported to both
    for i in range(n):
        for o in w.obs[i]:
            if o[0] != 'disc_req':
                continue
            k = o[1]
            rec = next(x for x in recs if x[0] == i and x[1] == k)
            j = own(rec[3])
            if (i, k) not in disconnected:
                bad.append(('disc-not-local', f'device {i}: disconnect of connection #{k} was never reported to itself'))
            mine = w.mine(i)
            cands = [x for x in recs if x[0] == j and x[3] in mine and x[4] != rec[4] and x[5] == rec[5]]
            if cands and not any((j, x[1]) in disconnected for x in cands):
                bad.append(('disc-not-remote', f'device {i} disconnected connection #{k}; device {j} never saw a '
                                               f'disconnection of its end'))
    # 6. scanners are given the advertiser's data (and scan-response data when active) byte for byte
    expected = w.expected_adv
    for i in range(n):
        for o in w.obs[i]:
            if o[0] != 'adv':
                continue
            _, addr, data, is_rsp = o
            j = own(addr)
            # an advertisement announced on its own carries the advertising data; one announced with its scan
            # response (only an active scanner may see those) carries both
            want = expected.get((j, addr), {}).get(is_rsp, [])
            ok = j is not None and j != i and any(data == e for e in want)
            if is_rsp and not w.ever_active.get(i):
                ok = False
            if not ok:
                bad.append(('scan-data', f'device {i} ({"active" if w.scan_mode.get(i) else "passive"} scan) was given '
                                         f'{bytes(data).hex()}{" as a scan response" if is_rsp else ""} for address {addr} '
                                         f'(device {j}); expected one of {[bytes(e).hex() for e in want]}'))
    seen = set()
    out = []
    for sig, text in bad:
        if sig not in seen:
            seen.add(sig)
            out.append((sig, text))
    return out


def _self_pub(w, i, k):
    return bool(w.conns[i][k].self_address.is_public)


def annotate(w):
    """what the scenario configured (from its own op list): expected scan data per (device, address, mode)"""
    exp = {}                 # (device, address) -> {is_scan_response: [acceptable payloads]}
    scan_mode = {}
    ever_active = {}
    for (i, a, data, merged) in w.adv_log:
        e = exp.setdefault((i, a), {True: [], False: []})
        e[False].append(data)
        e[True].append(merged)
    for op in w.ops:
        if op[0] == 'scan':
            scan_mode[op[1]] = op[2]
            ever_active[op[1]] = ever_active.get(op[1], False) or op[2]
    w.expected_adv = exp
    w.scan_mode = scan_mode
    w.ever_active = ever_active


# ----------------------------------------------------------------------------- model side
def label_coq(l):
    k = l[0]
    b = lambda x: 'true' if x else 'false'
    by = lambda d: '[' + '; '.join(str(x) for x in d) + ']'
    nat = lambda i: f'{i}%nat'
    if k == 'LSetRandom':
        return f'LSetRandom {nat(l[1])} {coq_z(l[2])}'
    if k == 'LAdvParams':
        return f'LAdvParams {nat(l[1])} {b(l[2])} {b(l[3])}'
    if k in ('LAdvData', 'LScanRsp'):
        return f'{k} {nat(l[1])} {by(l[2])}'
    if k in ('LAdvEnable', 'LScanEnable', 'LScanParams'):
        return f'{k} {nat(l[1])} {b(l[2])}'
    if k == 'LExtRandom':
        return f'LExtRandom {nat(l[1])} {coq_z(l[2])} {coq_z(l[3])}'
    if k == 'LExtParams':
        return f'LExtParams {nat(l[1])} {coq_z(l[2])} {b(l[3])}'
    if k in ('LExtData', 'LExtSrsp'):
        return f'{k} {nat(l[1])} {coq_z(l[2])} {b(l[3])} {by(l[4])}'
    if k == 'LExtEnable':
        return f'LExtEnable {nat(l[1])} {b(l[2])} {by(l[3])}'
    if k == 'LExtRemove':
        return f'LExtRemove {nat(l[1])} {coq_z(l[2])}'
    if k == 'LExtClear':
        return f'LExtClear {nat(l[1])}'
    if k in ('LTick', 'LCancel'):
        return f'{k} {nat(l[1])}'
    if k == 'LExtTick':
        return f'LExtTick {nat(l[1])} {coq_z(l[2])}'
    if k == 'LConnect':
        return f'LConnect {nat(l[1])} {coq_z(l[2])} {b(l[3])}'
    if k == 'LAcl':
        return f'LAcl {nat(l[1])} {coq_z(l[2])} {by(l[3])}'
    if k == 'LDisconnect':
        return f'LDisconnect {nat(l[1])} {coq_z(l[2])} {coq_z(l[3])}'
    if k in ('LClConnect', 'LClAccept', 'LScoSetup', 'LScoAccept', 'LRemoveCig'):
        return f'{k} {nat(l[1])} {coq_z(l[2])}'
    if k == 'LSetCig':
        return f'LSetCig {nat(l[1])} {coq_z(l[2])} {by(l[3])}'
    if k == 'LDeliver':
        return f'LDeliver {nat(l[1])}'
    raise ValueError(l)


def model_expr(w):
    cfg = '[' + '; '.join(f'({w.pub[i]}, 0, {"true" if w.cfg["ext"][i] else "false"})' for i in range(w.n)) + ']'
    labels = '[' + '; '.join(label_coq(l) for l in w.rec.labels) + ']'
    # hypotheses of the theorems, evaluated on this very run: after power-on (the first n labels set
    # the random addresses) the system is `init cfg_real`; the rest of the run must satisfy the guards
    n = w.n
    pre = w.rec.labels[:n]
    if [l[:2] for l in pre] != [('LSetRandom', i) for i in range(n)]:
        hyp = '(false, false, false, false, false)'
    else:
        real = '[' + '; '.join(f'({w.pub[i]}, {pre[i][2]}, {"true" if w.cfg["ext"][i] else "false"})'
                              for i in range(n)) + ']'
        hyp = (f'(let sym := run_ok guard_sym (init {real}) (skipn {n} ls) in (cfg_ok {real}, '
               f'(if sym then true else run_ok guard_static (init {real}) (skipn {n} ls)), sym, '
               f'(if sym then true else run_ok guard_fresh (init {real}) (skipn {n} ls)), '
               f'run_ok guard_cl (init {real}) (skipn {n} ls)))')
    return f"let ls := {labels} in let '(s, tr) := run (init {cfg}) ls in (tr, state_obs s, {hyp})"


def norm_model_event(e):
    """parsed Coq value -> the tuple form event_of() produces"""
    if isinstance(e, str):
        return (e,)
    if e[0] == 'EError':
        return ('EError',)
    return tuple(list(x) if isinstance(x, list) else x for x in e)


def norm_msg(m):
    if isinstance(m, str):
        return (m,)
    return tuple(list(x) if isinstance(x, list) else x for x in m)


def compare(w, mres):
    """model result vs recorded implementation behaviour; returns None or (where, model, impl)"""
    (tr, (mtables, mnet)), hyp = _split_res(mres)
    w.hyp = hyp
    rec = w.rec
    if len(tr) != len(rec.labels):
        return ('trace length', len(tr), len(rec.labels))
    for idx, ((mevs, mout), label) in enumerate(zip(tr, rec.labels)):
        me = [(int(c), norm_model_event(e)) for (c, e) in mevs]
        ie = [(c, tuple(e)) for (c, e) in rec.events[idx]]
        if me != ie:
            return (f'events of label #{idx} {label}', me, ie)
        mo = [(int(s), int(d), norm_msg(m)) for ((s, d), m) in [_unpair(p) for p in mout]]
        io = [(s, d, _impl_msg(m)) for (s, d, m) in rec.sent[idx]]
        if mo != io:
            return (f'link sends of label #{idx} {label}', mo, io)
    mt = []
    for t in mtables:
        le, cl, pend, leg, sets, scan, (sco, cis) = t
        mt.append([[list(x) for x in le], [list(x) for x in cl], None if pend is None else list(_some(pend)), leg,
                   [list(x) for x in sets], list(scan), [[list(x) for x in sco], [list(x) for x in cis]]])
    if mt != w.tables:
        return ('final tables', mt, w.tables)
    mn = [[int(s), int(d), _js(norm_msg(m))] for ((s, d), m) in [_unpair(p) for p in mnet]]
    inn = [[s, d, _js(_impl_msg(tuple(m)))] for s, d, m in w.in_flight]
    if mn != inn:
        return ('messages still in flight', mn, inn)
    return None


def _split_res(mres):
    # (tr, state_obs, hyp) comes back as a flat 3-tuple
    if len(mres) == 3:
        return (mres[0], mres[1]), mres[2]
    return mres[0], mres[1]


def _some(v):
    # option values come back as ('Some', x)
    if isinstance(v, tuple) and v and v[0] == 'Some':
        return v[1]
    return v


def _unpair(p):
    # ((src, dst), msg) or (src, dst, msg) depending on how Coq prints nested pairs
    if len(p) == 3:
        return ((p[0], p[1]), p[2])
    return p


def _impl_msg(m):
    m = tuple(m)
    if m[0] == 'MAdv' and m[3] is None:
        # tree without D06b: the PDU has no scan response field; shown as missing
        return ('MAdv', m[1], m[2], 'no-scan-response-field')
    return tuple(list(x) if isinstance(x, list) else x for x in m)


# ----------------------------------------------------------------------------- corpus (witnesses, always first)
CORPUS_DIR = os.path.join(os.path.dirname(os.path.dirname(os.path.dirname(os.path.abspath(__file__)))), 'corpus', 'C06')
KNOWN_RACE_NAME = 'D06d-two-centrals'


def corpus():
    """corpus/C06/*.json: the witnesses of D06a-D06c and other minimised scenarios; D06d is run separately"""
    out = []
    for f in sorted(os.listdir(CORPUS_DIR)):
        if f.endswith('.json'):
            with open(os.path.join(CORPUS_DIR, f)) as fh:
                o = json.load(fh)
            out.append((o['name'], o['cfg'], o['ops']))
    return out


# ----------------------------------------------------------------------------- run
def shape(ops):
    return ''.join(o[0][0] for o in ops[:10])


def run_case(ctx, name, cfg, source, pending_exprs, sample=False):
    w, failure = execute(cfg, source)
    if w is None:
        ctx.violation('hang:' + name, f'scenario {name}: {failure}', {'cfg': cfg, 'ops': getattr(source, 'ops', None)})
        return None
    annotate(w)
    ops = w.ops
    rep = {'cfg': cfg, 'ops': ops}
    nconn = sum(1 for i in range(w.n) for o in w.obs[i] if o[0] == 'conn')
    nrx = sum(1 for i in range(w.n) for o in w.obs[i] if o[0] == 'rx')
    ctx.case((cfg, ops), nconn >= 2 and nrx >= 1,
             {'name': name, 'cfg': cfg, 'ops': ops[:12], 'labels': len(w.rec.labels)} if sample else None)
    ctx.count('scenarios')
    ctx.count(f'devices.{w.n}')
    ctx.count('labels', len(w.rec.labels))
    for l in w.rec.labels:
        ctx.count('label.' + l[0])
    for i in range(w.n):
        for o in w.obs[i]:
            ctx.count('obs.' + o[0])
            if o[0] == 'conn':
                ctx.count('conn.' + ('le' if o[5] else 'classic') + ('.central' if o[4] else '.peripheral'))
    for kind, i, target, status, k in w.results:
        if kind in ('connect', 'cl_connect'):
            ctx.count(f'{kind}.{status}')
    if w.rec.unsupported:
        ctx.disagree('outside the model: ' + w.rec.unsupported, rep, None, None)
    for sig, text in oracle(w):
        ctx.violation(sig + ':' + name, f'{name}: {text}', rep)
    pending_exprs.append((name, w, rep))
    return w


def evaluate_models(ctx, pending):
    pending = [p for p in pending if not p[1].rec.unsupported]
    exprs = [model_expr(w) for (_, w, _) in pending]
    results = ctx.coq_eval(['Model.Link'], exprs, shard=8)
    for (name, w, rep), mres in zip(pending, results):
        d = compare(w, mres)
        hyp = getattr(w, 'hyp', None)
        if hyp is not None:
            ctx.count('hypotheses.distinct_addresses', int(bool(hyp[0])))
            ctx.count('hypotheses.static_addresses', int(bool(hyp[1])))
            ctx.count('hypotheses.symmetry_guard', int(bool(hyp[2])))
            ctx.count('hypotheses.fresh_addresses', int(bool(hyp[3])))
            ctx.count('hypotheses.classic_symmetry_guard', int(bool(hyp[4])))
            if not hyp[3]:
                ctx.extra.setdefault('runs_outside_fresh_address_guard', []).append(name)
            if not hyp[2]:
                ctx.extra.setdefault('runs_outside_symmetry_guard', []).append(name)
        if d is not None:
            where, m, i = d
            ctx.disagree(f'{name}: {where}', rep, _js(m), _js(i))


def run(ctx):
    ctx.rule = ('scenarios over 2-4 real Device/Host/Controller stacks on one LocalLink: random walks over '
                'start/stop legacy or extended advertising (own address public/random), active/passive scanning, '
                'LE connect (own address public/random), BR/EDR connect, PDUs on a fixed L2CAP channel, disconnect by '
                'either side, advertising timer ticks and link deliveries (natural order, or any per-pair-FIFO delay); '
                'every atomic controller callback becomes a model label and the model is compared label by label. '
                'Non-trivial: at least two connection events and one PDU received; distinct by configuration and ops.')
    ctx.assumptions += [
        'asyncio runs one callback atomically; LocalLink deliveries are call_soon callbacks (the model delivers one message per step)',
        'timers never fire by themselves (frozen clock); advertising events are explicit tick steps',
        'addresses of different controllers are distinct; a controller does not change its addresses after power-on '
        '(cfg_ok, guard_static: evaluated on every recorded run, see input_distribution hypotheses.*)',
        'table symmetry is proved for schedules satisfying guard_sym: every ConnectInd is accepted by its addressee without '
        'overwriting a connection, LE connections between two controllers are made and torn down one at a time '
        '(the random scenarios are generated inside it; D06d is the witness outside it)',
        'PDUs are sent on established connections (both ends hold it); LocalLink routes at send time by looking into the '
        "receiver's table, so a PDU sent while the ConnectInd is still delayed is dropped; LocalLink's own call_soon order "
        'cannot produce that',
    ]
    ctx.trusted += ['Model/Link.v is a hand-written reading of link.py / controller.py, tied to the code by differential '
                    'execution of recorded label traces only; Device.connect_le / connect_classic glue is exercised, not modelled']
    rng = ctx.rng
    pending = []
    for name, cfg, ops in corpus():
        if True:
            # (D06d is fixed: its witness is an ordinary corpus scenario now)
            run_case(ctx, name, cfg, replay_source(ops), pending, sample=True)
            continue
        # the known finding D06d is checked to still reproduce (its model run is compared like any other)
        w, failure = execute(cfg, replay_source(ops))
        if w is not None:
            annotate(w)
            for sig, text in oracle(w):
                if sig == 'asymmetric':
                    ctx.violation('D06d:two-centrals-one-advertiser', f'{name}: {text}', {'cfg': cfg, 'ops': ops})
                else:
                    ctx.violation(sig + ':' + name, f'{name}: {text}', {'cfg': cfg, 'ops': ops})
            pending.append((name, w, {'cfg': cfg, 'ops': ops}))
    total = ctx.n(50, 2500)
    for s in range(total):
        cfg = gen_config(rng)
        mode = 'delayed' if s % 2 else 'natural'
        length = rng.choice([12, 25, 40, 60])
        g = Generator(rng.fork(f'scenario{s}'), length, mode)
        run_case(ctx, f'{mode}{s}', cfg, g, pending, sample=(s < 2))
        ctx.count('mode.' + mode)
    for s in range(ctx.n(16, 400)):
        cfg, ops = gen_multilink(rng.fork(f'multilink{s}'))
        run_case(ctx, f'multilink{s}', cfg, replay_source(ops), pending, sample=(s < 1))
        ctx.count('mode.multilink')
    for s in range(ctx.n(12, 300)):
        cfg, ops = gen_reconnect(rng.fork(f'reconnect{s}'))
        run_case(ctx, f'reconnect{s}', cfg, replay_source(ops), pending, sample=(s < 1))
        ctx.count('mode.reconnect')
    ctx.log(f'{len(pending)} scenarios run on the implementation; evaluating the model')
    evaluate_models(ctx, pending)
    ctx.log('model evaluated')


def search(ctx):
    """proof or correspondence broke: look for an input on which the oracle fails"""
    rng = ctx.rng.fork('search')
    pending = []
    for s in range(60):
        cfg, ops = gen_reconnect(rng.fork(f'reconnect{s}'))
        run_case(ctx, f'search-reconnect{s}', cfg, replay_source(ops), pending)
        if ctx.violations:
            return
    for s in range(60):
        cfg, ops = gen_multilink(rng.fork(f'multilink{s}'))
        run_case(ctx, f'search-multilink{s}', cfg, replay_source(ops), pending)
        if ctx.violations:
            return
    for s in range(300):
        cfg = gen_config(rng)
        g = Generator(rng.fork(f'search{s}'), rng.choice([25, 40, 60]), 'delayed' if s % 2 else 'natural')
        run_case(ctx, f'search{s}', cfg, g, pending)
        if ctx.violations:
            return


def replay(ctx, obj):
    r = obj['replay']
    w, failure = execute(r['cfg'], replay_source(r['ops']))
    if w is None:
        print('oracle: FAILS:', failure)
        return 1
    annotate(w)
    for i in range(w.n):
        print(f'device {i}:', w.obs[i])
    print('results:', w.results)
    bad = oracle(w)
    for sig, text in bad:
        print('oracle: FAILS:', sig, '-', text)
    if not bad:
        print('oracle: holds')
    try:
        d = compare(w, ctx.coq_eval(['Model.Link'], [model_expr(w)])[0])
        print('model:', 'agrees with the implementation label by label' if d is None else f'differs at {d[0]}: model {d[1]} impl {d[2]}')
    except Exception as e:
        print('model: not evaluated:', e)
    return 1 if bad else 0
