"""C10 -- the ATT server answers each request exactly once and within ATT_MTU.

Correspondence of Model/AttServer.v with real bumble.gatt_server.Server instances (every PDU
the server sends, byte for byte; final attribute values; final ATT_MTU) and the property
oracle on implementation observables (reply count, reply kind, PDU length against the
bearer's ATT_MTU, one indication outstanding)."""
import glob
import json
import os

from harness import att_common as ac

PROP_FILES = ['Props/C10.v']
LEVEL = 'proof'

CORPUS = os.path.join(os.path.dirname(os.path.dirname(os.path.dirname(os.path.abspath(__file__)))), 'corpus', 'C10')


def regen(ctx):
    from translate import c10_skeleton, c10_tables
    c10_skeleton.regen(ctx)
    t = c10_tables.regen(ctx)
    ctx.extra['source_tables'] = {'requests': t['requests'], 'handlers': t['handlers'], 'guarded': t['guarded'],
                                  'exc_guarded': t['exc_guarded'],
                                  'has_invalid_pdu_handler': t['has_invalid_pdu_handler']}


# ----------------------------------------------------------------------------- oracle
def oracle(scn, res):
    """The property over implementation observables only.  Yields (signature, description)."""
    outstanding = {}            # per bearer
    if res['stray']:
        yield ('pdu-on-another-bearer', f'PDUs {res["stray"][:3]} were sent on a bearer other than the one stimulated')
    for i, (o, out, mtu) in enumerate(zip(res['ops'], res['outs'], res['mtus'])):
        bk = res['op_bearer'][i]
        pdus = [bytes.fromhex(p) for p in out]
        if res['escaped'][i] == 'hang':
            yield ('handler-never-finishes', f'op {i} {o[:2]}: a handler task was still running after {ac.STEP_BUDGET} loop rounds')
        if o[0] == 'rx':
            pdu = bytes.fromhex(o[1])
            opc = pdu[0]
            if opc in ac.REQUEST_OPCODES:
                if len(pdus) != 1:
                    yield (f'one-reply:op=0x{opc:02X}:n={len(pdus)}',
                           f'op {i}: request {pdu.hex()} got {len(pdus)} PDUs back {out}')
                else:
                    p = pdus[0]
                    ok = (p[0] == opc + 1) or (len(p) == 5 and p[0] == 0x01 and p[1] == opc)
                    if not ok:
                        yield (f'reply-kind:op=0x{opc:02X}:got=0x{p[0]:02X}',
                               f'op {i}: request {pdu.hex()} answered by {p.hex()}')
            elif opc == 0x1E:
                if len(pdus) > 1 or any(p[0] != 0x1D for p in pdus):
                    yield ('confirmation-answered', f'op {i}: confirmation got {out}')
            else:
                if pdus:
                    yield (f'non-request-answered:op=0x{opc:02X}', f'op {i}: {pdu.hex()} (not a request) got {out}')
        elif o[0] == 'rx2c':
            if len(pdus) > 1 or any(p[0] != 0x1D for p in pdus):
                yield ('confirmation-answered', f'op {i}: two confirmations got {out}')
        elif o[0] == 'burst':
            # every request of the burst is answered exactly once, nothing else is (a confirmation may release
            # one waiting indication)
            want = [bytes.fromhex(h)[0] for h in o[1] if bytes.fromhex(h)[0] in ac.REQUEST_OPCODES]
            has_conf = any(bytes.fromhex(h)[0] == 0x1E for h in o[1])
            rest = list(want)
            extra = []
            for p in pdus:
                opc = next((q for q in rest if p[0] == q + 1 or (len(p) == 5 and p[0] == 0x01 and p[1] == q)), None)
                if opc is None:
                    extra.append(p)
                else:
                    rest.remove(opc)
            if rest:
                yield ('burst:unanswered:op=0x%02X' % rest[0],
                       f'op {i}: burst {o[1]}: requests {[hex(x) for x in rest]} not answered, got {out}')
            ind = [p for p in extra if p[0] == 0x1D]
            other = [p for p in extra if p[0] != 0x1D]
            if other or len(ind) > (1 if has_conf else 0):
                yield ('burst:unsolicited', f'op {i}: burst {o[1]} got unsolicited {[p.hex() for p in extra]}')
            mtu = max(mtu, res['mtus_after'][i])
        for p in pdus:
            if len(p) > mtu:
                kind = {0x1B: 'notification', 0x1D: 'indication'}.get(p[0], 'response')
                yield (f'over-mtu:{kind}:0x{p[0]:02X}',
                       f'op {i} {o[:2]}: {kind} of {len(p)} bytes with ATT_MTU {mtu}')
        confirm = o[0] == 'rx2c' or (o[0] == 'rx' and o[1][:2].lower() == '1e') or \
            (o[0] == 'burst' and any(h[:2].lower() == '1e' for h in o[1]))
        if o[0] == 'close':
            # the bearer is gone, and with it ITS outstanding indication -- no other bearer's
            outstanding[bk] = False
            if pdus:
                yield ('pdu-on-closed-bearer', f'op {i}: closing bearer {bk} made the server send {out} on it')
        if confirm:
            outstanding[bk] = False
        for p in pdus:
            if p[0] == 0x1D:
                if outstanding.get(bk):
                    yield ('two-indications-outstanding',
                           f'op {i}: indication sent on bearer {bk} while one awaits confirmation there')
                outstanding[bk] = True


# ----------------------------------------------------------------------------- generation
MTUS = [23, 23, 24, 25, 26, 27, 30, 48, 64, 100, 185, 247, 251, 252, 253, 254, 255, 256, 257, 258, 259, 300, 512,
        515, 516, 517]


def gen_bearer(rng):
    sec = rng.choice([(False, False), (True, False), (True, True), (False, True)])
    return {'mtu': rng.choice(MTUS) if rng.chance(4, 5) else rng.range(23, 517), 'enc': sec[0], 'auth': sec[1],
            'enh': rng.chance(1, 3)}


def gen_scenario(rng, k, n_ops):
    dense = k % 3 == 2
    db = ac.gen_db_dense(rng) if dense else ac.gen_db(rng)
    bearer = gen_bearer(rng)
    if dense and rng.chance(3, 4):
        bearer['mtu'] = rng.choice([23, 24, 25, 26, 27, 28, 29, 30, 31, 32, 33, 34, 35, 36, 40, 48])
    scn = {'db': db, 'bearer': bearer, 'max_mtu': 517 if rng.chance(5, 6) else rng.choice([23, 64, 200, 1000]),
           'ops': []}
    ac.plan_wire(rng, scn)
    # the model database is needed to aim requests at existing handles: build once
    probe = ac.run_impl(dict(scn, ops=[]))
    mdb = probe['db']
    mtu = bearer['mtu']
    opcodes = []
    for r in ac.REQUEST_OPCODES:
        opcodes += [r] * (3 if r in (0x08, 0x0E, 0x20, 0x0C, 0x10, 0x06) else 2)
    # every opcode 0..255 is sent at least once every 13 scenarios
    opcodes += [(k * 20 + i) % 256 for i in range(20)]
    opcodes += [0x52, 0x52, 0x1E, 0xD2]
    while len(opcodes) < n_ops:
        opcodes.append(rng.choice(ac.REQUEST_OPCODES + [0x52]))
    opcodes = rng.shuffle(opcodes)
    for opc in opcodes:
        p = ac.gen_request(rng, opc, mdb, mtu)
        scn['ops'].append(['rx', (bytes([opc]) + p).hex()])
        if opc == 0x02 and len(p) >= 2:
            m = p[0] | (p[1] << 8)
            if m >= 23:
                mtu = min(scn['max_mtu'], m)
    return scn


def gen_initiated_scenario(rng, n_ops):
    """notifications / indications: a characteristic with a CCCD, subscriptions, MTU changes upwards,
    confirmations (also spurious and doubled)"""
    chars = []
    for _ in range(rng.range(1, 2)):
        c = {'uuid': ac.uuid_hex(rng, 2), 'props': 0x3A, 'descs': [], 'perm': rng.choice([1, 3, 1 | 4, 1 | 16, 0, 2]),
             'value': ac.gen_value(rng).hex(), 'rerr': 0, 'werr': 0, 'flavor': rng.choice([0, 0, 1, 2])}
        chars.append(c)
    db = {'services': [{'uuid': '180F', 'primary': True, 'chars': chars}], 'decl_perm': {}}
    bearer = gen_bearer(rng)
    scn = ac.plan_wire(rng, {'db': db, 'bearer': bearer, 'max_mtu': 517, 'ops': []})
    hs = [3 + 3 * i for i in range(len(chars))]      # service, (decl, value, cccd)*
    mtu = bearer['mtu']
    queued = 0
    for _ in range(n_ops):
        r = rng.below(20)
        h = rng.choice(hs)
        val = None if rng.chance(1, 4) else ac.gen_value(rng).hex()
        if r < 3:
            scn['ops'].append(['cccd', h, rng.choice(['0100', '0200', '0300', '0000', '01', '030000'])])
        elif r < 8:
            scn['ops'].append(['notify', h, val, rng.chance(1, 3)])
        elif r < 14:
            scn['ops'].append(['indicate', h, val, rng.chance(1, 3)])
            queued += 1
            if rng.chance(1, 5):
                # confirmation followed by several indications: only the first may go out
                scn['ops'].append(['rx', '1e'])
                for _ in range(3):
                    scn['ops'].append(['indicate', h, ac.gen_value(rng).hex(), True])
        elif r < 17:
            scn['ops'].append(['rx', '1e'])
            queued = max(0, queued - 1)
        elif r < 18:
            scn['ops'].append(['rx2c'])
            queued = max(0, queued - 1)
        else:
            # Exchange MTU: never lowers the MTU while indications may be queued (see docs/C10.md)
            m = rng.choice([x for x in MTUS if x >= mtu] or [mtu])
            scn['ops'].append(['rx', (b'\x02' + ac.le16(m)).hex()])
            mtu = min(517, max(mtu, m)) if m >= 23 else mtu
    return scn


def boundary_suite(mtus, wide):
    """Deterministic scenarios that drive every multi-entry response to its ATT_MTU boundary: a database of 10
    services with the same UUID, each with a characteristic (same type, same value) and 3 descriptors (same type,
    same value), read with every ranged / multi-handle request at consecutive ATT_MTUs."""
    suuid = '180F' if not wide else '0000180F00001000800000805F9B34FA'
    out = []
    for mtu in mtus:
        for vlen in ((0, 1) if mtu % 2 else (2, 3)):
            val = bytes([0x55] * vlen).hex()
            services = [{'uuid': suuid, 'primary': True, 'chars': [
                {'uuid': '2A19', 'props': 0x0A, 'perm': 3, 'value': val, 'rerr': 0, 'werr': 0, 'flavor': 0,
                 'descs': [{'uuid': '2901', 'perm': 1, 'value': val, 'rerr': 0, 'werr': 0, 'flavor': 0}] * 3}]}
                for _ in range(10)]
            sval = bytes.fromhex(suuid)[::-1].hex()
            hs = [3 + 6 * i for i in range(10)]          # characteristic value handles
            ds = [4 + 6 * i for i in range(10)] + [5 + 6 * i for i in range(10)]
            le = lambda n: ac.le16(n).hex()
            ops = [['rx', '100100ffff0028'], ['rx', '10' + le(7) + 'ffff0028'],
                   ['rx', '060100ffff0028' + sval], ['rx', '060100ffff0129' + val], ['rx', '060100ffff192a' + val],
                   ['rx', '080100ffff0328'], ['rx', '080100ffff0129'], ['rx', '080100ffff192a'],
                   ['rx', '040100ffff'], ['rx', '04' + le(2) + 'ffff'],
                   ['rx', '0e' + ''.join(le(h) for h in (hs + ds))], ['rx', '20' + ''.join(le(h) for h in (hs + ds))],
                   ['rx', '20' + ''.join(le(h) for h in ([2] + hs + ds))], ['rx', '0e' + ''.join(le(h) for h in ([2, 1] + ds))]]
            out.append({'db': {'services': services, 'decl_perm': {}},
                        'bearer': {'mtu': mtu, 'enc': False, 'auth': False, 'enh': mtu % 3 == 0}, 'max_mtu': 517,
                        'ops': ops})
    return out


def gen_multi_scenario(rng, k, n_ops):
    """Several bearers on ONE server: two connections with different security and an EATT bearer on one of
    them (or on a third connection), different ATT_MTUs; requests, CCCD writes, notifications and indications
    (forced / subscribed, value given / read), confirmations (also spurious and doubled) and MTU raises
    interleaved across the bearers."""
    chars = []
    for i in range(rng.range(2, 3)):
        c = {'uuid': '%04X' % (0x2A10 + i), 'props': 0x3A, 'descs': [], 'perm': rng.choice([1, 3, 3, 1 | 4, 3 | 16]),
             'value': ac.gen_value(rng).hex(), 'rerr': 0, 'werr': 0, 'flavor': rng.choice([0, 0, 1, 3])}
        chars.append(c)
    extra = ac.gen_db(rng, max_services=1, small_values=True)['services']
    db = {'services': [{'uuid': '180F', 'primary': True, 'chars': chars}] + extra, 'decl_perm': {}}
    secs = rng.shuffle([(False, False), (True, False), (True, True)])
    on = rng.choice([0, 1, None])
    bearers = [{'mtu': rng.choice(MTUS), 'enc': secs[0][0], 'auth': secs[0][1], 'enh': False},
               {'mtu': rng.choice(MTUS), 'enc': secs[1][0], 'auth': secs[1][1], 'enh': False}]
    esec = secs[on] if on is not None else secs[2]
    bearers.append({'mtu': rng.choice(MTUS), 'enc': esec[0], 'auth': esec[1], 'enh': True, 'on': on})
    scn = ac.plan_wire(rng, {'db': db, 'bearers': bearers, 'max_mtu': 517, 'ops': []})
    probe = ac.run_impl(dict(scn, ops=[]))
    mdb = probe['db']
    hs = [3 + 3 * i for i in range(len(chars))]
    mtus = [b['mtu'] for b in bearers]
    for _ in range(n_ops):
        b = rng.below(3)
        r = rng.below(24)
        h = rng.choice(hs)
        val = None if rng.chance(1, 4) else ac.gen_value(rng).hex()
        if r < 3:
            op = ['cccd', h, rng.choice(['0100', '0200', '0300', '0000', '01', '030000'])]
        elif r < 7:
            op = ['notify', h, val, rng.chance(1, 3)]
        elif r < 13:
            op = ['indicate', h, val, rng.chance(1, 2)]
        elif r < 16:
            op = ['rx', '1e']
        elif r < 17:
            op = ['rx2c']
        elif r < 18:
            m = rng.choice([x for x in MTUS if x >= mtus[b]] or [mtus[b]])
            op = ['rx', (b'\x02' + ac.le16(m)).hex()]
            mtus[b] = min(517, max(mtus[b], m))
        else:
            opc = rng.choice(ac.REQUEST_OPCODES + [0x52, rng.below(256)])
            p = ac.gen_request(rng, opc, mdb, mtus[b])
            if opc == 0x02:
                p = ac.le16(rng.choice([x for x in MTUS if x >= mtus[b]] or [mtus[b]]))   # never lowered, see docs
                mtus[b] = min(517, max(mtus[b], p[0] | (p[1] << 8)))
            op = ['rx', (bytes([opc]) + p).hex()]
        scn['ops'].append([b, op])
    return scn


def gen_burst_scenario(rng, k, n_ops):
    """bursts: 2-6 PDUs handed to the bearer before the event loop runs again -- requests of every kind (also
    malformed), Exchange MTU (raising), confirmations (one or several), commands, unknown opcodes -- between
    notifications / indications; value functions that suspend are replaced by ones that do not"""
    scn = gen_initiated_scenario(rng, 0) if k % 2 else gen_scenario(rng, k, 0)
    for s in scn['db']['services']:
        for c in s['chars']:
            for x in [c] + c['descs']:
                if x.get('flavor') == 2:
                    x['flavor'] = 1
    scn['ops'] = []
    probe = ac.run_impl(scn)
    mdb = probe['db']
    mtu = scn['bearer']['mtu']
    notifying = [a[7] for a in mdb if a[7]]
    for _ in range(n_ops):
        r = rng.below(10)
        if r < 6:
            burst = []
            for _ in range(rng.range(2, 6)):
                opc = rng.choice(ac.REQUEST_OPCODES + [0x52, 0x1E, 0x1E, 0x02, 0x04, rng.below(256)])
                p = ac.gen_request(rng, opc, mdb, mtu)
                if opc == 0x02:
                    m = rng.choice([x for x in MTUS if x >= mtu] or [mtu])
                    p = ac.le16(m)
                    mtu = min(scn.get('max_mtu', 517), max(mtu, m))
                burst.append((bytes([opc]) + p).hex())
            scn['ops'].append(['burst', burst])
        elif notifying and r < 9:
            h = rng.choice(notifying)
            scn['ops'].append([rng.choice(['indicate', 'indicate', 'notify']), h,
                               None if rng.chance(1, 4) else ac.gen_value(rng).hex(), True])
        else:
            scn['ops'].append(['rx', '1e'])
    return scn


def gen_close_scenario(rng, k, n_ops):
    """One connection carrying the fixed ATT bearer and one or two EATT bearers: indications are left
    unconfirmed on some bearer, ANOTHER enhanced bearer is closed by the peer while the ACL link stays up, then
    further indications (forced, or through the subscription made before the close) and notifications are
    issued on the bearers that are still alive, confirmations arrive late."""
    chars = [{'uuid': '%04X' % (0x2A10 + i), 'props': 0x3A, 'descs': [], 'perm': 3, 'value': ac.gen_value(rng, 60).hex(),
              'rerr': 0, 'werr': 0, 'flavor': 0} for i in range(2)]
    db = {'services': [{'uuid': '180F', 'primary': True, 'chars': chars}], 'decl_perm': {}}
    sec = rng.choice([(False, False), (True, False), (True, True)])
    n_eatt = rng.choice([1, 2, 2])
    bearers = [{'mtu': rng.choice(MTUS), 'enc': sec[0], 'auth': sec[1], 'enh': False}]
    for _ in range(n_eatt):
        bearers.append({'mtu': rng.choice([23, 30, 48, 64, 100, 247]), 'enc': sec[0], 'auth': sec[1], 'enh': True, 'on': 0})
    scn = ac.plan_wire(rng, {'db': db, 'bearers': bearers, 'max_mtu': 517, 'ops': []})
    hs = [3, 6]
    alive = list(range(len(bearers)))
    ops = scn['ops']
    for b in alive:
        ops.append([b, ['cccd', rng.choice(hs), '0300']])
        if rng.chance(1, 2):
            ops.append([b, ['cccd', hs[1], rng.choice(['0200', '0100'])]])
    for _ in range(n_ops):
        r = rng.below(20)
        b = rng.choice(alive)
        h = rng.choice(hs)
        val = None if rng.chance(1, 4) else ac.gen_value(rng, 80).hex()
        closable = [x for x in alive if x != 0]
        if r < 8:
            ops.append([b, ['indicate', h, val, rng.chance(1, 2)]])
        elif r < 11:
            ops.append([b, ['notify', h, val, rng.chance(1, 3)]])
        elif r < 14 and closable:
            y = rng.choice(closable)
            alive.remove(y)
            ops.append([y, ['close']])
            # straight after the close: indications on every bearer that is still alive
            for x in alive:
                ops.append([x, ['indicate', rng.choice(hs), ac.gen_value(rng, 30).hex(), True]])
                ops.append([x, ['indicate', rng.choice(hs), None, False]])
        elif r < 17:
            ops.append([b, ['rx', '1e']])
        elif r < 18:
            ops.append([b, ['rx', (b'\x0a' + ac.le16(rng.choice([3, 4, 6, 7]))).hex()]])
        else:
            ops.append([b, ['cccd', h, rng.choice(['0300', '0200', '0000'])]])
    return scn


def blob_suite(mtus):
    """Deterministic: Read Blob (and Read) of values shorter than, equal to and longer than ATT_MTU - 1 at
    offsets 0, 1, len - 1, len, len + 1 -- the ATTRIBUTE_NOT_LONG / INVALID_OFFSET / part-size branches."""
    out = []
    for mtu in mtus:
        lens = [0, 1, mtu - 2, mtu - 1, mtu, mtu + 1, 2 * mtu]
        chars = [{'uuid': '%04X' % (0x2B00 + i), 'props': 0x0A, 'perm': 3, 'value': bytes((7 * i + j) & 0xFF for j in range(n)).hex(),
                  'rerr': 0, 'werr': 0, 'flavor': 0, 'descs': []} for i, n in enumerate(lens)]
        ops = []
        for i, n in enumerate(lens):
            h = 3 + 2 * i
            ops.append(['rx', (b'\x0a' + ac.le16(h)).hex()])
            for off in sorted({0, 1, max(0, n - 1), n, n + 1, mtu - 1}):
                ops.append(['rx', (b'\x0c' + ac.le16(h) + ac.le16(off)).hex()])
        out.append({'db': {'services': [{'uuid': '180A', 'primary': True, 'chars': chars}], 'decl_perm': {}},
                    'bearer': {'mtu': mtu, 'enc': False, 'auth': False, 'enh': mtu % 2 == 0, 'peer_mtu': mtu},
                    'max_mtu': 517, 'ops': ops})
    return out


def load_corpus():
    out = []
    for path in sorted(glob.glob(os.path.join(CORPUS, '*.json'))):
        with open(path) as f:
            out.append((os.path.basename(path), json.load(f)))
    return out


# ----------------------------------------------------------------------------- run
def check_scenarios(ctx, labelled):
    """run [(label, scenario)] on implementation and model, compare, apply the oracle"""
    from lib.verif import _jobs
    scns = [s for _, s in labelled]
    impl = [ac.run_impl(s) for s in scns]
    exprs = [ac.coq_scenario_multi(r['db'], s, r['init_mtus']) if 'bearers' in s else ac.coq_scenario(r['db'], s, r['init_mtus'])
             for s, r in zip(scns, impl)]
    model = ctx.coq_eval(['Model.AttServer'], exprs, shard=max(3, (len(exprs) + _jobs() - 1) // _jobs()))
    for k, ((label, s), r, mv) in enumerate(zip(labelled, impl, model)):
        m = ac.model_result(mv)
        nreq = sum(1 for o in r['ops'] if o[0] == 'rx' and bytes.fromhex(o[1])[0] in ac.REQUEST_OPCODES)
        ctx.case((label, s), nreq > 0 or label == 'initiated',
                 {'kind': label, 'bearers': ac.scn_bearers(s), 'ops': s['ops'][:6], 'outs': r['outs'][:6]} if k % 17 == 1 else None)
        ctx.count(f'{label}.scenarios')
        ctx.count(f'{label}.ops', len(s['ops']))
        for a in r['db']:
            if a[7]:
                ctx.count('attr.server_cccd')
            elif a[5] or a[6]:
                ctx.count('attr.read_%s.write_%s' % tuple('ok' if e == 0 else ('att_error' if e > 0 else 'other_exception')
                                                             for e in (a[5], a[6])))
        for b in ac.scn_bearers(s):
            ctx.count('bearer.enhanced' if b.get('enh') else 'bearer.fixed')
            ctx.count('security.%s%s' % ('enc' if b['enc'] else 'plain', '+auth' if b['auth'] else ''))
        for o, out in zip(r['ops'], r['outs']):
            if o[0] == 'burst':
                ctx.count('op.burst')
                ctx.count('op.burst.pdus', len(o[1]))
            elif o[0] == 'rx':
                pdu = bytes.fromhex(o[1])
                ctx.count('rx.op.0x%02X' % pdu[0] if pdu[0] in ac.REQUEST_OPCODES + [0x52, 0x1E, 0xD2] else 'rx.op.other')
            else:
                ctx.count('op.' + o[0])
            for p in out:
                ctx.count('tx.op.0x%s' % p[:2])
                if p[:2] == '01':
                    ctx.count('tx.error.0x%s' % p[8:10])
        ctx.extra.setdefault('opcodes_sent', set()).update(
            bytes.fromhex(o[1])[0] for o in r['ops'] if o[0] == 'rx')
        if m is None:
            ctx.disagree(f'{label}: model has no handler for an op', _replay(s), None, r['outs'])
        else:
            i = {'outs': [[ac.digest(bytes.fromhex(p)) for p in out] for out in r['outs']],
                 'values': [ac.digest(bytes.fromhex(v)) for v in r['values']],
                 'mtu': r['final_mtus'] if 'bearers' in s else r['mtu']}
            if m != i:
                bad = next((j for j, (a, b) in enumerate(zip(m['outs'], i['outs'])) if a != b), None)
                ctx.disagree(f'{label}: model and implementation differ'
                             + (f' at op {bad} {s["ops"][bad]}' if bad is not None else ' in final values / mtu'),
                             _replay(s), m['outs'][bad] if bad is not None else [m['values'], m['mtu']],
                             i['outs'][bad] if bad is not None else [i['values'], i['mtu']])
        for sig, what in oracle(s, r):
            ctx.violation(sig, what, _replay(s))


def _replay(s):
    return {'kind': 'scenario', 'scenario': s}


def run(ctx):
    ctx.rule = ('scenario = generated GATT database (1-3 services, characteristics/descriptors with values of 0..512 '
                'bytes, every permission combination, 16/32/128-bit UUIDs, static values and value objects whose read / '
                'write function returns, raises ATT_Error, raises another exception or is missing, server-made CCCDs '
                '(NOTIFY/INDICATE characteristics), optionally altered declaration permissions) x bearer (ATT_MTU 23..517 boundary-biased, plain/encrypted/'
                'authenticated, fixed or EATT) x ~60 PDUs (every request opcode 2-3 times with boundary handles, ranges, '
                'types, offsets, handle sets of 0..300 handles, truncated and over-long parameters; all 256 opcodes '
                'cycled); plus notification/indication scenarios (CCCD writes, values 0..512, confirmations incl. '
                'spurious and doubled, MTU raises). Loop run to idle after each op. Non-trivial: contains a request.')
    ctx.assumptions += [
        'asyncio runs a task atomically up to its next suspension',
        'the 30 s indication timeout does not fire',
        'a client does not lower ATT_MTU by a second Exchange MTU Request while indications are queued '
        '(C10_server_initiated_le_mtu is stated under that hypothesis; refuted without it in Proofs/AttServer.v)',
    ]
    ctx.trusted += ['Model/AttServer.v handlers are hand-written readings of gatt_server.py / att.py, tied to the code by '
                    'differential execution (exact PDU bytes) and by the regenerated tables (Gen/C10Tables.v: ATT_REQUESTS, '
                    'handler set and kind, field layouts, try/except guard of every awaited read_value/write_value, '
                    'constants)']
    rng = ctx.rng
    batch = [('corpus', s) for _, s in load_corpus()]
    batch += [('boundary', s) for s in boundary_suite(range(23, 23 + ctx.n(9, 60)), False)]
    batch += [('boundary', s) for s in boundary_suite(range(23, 23 + ctx.n(2, 60), 1), True)]
    batch += [('boundary', s) for s in blob_suite([23, 24, 48, 100][:ctx.n(3, 4)] + list(range(25, 25 + ctx.n(0, 20))))]
    batch += [('requests', gen_scenario(rng, k, 60)) for k in range(ctx.n(26, 1200))]
    batch += [('initiated', gen_initiated_scenario(rng, 40)) for _ in range(ctx.n(10, 400))]
    batch += [('several-bearers', gen_multi_scenario(rng, k, 70)) for k in range(ctx.n(8, 150))]
    batch += [('bursts', gen_burst_scenario(rng, k, 24)) for k in range(ctx.n(8, 150))]
    batch += [('bearer-close', gen_close_scenario(rng, k, 30)) for k in range(ctx.n(8, 150))]
    for i in range(0, len(batch), 160):
        check_scenarios(ctx, batch[i:i + 160])
    sent = ctx.extra.pop('opcodes_sent', set())
    ctx.extra['distinct_opcodes_sent'] = len(sent)
    if len(sent) < 256:
        ctx.notes.append(f'only {len(sent)} of 256 opcodes were sent in this run')


def search(ctx):
    """proof / correspondence broke without an oracle failure: a larger directed campaign"""
    rng = ctx.rng.fork('search')
    for round_ in range(6):
        scns = [gen_scenario(rng, k, 80) for k in range(40)] + [gen_initiated_scenario(rng, 60) for _ in range(20)]
        for s in scns:
            r = ac.run_impl(s)
            for sig, what in oracle(s, r):
                ctx.violation(sig, what, _replay(s))
        if ctx.violations:
            return


def replay(ctx, obj):
    s = obj['replay']['scenario']
    r = ac.run_impl(s)
    for o, out, mtu in zip(s['ops'], r['outs'], r['mtus']):
        print(f'  {o}  (ATT_MTU {mtu}) -> {out}')
    bad = list(oracle(s, r))
    for sig, what in bad:
        print('oracle FAILS:', sig, '-', what)
    if not bad:
        print('oracle: holds')
    try:
        mv = ctx.coq_eval(['Model.AttServer'], [ac.coq_scenario(r['db'], s, r['init_mtus'])])[0]
        print('model:', ac.model_result(mv)['outs'])
    except Exception as e:          # the model may not be built
        print('model: not evaluated:', type(e).__name__)
    return 1 if bad else 0
